"""Table behind MANIFEST.json (edit here, then run tools/manifest.py)."""

HOOK_COMMITS = []

MC = "model_checking"
TV = "translation_validation"
EX = "exploration"

CHECKS = [
    dict(id="C09", level=MC, technique="TLC model-checks the C09 clauses on the transition graph recorded from the real TimeManager; "
         "TLC trace-validates every recorded edge against spec/sys/TimeStepper.tla; TLC checks the clauses on the mechanism model",
         text="Within each configuration (dyadic schedule of 2-6 points, dt bounds, relaxation/recomputation factors, fault budget) every "
              "reachable state of the real TimeManager under the run_time_dependent_model loop and every convergence/failure outcome is "
              "visited (breadth-first on the real object), and TLC evaluates all clauses (monotone accepted times, no overshoot, no skipped "
              "scheduled time, dt bounds, rewind on failure, raise only when exhausted, termination) on that recorded graph. Exhaustive "
              "within the bounds, so the right level for a property quantified over schedules and fault sequences.",
         note="Dyadic parameters only (double arithmetic exact, isclose = equality); states needing resolution finer than 2^-12 are pruned; "
              "graphs larger than the node budget are cut breadth-first (reported as truncated). The driver transcribes the loop of "
              "run_time_dependent_model and the compute_time_step calls of SolutionStrategy. A second family judges arbitrary float parameters within a tolerance (Eps monitor), including near misses of scheduled times (relative gap 2e-7..4e-6 at times up to 3000)."),
    dict(id="C08", level=MC, technique="TLC model-checks the C08 clauses on the transition graph recorded from the real storage helpers "
         "(contents + memory-sharing pattern); TLC trace-validates every recorded edge against the heap model spec/sys/HistoryStore.tla",
         text="Every history of set (time-step / iterate / both, overwrite / additive), get, shift and caller-side writes into arrays it holds, "
              "up to a bounded length and for depth pairs 1..3 and unbounded, is executed on the real data-dictionary helpers and on the "
              "EquationSystem wrappers; TLC evaluates the sliding-window, latest-write, no-aliasing, additive-on-empty and read clauses on the "
              "recorded graph. Exhaustive within the bounds for a property quantified over histories.",
         note="Calls addressed to another quantity (another name in the same dictionary / the same variable name on another grid) are part of the histories: clause OthersIndependent. Vectors are constant arrays (content = one integer); index gaps are not generated; the caller holds at most the two most recent "
              "arrays; aliasing is observed with np.shares_memory on objects rebuilt by re-executing each history (no deep copies)."),
    dict(id="C10", level=MC, technique="TLC generates failure-injection scripts from spec/sys/SimDriver.tla; each is run through the real "
         "run_time_dependent_model; TLC model-checks the C10 (and C09 clock) clauses on the recorded prefix tree and trace-validates every step",
         text="SimDriver.tla composes the clock (TimeStepper) with token storage at the grain of the solution-strategy callbacks. All scripts of "
              "the small configuration and simulated scripts of two larger ones (history depth 2, fractured grid) are executed on a real "
              "single-phase flow model with scripted check_convergence; TLC checks on the recorded runs that time step 0 equals the converged "
              "iterate, histories shift, the iterate is reset after a failure, the history equals the accepted solutions, and the run ends at the final time.",
         note="check_convergence is overridden by the harness (as the property anticipates); vectors compared through byte-content tokens; dyadic "
              "time-step parameters; quick tier explores scripts with at most one failed solve exhaustively on the small configuration."),
    dict(id="C05", level=MC, technique="TLC judges every state of a real EquationSystem reached by create/remove histories against "
         "spec/ref/DofLayoutRef.tla (J_DofLayout); histories trace-validated against spec/sys/DofLayout.tla; design check Impl = Ref",
         text="All histories of create_variables / remove_variables up to a bounded length over 2 names, 3-4 dof types and 6 domain choices on a "
              "real md-grid with 4 subdomains (dims 2,1,1,0) and 4 interfaces are executed; in every reached state dofs_of, identify_dof for every "
              "index, projection_to, and set/get_variable_values (plain and additive; by name, md-variable, atomic variable, shuffled subsets) "
              "are recorded and TLC compares them with the reference layout (contiguous blocks in subdomain, interface, creation order).",
         note="Read-only lookups are issued after every call of a history (a stale lookup cache must show); all histories of length <= 2 plus one level of removals, and seeded histories of length 3-6. Quick tier observes the 60 shallowest states plus a seeded sample of 200 of the reached states; thorough observes all. "
              "Conformance uses the private block tables (_variable_numbers, _variable_num_dofs) and only yields DRIFT."),
    dict(id="C35", level=MC, technique="TLC enumerates compressed-storage inputs from spec/ref/SparseOpsEnum.tla and judges the real functions' "
         "outputs against the dense reference semantics of spec/ref/SparseOps.tla (J_SparseOps, 22 clauses)",
         text="Every utility named by the property (slicing, merging, zeroing, stacking, block construction, run-length coding, pointer/index "
              "expansion, block-diagonal indices, Kronecker expansion, optimized storage, copies) is called on all inputs of a bounded lattice of "
              "csr/csc storage structures (unsorted indices, empty lines, stored zeros; index arrays, masks, ints) plus seeded larger cases; TLC "
              "checks well-formedness of the result and equality of its dense value with the reference, and that untouched arguments keep their value.",
         note="Integer data, so all comparisons are exact. Zero-dimension inputs are informational only. Duplicate (row, col) entries are not generated."),
    dict(id="C37", level=TV, technique="TLC enumerates block structures / unimodular integer blocks / permutations (spec/ref/BlockDiagEnum.tla) and "
         "checks A * round(X) = I exactly on the real inverters' output (J_BlockDiag)",
         text="Block-size sequences (sizes 1-3 quick, 1-6 thorough) with integer unimodular blocks (exact integer inverse built alongside) are inverted by "
              "invert_diagonal_blocks (python and numba paths); row/column-permuted block-diagonal matrices go through "
              "generate_permutation_to_block_diag_matrix (ValidPerm predicate) and invert_permuted_block_diag_matrix; TLC multiplies back exactly.",
         note="Results are rounded when within 1e-9 of an integer (otherwise the case fails). A coarser but valid block decomposition is reported as DRIFT, "
              "since the property only asks that square blocks are exposed. The linear algebra kernels are black boxes (validated per input). Every fifth input is executed again with all entries scaled by 2^-50 and 2^40."),
    dict(id="C38", level=MC, technique="TLC enumerates cell-type layouts / export routes / time histories (spec/sys/ExportImport.tla) and judges the "
         "real Exporter write -> import round trips cell by cell (J_ExportImport); exported block layout compared with the model (DRIFT)",
         text="All layouts of 1-2 grids with up to 3 (quick) / 5 (thorough) cells over triangle/quad/pentagon (and 3D analogues) are realised as "
              "hand-built grids in real md-grids (optionally with a 1D fracture and interface), written with Exporter.write_vtu / write_pvd and "
              "restored with import_state_from_vtu / import_from_pvd / the DataSavingMixin route; TLC checks that every subdomain and interface "
              "gets back the values written at the latest step and that time information is restored.",
         note="The way data are handed to write_vtu (state keys / per-grid tuples in md-grid order / permuted tuples) is part of the enumerated family. Two recorded known findings (polyhedron block order in 3D; mixin plain-pvd time used as index) suppress exactly their classes. "
              "Point data and export_constants_separately are not covered. Quick tier runs workers with NUMBA_DISABLE_JIT=1. The md-grid pvd route runs over step lists (9, 10; 99, 100 ...)."),
    dict(id="C27", level=MC, technique="TLC enumerates ordered sublists of subdomains / interfaces / boundary grids and vector dimensions "
         "(spec/ref/GridProjectionsFamily.tla) and judges the real projection matrices entry by entry (J_GridProjections)",
         text="For real md-grids (2D host with crossing fractures and intersection point, 3D host with a fracture, thorough: more fractures and a "
              "non-matching mortar) every ordered sublist within the bound and nd in 1..3 is given to SubdomainProjections, MortarProjections and "
              "BoundaryProjection; TLC checks the index maps against the reference (offsets by list order, interleaved vector ordering), "
              "restriction o prolongation = identity, full list = permutation, mortar blocks at the matching offsets with zero blocks for absent grids.",
         note="Refined (non-matching) mortar grids are in the quick tier; all eight projections are requested from one object in two orders (int first / avg first). Per-interface scalar projections are read from the real MortarGrid (their correctness is C26); co-dimension-2 interfaces are not generated."),
    dict(id="C06", level=MC, technique="TLC enumerates equation histories x selections x variable subsets (spec/ref/AssemblyEnum.tla) and judges "
         "EquationSystem.assemble on a labelled system against spec/ref/AssemblyRef.tla (J_Assembly)",
         text="Equations are sum_v SparseArray(M) @ v + DenseArray(c) whose entries are unique integer codes of (row label, column label), so the rows "
              "and columns of any assembled Jacobian / residual are read back exactly. TLC enumerates ~2e5 cases (set/remove/update_equation histories of "
              "3 equations on subdomains / interfaces / a grid subset; selections by name or Operator in every order; restrictions to grid subsets incl. "
              "empty and reversed; disjoint variable arguments by name, md-variable, atomic) and checks rows, columns, residual, reported indices per "
              "equation and residual-only assembly against the reference slice of the full system in registry order.",
         note="The fixture md-grid has a 3x2 host (22 faces, 20 nodes) so that face- and node-based row counts cannot be confused unnoticed. Quick executes a seeded sample of 1500 of the enumerated cases, thorough all. Variable arguments naming a variable twice are outside the family."),
    dict(id="C28", level=MC, technique="TLC enumerates all canonical lattice segment pairs with the exact rational intersection (spec/ref/SegIsect*.tla) "
         "and judges segments_2d / segments_3d outputs for all 8 argument orders (J_SegIsect)",
         text="Every pair of non-degenerate segments with endpoints in {0..3}^2 (2D) and {0..1}^3 plus seeded coplanar/parallel pairs (quick) / all of "
              "{0..2}^3 (thorough) is classified none / point / segment by exact arithmetic in TLA+; the real functions must return the same kind and points "
              "(as point sets) independent of argument order.",
         note="Integer coordinates (the property's 'well-separated degeneracies'); 3D boxes beyond {0..2}^3 only seeded."),
    dict(id="C29", level=EX, technique="TLC enumerates contact-bearing lattice segment sets (spec/ref/SegSplitEnum.tla) and judges the output of "
         "split_intersecting_segments_2d with the exact predicate ValidSplit (J_SegSplit)",
         text="The output is not unique, so it is validated: edges meet only at shared endpoints, lie on their mapped input segment and carry its tags, cover "
              "every input segment, no duplicate edges or points - all evaluated by TLC in integer arithmetic on the rationalised output.",
         note="Input point arrays with duplicate columns (shared end points given separately) are part of the family; one known finding (columns left unmerged for one orientation). Sets of 2-3 segments exhaustively in small boxes plus seeded 3-4 segment sets; coincident input point columns are outside the family (callers uniquify first)."),
    dict(id="C33", level=MC, technique="TLC enumerates pairs of partitions of a lattice segment and pairs from a triangulation catalogue (spec/ref/TessEnum.tla) and "
         "judges line_tessellation/match_1d and triangulations/match_2d outputs (J_Tessellation)",
         text="1D: every pair of integer partitions of [0,N], embedded along integer directions, overlaps compared with the exact interval intersections and the "
              "row/column-sum laws; 2D: catalogue and seeded Delaunay triangulations judged by the laws (non-negative, sums to the cell measure, averaged rows = 1, "
              "integrated columns = 1) with exact areas.",
         note="2D pairs are embedded in tilted planes by rational rigid motions (opposite computed normals occur); two known findings of match_2d. 2D is law-only (no reference clipping). surface_tessellations not covered."),
    dict(id="C31", level=MC, technique="TLC enumerates lattice points / polygons / polyhedra / point orders (spec/ref/PredicateFamilies.tla) and judges the real predicates "
         "and sorting helpers against exact integer predicates (J_Predicates)",
         text="point_in_polygon, point_in_cell, point_in_polyhedron, half-space intersection, ccw, planarity and collinearity are compared with exact arithmetic on all "
              "lattice and half-lattice points against a catalogue of convex and non-convex polygons / polyhedra (boundary points excluded by exact predicates); "
              "sort_point_pairs, sort_multiple_point_pairs, sort_points_on_line, sort_point_plane, sort_triangle_edges are validated by chain/order predicates.",
         note="One known finding (point_in_polyhedron, interior point in a supporting plane of a non-convex polyhedron) suppresses exactly that class."),
    dict(id="C30", level=TV, technique="TLC enumerates lattice configurations with exact squared distances (spec/ref/Distance*.tla) and judges the real distance functions "
         "(J_Distance)",
         text="point-point, point-segment, segment-segment, point-polygon and segment-polygon distances are compared (squared, as rationals) with the exact reference and "
              "the returned closest points must lie on the objects at that distance; families include parallel, collinear, touching and skew placements in 2D/3D.",
         note="Doubles are converted to rationals with a 1e-9 relative tolerance (0 inconclusive cases). One known finding (segment_set always raises). segment_segment_set: short main segments against every segment of a longer lattice (parallel / collinear beyond the ends)."),
    dict(id="C44", level=TV, technique="TLC enumerates lattice segments x polygons and convex polygons x tilings (spec/ref/ClipFamilies.tla) and judges lines_by_polygon / "
         "polygons_by_polyhedron outputs with exact predicates (J_Clip)",
         text="lines_by_polygon: returned pieces lie inside and their union equals the exact inside intervals, tags carried; polygons_by_polyhedron: validated through "
              "convex tilings (containment of piece vertices and edge midpoints, area conservation over the tiling).",
         note="Boxes with pairwise different extents in every axis order are part of the polygon family; a second known finding (single-vertex touch asserts). Segments overlapping the polygon boundary are excluded (the property's family). Polygon clipping is validated by conservation, not by an exact clipped "
              "polygon; only convex polygons (documented domain). One known finding (polyhedron edge in the polygon's plane)."),
    dict(id="C19", level=TV, technique="TLC enumerates tensor grids (spec/ref/GridFam.tla) and judges compute_geometry output against exact geometry and the divergence-theorem "
         "identities of spec/lib/GridGeom.tla (J_GridGeom)",
         text="Cartesian/tensor/simplex grids in 1D-3D, re-orientations, shears, lattice perturbations, hand-built polygons/prisms with hanging nodes: porepy's own numbers "
              "must satisfy positivity, volume sum, |n| = area, outward normals, closedness, divergence and centroid identities, and equal the exact values (shoelace / "
              "signed tetrahedra), all in exact rational arithmetic.",
         note="Integer node coordinates; non-planar faces and other inputs outside the property's family are decided by TLC and counted, not judged. A quarter / third of the grids are judged again at the physical scales 2^-14 and 2^10 (exact rescaling)."),
    dict(id="C20", level=TV, technique="TLC computes R x + t exactly for rational rigid motions and judges compute_geometry of the moved grid (J_Equivariance)",
         text="24 signed permutations, integer-quaternion rotations with |q|^2 in {9,25,49}, products and integer translations applied to the C19 families (1D/2D grids "
              "embedded in 3D through them): volumes and areas unchanged, centres and normals transformed by the same motion, exactly.",
         note="map_grid itself is not covered (compute_geometry does not call it). One motion per grid translates by (8192, 4096, 2048) (the harness subtracts the translation again before the exact comparison)."),
    dict(id="C23", level=TV, technique="TLC judges refine_grid_1d, remesh_1d, refine_triangle_grid, extrude_grid, extrude_mdg, structured_refinement outputs with the exact "
         "predicates of spec/ref/Refine.tla (J_Refine)",
         text="Total measure equal (times height), each child inside its parent (exact point-in-cell), each child exactly one parent, valid grids; refine_grid_1d also "
              "compared with Refine1dRef; structured refinement maps each fine cell to the unique containing coarse cell.",
         note="1D extrusion bases along coordinate axes only; the face_map of extrusion and mortar grids of extrude_mdg are not judged."),
    dict(id="C21", level=MC, technique="TLC enumerates abstract cell complexes (spec/ref/GridComplexes.tla), instantiated as pp.Grid, and judges the connectivity queries against "
         "spec/ref/GridTopology.tla (J_GridTopology); real grids exported as incidence are judged the same way",
         text="cell_faces_as_dense, cell_connection_map (symmetric), boundary tags (exactly one adjacent cell), signs_and_cells_of_boundary_faces (scrambled face lists), "
              "cell_nodes and divergence(d) = Div kron I_d for d = 1..3, on chains / quad / triangle patches with holes, split faces, orientation masks, and on Cartesian, "
              "simplex, fractured and extracted real grids. Exact integer comparison.",
         note="Includes query - in-place topology update (fracture splitting, propagation) - query scenarios on the same grid objects. Complexes up to 8 cells. Clause QueriesPure: the queries must leave the incidence unchanged."),
    dict(id="C22", level=MC, technique="TLC enumerates (fine, coarse) pairs and cell subsets (spec/ref/PartitionEnum.tla) and judges partition_structured, partition_coordinates, "
         "overlap and extract_subgrid against spec/ref/Partition.tla (J_Partition)",
         text="Every (fine, coarse) with fine <= 7 per direction in 2D (3D sample): one id per cell within range, each part a box; overlap equals the k-fold closed "
              "neighbourhood (node / face criterion); extract_subgrid on every non-empty cell subset of small grids: injective index maps, induced incidence, geometry "
              "equal to the parent's on the mapped entities (exact rationals).",
         note="partition_metis not covered (pymetis absent). partition_coordinates connectivity check is reported as DRIFT only (not in the statement)."),
    dict(id="C17", level=MC, technique="TLC enumerates flux-sign / boundary-type assignments on complexes and divergence-free fluxes from integer stream functions "
         "(spec/ref/UpwindEnum.tla) and judges the real Upwind matrices and an exact explicit step (J_Upwind)",
         text="On every nonzero-flux face the upwind matrix selects exactly the cell the flux leaves (none on Neumann and Dirichlet-inflow faces), boundary matrices have "
              "exact support, Kronecker expansion for 1-3 components; an explicit step computed by TLC in rationals from porepy's own matrices conserves the total and "
              "stays within the initial bounds under the CFL limit.",
         note="Every flux field is realised at magnitudes 2^-40, 1 and 2^30 (the selection clause is about NONZERO fluxes, however small). Zero-flux faces are outside the selection clause; transport only in 2D; Robin faces excluded. Every case is the second discretisation of its data dictionary (the first one uses the complementary boundary types)."),
    dict(id="C46", level=MC, technique="TLC model-checks the dictionary clauses on the transition graph recorded from the real SparseNdArray (M_SparseNd); every recorded edge "
         "trace-validated against spec/sys/SparseNd.tla (T_SparseNd); design check Impl represents Ref",
         text="Histories of up to 3 add calls (batches of up to 3 coordinates with duplicates, additive and overwriting) and reads at every state, in 1-D and 2-D boxes of "
              "side 3: every read returns what a dictionary would hold, reading a never-inserted coordinate raises, reads do not write.",
         note="Includes seeded histories with batches of 4-12 items with heavy duplication. Values are small integers; 2-D box uses a seeded choice of batches per state in quick."),
    dict(id="C34", level=MC, technique="TLC enumerates clustered lattice point sequences and column sets (spec/ref/UniquifyEnum.tla, SetMemberEnum.tla) and judges "
         "uniquify_point_set, fracs.utils.uniquify_points, ismember_columns, intersect_sets (J_Uniquify)",
         text="Well-separated clusters (the property's family): one representative per cluster = first-occurring member, in order of first occurrence, both index maps; "
              "membership and tolerance-based intersection agree with brute force.",
         note="Integer column sets include negative entries. One known finding (norm pre-clustering splits a cluster straddling first_norm + tol), matched structurally (cross-checked against TLC's Straddle predicate)."),
    dict(id="C39", level=MC, technique="TLC enumerates assignment programs (spec/sys/BoundaryCond.tla) and judges the flag arrays of real BoundaryCondition / "
         "BoundaryConditionVectorial objects (J_BoundaryCond)",
         text="Every program of up to 3 (faces, cond) assignments over 4 boundary faces with duplicates, in index and mask form, via the constructor and set_bc / "
              "internal_to_dirichlet (vectorial), on Cartesian, simplex and split fractured grids: exactly one flag on boundary faces per component, none on interior "
              "non-fracture faces, unassigned boundary faces Neumann.",
         note="A fracture grid with tip faces off the domain boundary is part of both tiers. Quick covers vectorial programs of up to 2 assignments plus constructor-only 3-assignment programs; thorough is exhaustive."),
    dict(id="C07", level=MC, technique="TLC enumerates admissible primary/secondary splits and simulated sequences of splits on one system (spec/ref/SchurEnum.tla) "
         "and judges reduced-solve + expand against the full solve on manufactured integer systems (J_Schur); block labels vs spec/ref/SchurRef.tla as DRIFT",
         text="Every single admissible split of 3 equations (by name, or restricted to all/first/last/ends/none of their grids, counterpart variables primary) and "
              "sequences of up to 3 splits assembled one after the other on the same EquationSystem (the default inverter keeps a permutation between calls) are "
              "run on seeded strictly diagonally dominant sparse integer systems with a manufactured integer increment: assemble_schur_complement_system -> "
              "spsolve -> expand_schur_complement_solution must reproduce the full solve, with the default block inverter and with a custom inverter.",
         note="Linear solves are black boxes (results within 1e-8 of integers are rounded, anything else fails). The block composition (row/column labels of the "
              "primary and secondary blocks, read back on a labelled copy with a zero inverter) is compared with the reference but only reported as DRIFT."),
    dict(id="C40", level=TV, technique="TLC enumerates tensor parameters, rational rotations, restrictions and copies (spec/ref/TensorEnum.tla, TensorHeap.tla) and "
         "judges SecondOrderTensor / FourthOrderTensor against spec/ref/Tensor.tla (J_Tensor)",
         text="Symmetry of second- and fourth-order tensors, entries equal to the reference layout, rotate(R) = R K R^T for signed permutations x 3-4-5 / rational "
              "rotations with trace, second invariant and determinant preserved (the rational form of 'eigenvalues preserved'), restrict_to_cells selects the "
              "cells and leaves the original intact, copies are equal and independent (in-place writes through every array of either object).",
         note="Homogeneous tensors (1 and 3 identical cells) are rotated as well as many-cell tensors. Integer parameters, rational rotations: exact comparison. copy()/restrict after rotation only with signed permutations."),
    dict(id="C41", level=TV, technique="TLC enumerates boxes, resolutions, multilinear coefficient tensors and lattice query points (spec/ref/InterpTableEnum.tla) "
         "and judges InterpolationTable / AdaptiveInterpolationTable against the exact function (J_InterpTable)",
         text="Interpolation reproduces multilinear functions exactly at every lattice point of the closed box (nodes, interiors, boundary), gradients are exact for "
              "linear functions, and the adaptive table (driven in batch, point-by-point and assign_values modes) agrees with the standard table and the exact function.",
         note="1-3 parameters, resolutions 2-4 per axis, single-output functions."),
    dict(id="C42", level=EX, technique="TLC enumerates fraction vectors on the simplex, integer densities, gradients (spec/ref/SaturationEnum.tla) with the exact closed "
         "form and judges compute_saturations, chainrule_fractional_derivatives, normalize_rows (J_Saturation)",
         text="Saturations non-negative, sum to one, reproduce the fractions as density-weighted ratios and equal the closed form; the chain rule equals the exact rational "
              "Jacobian of the normalised fractions; row normalisation yields unit row sums; vectorised and scalar call paths.",
         note="2-5 phases incl. vanishing and saturated ones, fractions k/N with N <= 6; doubles converted to rationals (1e-9)."),
    dict(id="C43", level=TV, technique="TLC enumerates unit systems, unit strings and material classes (spec/ref/UnitsEnum.tla) and does all scaling arithmetic on exponent "
         "vectors; the real Units.convert_units / to_units results are judged (J_Units)",
         text="to-simulation then to-SI is the identity, a composed unit string equals composing the conversions, derived units equal their base-unit expressions, "
              "material constants converted to any unit system convert back to their SI values.",
         note="Only the unit-algebra sentences of the property are covered: the last sentence (a scaled flow simulation gives the same SI solution) has no discrete "
              "reference and is NOT claimed. Time scaling is 1 (the code rejects others); floats only."),
    dict(id="C01", level=TV, technique="TLC enumerates AD programs of depth <= 2 (3 by simulation) and computes value and Jacobian with the dual-number "
         "semantics of spec/ref/AdAlgebra.tla (exact rationals / symbolic terms); real AdArray results judged by TLC (J_AdAlgebra)",
         text="Every well-typed program over + - * / ** unary-, sparse @, row slicing, maximum and the function library, with AdArray / float / int / ndarray / "
              "sparse operands on either side, at rational points of 1-3 variables, is executed on real AdArrays from initAdArrays; rational entries are compared "
              "exactly, term-valued entries against a porepy-free numpy evaluation of the term TLC built by the chain rule. The dual-number closed forms are "
              "checked against the ring axioms by TLC; the calculus table is cross-validated by central differences on every run.",
         note="Transcendental values are compared under the tolerance policy of DESIGN section 8 (<= 1e-9 pass, > 1e-6 violation, between inconclusive; 0 "
              "inconclusive observed). Kinks/ties and ill-conditioned arguments are outside the family (counted per reason). The calculus table is trusted base. Includes a point with an entry exactly 0 under positive integer powers."),
    dict(id="C02", level=MC, technique="TLC enumerates the typed operator-expression space (spec/ref/OperatorTreeEnum.tla) with Python dispatch, node building, the parser's "
         "case analysis and the direct reference semantics (OperatorTree.tla); real evaluation through EquationSystem judged against direct AdArray evaluation (J_OperatorTree)",
         text="All well-typed expressions of depth <= 1 over 27 leaves (variables and md-variables in current / previous-time / previous-iterate states, Scalar, Dense/"
              "SparseArray, TimeDependentDenseArray, Projection(List), raw float / int / ndarray / sparse operands on either side), all six operators in both orders, "
              "function wrappers and shifts of composites (depth 2-3 sampled) are built with the real overloads, evaluated with and without derivatives through three "
              "entry points and compared with the program TLC derives for direct forward-mode evaluation: value, Jacobian, value-only agreement, previous time/iterate "
              "sub-expressions evaluate to stored values with no derivative. Design laws (Parse(Build(e)) agrees with Direct(e)) are checked on the whole space.",
         note="Leaves include md-variables whose sub-variables are not in md-grid order; composites are shifted by 1 and 2 steps in time and iterate. Exact comparison on rationals with denominator <= 1000, tolerance policy otherwise. Variables on interfaces and unary minus are not generated; the built "
              "tree vs the Build model is conformance only (DRIFT). Every tree that contains the Scalar leaf is evaluated again after Scalar.set_value (clause AfterSetValueAgrees)."),
    dict(id="C11", level=EX, technique="TLC enumerates grids x integer SPD tensors x boundary masks (spec/ref/FvOracleEnum.tla), computes the exact Darcy fluxes of linear fields "
         "(FvOracle.tla on GridGeom) and judges pp.Mpfa's output (J_FvOracle)",
         text="Black-box exact oracle: on Cartesian, simplex, non-uniform, perturbed and sheared integer-coordinate grids in 2D/3D, flux * p + bound_flux * bc must equal "
              "-(n_f . K g) on every face, a constant pressure gives zero flux and the boundary pressure reconstruction returns p(x_f); the oracle's own laws (per-cell "
              "flux balance) are checked by TLC.",
         note="The local interaction-region mechanism is not modelled. Doubles are compared with the exact rationals under the tolerance policy (0 inconclusive). One known "
              "finding: singular one-cell corner region (exact predicate DegenerateCorners). Default mpfa_eta only. Every second 2D grid is embedded in a tilted plane by a rational rigid motion (tensor rotated accordingly)."),
    dict(id="C12", level=TV, technique="TLC holds a transcription of the TPFA kernel as rational matrices (TpfaRef in spec/ref/FvOracle.tla) and judges porepy's flux, bound_flux and "
         "bound_pressure matrices entrywise plus the structural clauses (J_FvOracle)",
         text="For any valid grid and per-cell SPD tensor: div * flux symmetric, single-valued face flux, zero flux for constants (evaluated by TLC on porepy's own matrices); on "
              "Cartesian/tensor grids with diagonal K: M-matrix signs, entrywise agreement with MPFA, exactness for linear fields with constant K, and entrywise equality "
              "with TpfaRef on K-orthogonal configurations (elsewhere a difference from the transcription is DRIFT).",
         note="The tensor catalogue includes transversely isotropic tensors in all axis positions (constant and per cell). Reference comparison skipped where 32-bit guards fail (counted). Faces whose half transmissibilities cancel exactly are counted, not judged for ConstantZero."),
    dict(id="C18", level=EX, technique="TLC enumerates simplex grids (optionally embedded by rational rigid motions), tensors and linear fields and judges RT0 / MVEM solutions against the "
         "exact fluxes and pressures (J_FvOracle)",
         text="Black-box exact oracle: with Dirichlet data from a linear pressure, extract_flux / extract_pressure must give the exact face fluxes and cell-centre pressures on "
              "1D-3D simplex grids; mass matrices symmetric and positive definite.",
         note="Positive definiteness (Cholesky succeeds) and the 1e-12 symmetry fallback are float predicates relayed to TLC. The local mass-matrix mechanism is not modelled. One RT0 and one MVEM object serve all grids in turn."),
    dict(id="C13", level=EX, technique="TLC enumerates grids, Lame parameters, displacement gradients and admissible boundary assignments (spec/ref/MechOracleEnum.tla), computes exact "
         "tractions (MechOracle.tla) and judges pp.Mpsa's output (J_MechOracle)",
         text="Black-box exact oracle: stress * u + bound_stress * bc equals (2 mu sym(G) + lambda tr(G) I) n_f on every non-Neumann face for all-Dirichlet data, any 2D "
              "Dirichlet/Neumann mix and 3D mixes without two Neumann faces sharing an edge (admissibility computed by TLC on the incidence); translations give zero traction; "
              "boundary displacement reconstruction exact on Dirichlet faces.",
         note="Tolerance policy for doubles (0 inconclusive). Thorough also runs the split path and both local inverters. Boundary assignments sampled. Includes triangular-prism grids (faces with 3 and 4 nodes)."),
    dict(id="C15", level=EX, technique="TLC computes exact div(u)|c| and -alpha p n_f on enumerated grids (MechOracle.tla) and judges the Biot coupling matrices (J_MechOracle)",
         text="div_u and bound_div_u applied to a linear displacement give tr(G)|c| per cell; scalar_gradient applied to a constant pressure gives -alpha p n_f per face and "
              "component, for scalar and tensor coupling coefficients, with Dirichlet mechanical data.",
         note="Black-box oracle; tolerance policy for doubles. The quick tier sends two 2D grids through the split path."),
    dict(id="C16", level=EX, technique="TLC enumerates grids and translations; zero TPSA stress and the solved translation judged (J_MechOracle)",
         text="A uniform displacement with matching Dirichlet data gives zero stress on every face; solving the assembled TPSA system returns the translation with zero rotation "
              "and solid pressure (within 1e-8) on Cartesian, simplex and perturbed grids in 2D/3D with Dirichlet or mixed data.",
         note="Boundary assignments include component-wise mixes (rolling conditions). Mixed-boundary systems with condition number >= 1e6 are excluded from the solve clause (counted); the linear solve is a black box; lambda > 0."),
    dict(id="C24", level=MC, technique="TLC judges every transition recorded from real MixedDimensionalGrid histories against the reference state of spec/ref/MdGridRef.tla "
         "(M_MdGrid) and trace-validates every edge against the mechanism model spec/sys/MdGrid.tla (T_MdGrid); design check of the model",
         text="Histories of up to 4-5 add_subdomains / add_interface (both argument orders, co-dimension 0-2, rejected calls) / remove_subdomain / "
              "replace_subdomains_and_interfaces calls over pools of tiny real grids of dimension 0-3 with mock mortar grids, and replacement / removal histories on real "
              "fractured md-grids (update_mortar / update_primary / update_secondary run for real), are executed by path re-execution; after every call all public "
              "listings and lookups are recorded and TLC checks: sorted unique listings, pair round trips, removal deletes exactly the subdomain's interfaces and boundary "
              "grid, one boundary grid per positive-dimensional subdomain, data carried over on replacement, nothing dangling, in-family calls accepted.",
         note="Interfaces are added between distinct present subdomains, at most one per pair. Replacing the 2D host of the X-configuration (raises in the mortar update) is "
              "outside the family. Identity of the data dict objects is DRIFT only."),
    dict(id="C26", level=MC, technique="TLC judges the eight mortar projection matrices (exact rationals) recorded after replacement histories against the per-side laws "
         "(J_MortarMaps) and entrywise against the model spec/sys/MortarMaps.tla (T_MortarMaps, DRIFT); design check of the model",
         text="On real md-grids with a fracture of integer length (I and X configurations) all histories of up to 2 (sampled 3rd) mortar / secondary / primary "
              "replacements by uniform and non-uniform partitions through replace_subdomains_and_interfaces are executed; per mortar side TLC checks that integrated "
              "projections preserve totals (column sums 1), averaged projections preserve constants (row sums 1) and mortar_to_X_int = (X_to_mortar_avg)^T and vice versa. "
              "2D interfaces (match_2d on simplex grids) are judged by the laws only, in fixed point.",
         note="Per side, as the property says. update_primary for 2D mortars and non-simplex 2D replacements are refused by the code (recorded, not judged). TLC runs with "
              "-Xss64m (deep lazy rational products)."),
    dict(id="C36", level=MC, technique="TLC enumerates slicer programs (spec/sys/Slicer.tla over spec/ref/SlicerRef.tla) incl. reuse of slicers across statements and judges every "
         "Apply of real ArraySlicer objects / pp.ad.Projection trees against explicit projection matrices (J_Slicer)",
         text="Programs of up to 3 (thorough 4) statements over up to 3 slicers (permutations, injections, restrictions, 7 constructor forms, transposes, chains, pending "
              "left operands) applied to vectors, 2-D arrays, sparse matrices, AdArrays and scalars: each result equals the value of the expression as written with "
              "explicit 0/1 matrices. The mechanism (one pending slot) is modelled and checked against the reference at design level.",
         note="One known finding (a second pending operand overwrites the first). ndarray / AdArray left operands and other documented-unsupported forms are outside the family. Configuration 'reuse': one slicer object applied to two sparse / AD operands of equal shape and entry count."),
    dict(id="C45", level=MC, technique="TLC enumerates pairs (tree, rebuilt tree or single-site mutation) over all leaf kinds (spec/ref/OperatorKeysEnum.tla) and judges _key / hash "
         "equality of the really built operators against StructEq (J_OperatorKeys)",
         text="Structurally identical trees (built separately, cold and with warm key caches) must have equal keys and hashes; trees differing in one site (scalar value, array "
              "entry / shape / format, variable name / domain / time or iterate shift, projection domain size / range size / indices / transposition, operation tag, "
              "function, child order, association) must have different keys. A TLA transcription of every _key is compared as DRIFT.",
         note="Shifted leaves are also built as chains of single shifts with the key cached in between, and whole trees are shifted after hashing. Four known findings (functions, domain kind, ProjectionList repr, abbreviated long index arrays). Two descriptions of the same projection matrix and post-build "
              "mutation (Scalar.set_value) are not judged. Mutations include the same domains in the opposite order."),
    dict(id="C25", level=MC, technique="TLC enumerates lattice fracture networks and computes the unique conforming md-grid (spec/ref/FracMesh.tla, FracMeshEnum.tla); the real "
         "meshed md-grids are exported and judged (J_FracMesh); simplex (gmsh) and tensor meshes judged by the validity predicates",
         text="All admissible networks of 1-3 axis-aligned line fractures on small 2D lattices and rectangles on small 3D lattices (X/T/L configurations, fractures "
              "touching the boundary) are meshed with pp.meshing.cart_grid (a sample also through create_mdg); TLC checks that each lower-dimensional cell is coupled to one "
              "split host face per side (one side at T-ends), coupled faces coincide with the cell (centre, measure, nodes) with opposite normals, fracture tags mark "
              "exactly the coupled faces, host volume = domain volume, cells lie on their fracture, mortar sides match; on the lattice family additionally equality with "
              "the expected coupling pairs. A gmsh catalogue (non-axis-aligned, X/T/L/Y) and non-uniform tensor grids are judged by the predicates in fixed point.",
         note="Includes Cartesian md-grids with physical dimensions different from the cell counts (non-representable and non-dividing cell sizes) through cart_grid(physdims=) and create_mdg. Float-judged clauses on the simplex/tensor families (tolerance policy, 0 inconclusive). One known finding (partially overlapping intersection segments make "
              "split_intersections raise, order dependent; thorough tier only). Overlapping/duplicated fractures are outside the family."),
    dict(id="C04", level=EX, technique="TLC model-checks an exact flux ledger of mixed-dimensional networks (spec/ref/ConservationEnum.tla: conservation law, per-interface cancellation, "
         "seven corruptions each shown to break it) and judges data recorded from real SinglePhaseFlow / MassAndEnergyBalance models (J_Conservation): the real divergence and "
         "mortar projections as a ledger network (exact), measured unit-interface-flux -> residual columns and residual / accumulation sums for random states in 60-bit fixed point",
         text="Design: TotalResidual = TotalAccumulationRate proved by TLC on all enumerated small networks (1-3 subdomains of dimension 2/1/0, 0-2 interfaces, matching and "
              "non-matching mortars, both face orientations, integer fluxes). Binding: closed-boundary, source-free models on md-grids with 0-3 fractures (X/T/L intersections, immersed "
              "tips, tilted fracture, non-matching fracture/mortar grids, 3D with 1-3 orthogonal planes; Cartesian and simplex; compressible and incompressible; MPFA, TPFA, "
              "differentiable TPFA). TLC checks that every divergence column is +-1 / {+1,-1}, that mortar weights partition unity onto internal-boundary faces / lower-dimensional "
              "cells, that the real incidence data are a well-formed ledger instance that conserves exactly, that each measured interface-flux column cancels between the higher and "
              "lower dimension, and for random states of all primary variables (current iterate and previous time step) that the summed mass / energy residuals equal the summed "
              "accumulation rates (<= 1e-9 scale pass, > 1e-6 scale violation; scale = sum |div||flux| + |source|), plus per-interface cancellation.",
         note="Only the ledger part is exhaustive within its bounds; the statement part is sampled (11 models x 2 states quick, 121 x 8 thorough). Not covered: wells (codimension-2 "
              "interfaces), gravity / vector sources, external sources, multiphase / compositional and poromechanics models, non-constant dt; 3D limited to orthogonal planes in a unit "
              "cube. The sign convention of interface fluxes is not judged. One known finding (differentiable TPFA drops the interface flux on internal boundary faces: energy created; "
              "the one-line repair contradicts a pinned test, see DESIGN 11.3)."),
    dict(id="C14", level=EX, technique="TLC enumerates, on incidences exported from real grids, the split / partial-update / inverter variants with the max_memory values that force each "
         "sub-problem count, the update footprints and the model laws (spec/ref/SplitInvarianceEnum.tla: LawCover, LawFootprint, LawMem ...) and judges every stored matrix entry "
         "of the variant against the one-piece discretisation in 39-bit fixed point (J_SplitInvariance)",
         text="MPFA, MPSA and Biot on Cartesian / simplex, plain and perturbed 2D grids (thorough: also small 3D grids), homogeneous / heterogeneous / full tensors, boundary modes "
              "dir / neu / mixed / Robin / component-wise: the matrices of (a) the other local inverter, (b) a split into k in {1,2,3,n_cells} sub-problems requested by "
              "num_subproblems or max_memory, (c) partial discretisation on specified cells / faces / nodes requested as fresh discretisation, by the update flag or by "
              "update_discretization(), (d) partial + split, must equal the one-piece matrices on the targeted rows (all rows for a and b; the documented footprint for c) and the "
              "old matrices elsewhere. Entries within 1e-9 of the matrix scale pass, beyond 1e-6 are violations. Exceptions of the code are observations (Completes).",
         note="Metamorphic (code against itself): consistency of the one-piece matrices is C11/C13/C15. Selection of configurations x request sets is sampled with the seed (200 "
              "variants quick, ~1750 thorough). Not covered: combined specified_cells/_faces/_nodes requests (documented as untested), metis partitioning (not installed), "
              "fractured / embedded / 1D grids, grids above 16 cells (2D) / 12 cells (3D). Two known findings (the Biot update flag always raises TypeError; a singular corner "
              "system in the overlap with the python inverter)."),
    dict(id="C32", level=TV, technique="TLC enumerates directions (all Pythagorean quadruples up to a bound, signed permutations, generic integer and nearly parallel directions), point "
         "sets and angles (spec/ref/OrthoMapsEnum.tla) and judges the returned matrices by integer identities or 39-bit fixed-point limb arithmetic (J_OrthoMaps)",
         text="project_plane_matrix, project_line_matrix, rotation_matrix, compute_normal and TangentialNormalProjection: rows and columns orthonormal (distances preserved), "
              "unit determinant, the normal / tangent is mapped onto the reference axis with its length, computed normals are unit and orthogonal to the point set, the "
              "projection blocks are mutually consistent. Values that are rationals with a common denominator <= 1200 (the exact family: Rodrigues rotations of Pythagorean "
              "unit vectors are rational) are judged by exact integer identities, all others in fixed point under the tolerance policy.",
         note="Includes a graded family of nearly axis-aligned normals (tilts 1e-1 .. 1e-7). Readings fixed in the assumptions: a normal exactly opposite to the reference axis may map to either orientation (the code returns the identity); 2D projection "
              "blocks have |det| = 1 (documented tangent choice). map_grid is not covered."),
    dict(id="C47", level=EX, technique="TLC enumerates 2D / 3D fracture networks and named data arrays (spec/ref/FileRoundTripEnum.tla) and judges what the real readers return after "
         "the real writers (J_FileRoundTrip)",
         text="csv round trips of 2D networks (header, max_num_fracs, tag columns, domain + fracture ids) and 3D polygon networks (with / without domain line) and txt round trips "
              "of 1-3 named arrays of length 0-4: same fractures (as bags of end-point pairs / polygons up to cyclic shift and reversal), ids, domain, same names and values.",
         note="Small-denominator coordinates so that the text formats are exact. Polyline / elliptic csv and fab files have no writer and are not covered; mismatched reader "
              "options (has_domain) count as usage errors."),
]

_NOT_BUILT = "check not built yet (planned, DESIGN.md section 10); not claimed until its commands are green on the unchanged tree"
NOT_APPLICABLE = [
    dict(property_id="C03", reason="only oracle is a finite-difference derivative of the implementation's own residual; no discrete/rational reference a TLA+ spec could state (DESIGN.md section 6)"),
]
_claimed = {c["id"] for c in CHECKS}
_na = {c["property_id"] for c in NOT_APPLICABLE}
for _i in range(1, 48):
    _p = f"C{_i:02d}"
    if _p not in _claimed and _p not in _na:
        NOT_APPLICABLE.append(dict(property_id=_p, reason=_NOT_BUILT))
