"""Table behind MANIFEST.json (edit here, then run tools/manifest.py)."""

HOOK_COMMITS = []

MC = "model_checking"
TV = "translation_validation"
EX = "exploration"

CHECKS = [
    dict(id="C09", level=MC, technique="TLC model-checks the C09 clauses on the transition graph recorded from the real TimeManager; "
         "TLC trace-validates every recorded edge against spec/sys/TimeStepper.tla; TLC checks the clauses on the mechanism model",
         text="Within each configuration (dyadic schedule of 2-6 points, dt bounds, relaxation/recomputation factors, fault budget) every "
              "reachable state of the real TimeManager under the run_time_dependent_model loop and every convergence/failure outcome is "
              "visited (breadth-first on the real object), and TLC evaluates all clauses (monotone accepted times, no overshoot, no skipped "
              "scheduled time, dt bounds, rewind on failure, raise only when exhausted, termination) on that recorded graph. Exhaustive "
              "within the bounds, so the right level for a property quantified over schedules and fault sequences.",
         note="Dyadic parameters only (double arithmetic exact, isclose = equality); states needing resolution finer than 2^-12 are pruned; "
              "graphs larger than the node budget are cut breadth-first (reported as truncated). The driver transcribes the loop of "
              "run_time_dependent_model and the compute_time_step calls of SolutionStrategy."),
    dict(id="C08", level=MC, technique="TLC model-checks the C08 clauses on the transition graph recorded from the real storage helpers "
         "(contents + memory-sharing pattern); TLC trace-validates every recorded edge against the heap model spec/sys/HistoryStore.tla",
         text="Every history of set (time-step / iterate / both, overwrite / additive), get, shift and caller-side writes into arrays it holds, "
              "up to a bounded length and for depth pairs 1..3 and unbounded, is executed on the real data-dictionary helpers and on the "
              "EquationSystem wrappers; TLC evaluates the sliding-window, latest-write, no-aliasing, additive-on-empty and read clauses on the "
              "recorded graph. Exhaustive within the bounds for a property quantified over histories.",
         note="Vectors are constant arrays (content = one integer); index gaps are not generated; the caller holds at most the two most recent "
              "arrays; aliasing is observed with np.shares_memory on objects rebuilt by re-executing each history (no deep copies)."),
    dict(id="C10", level=MC, technique="TLC generates failure-injection scripts from spec/sys/SimDriver.tla; each is run through the real "
         "run_time_dependent_model; TLC model-checks the C10 (and C09 clock) clauses on the recorded prefix tree and trace-validates every step",
         text="SimDriver.tla composes the clock (TimeStepper) with token storage at the grain of the solution-strategy callbacks. All scripts of "
              "the small configuration and simulated scripts of two larger ones (history depth 2, fractured grid) are executed on a real "
              "single-phase flow model with scripted check_convergence; TLC checks on the recorded runs that time step 0 equals the converged "
              "iterate, histories shift, the iterate is reset after a failure, the history equals the accepted solutions, and the run ends at the final time.",
         note="check_convergence is overridden by the harness (as the property anticipates); vectors compared through byte-content tokens; dyadic "
              "time-step parameters; quick tier explores scripts with at most one failed solve exhaustively on the small configuration."),
    dict(id="C05", level=MC, technique="TLC judges every state of a real EquationSystem reached by create/remove histories against "
         "spec/ref/DofLayoutRef.tla (J_DofLayout); histories trace-validated against spec/sys/DofLayout.tla; design check Impl = Ref",
         text="All histories of create_variables / remove_variables up to a bounded length over 2 names, 3-4 dof types and 6 domain choices on a "
              "real md-grid with 4 subdomains (dims 2,1,1,0) and 4 interfaces are executed; in every reached state dofs_of, identify_dof for every "
              "index, projection_to, and set/get_variable_values (plain and additive; by name, md-variable, atomic variable, shuffled subsets) "
              "are recorded and TLC compares them with the reference layout (contiguous blocks in subdomain, interface, creation order).",
         note="Quick tier observes the 60 shallowest states plus a seeded sample of 200 of the reached states; thorough observes all. "
              "Conformance uses the private block tables (_variable_numbers, _variable_num_dofs) and only yields DRIFT."),
    dict(id="C35", level=MC, technique="TLC enumerates compressed-storage inputs from spec/ref/SparseOpsEnum.tla and judges the real functions' "
         "outputs against the dense reference semantics of spec/ref/SparseOps.tla (J_SparseOps, 22 clauses)",
         text="Every utility named by the property (slicing, merging, zeroing, stacking, block construction, run-length coding, pointer/index "
              "expansion, block-diagonal indices, Kronecker expansion, optimized storage, copies) is called on all inputs of a bounded lattice of "
              "csr/csc storage structures (unsorted indices, empty lines, stored zeros; index arrays, masks, ints) plus seeded larger cases; TLC "
              "checks well-formedness of the result and equality of its dense value with the reference, and that untouched arguments keep their value.",
         note="Integer data, so all comparisons are exact. Zero-dimension inputs are informational only. Duplicate (row, col) entries are not generated."),
    dict(id="C37", level=TV, technique="TLC enumerates block structures / unimodular integer blocks / permutations (spec/ref/BlockDiagEnum.tla) and "
         "checks A * round(X) = I exactly on the real inverters' output (J_BlockDiag)",
         text="Block-size sequences (sizes 1-3 quick, 1-6 thorough) with integer unimodular blocks (exact integer inverse built alongside) are inverted by "
              "invert_diagonal_blocks (python and numba paths); row/column-permuted block-diagonal matrices go through "
              "generate_permutation_to_block_diag_matrix (ValidPerm predicate) and invert_permuted_block_diag_matrix; TLC multiplies back exactly.",
         note="Results are rounded when within 1e-9 of an integer (otherwise the case fails). A coarser but valid block decomposition is reported as DRIFT, "
              "since the property only asks that square blocks are exposed. The linear algebra kernels are black boxes (validated per input)."),
    dict(id="C38", level=MC, technique="TLC enumerates cell-type layouts / export routes / time histories (spec/sys/ExportImport.tla) and judges the "
         "real Exporter write -> import round trips cell by cell (J_ExportImport); exported block layout compared with the model (DRIFT)",
         text="All layouts of 1-2 grids with up to 3 (quick) / 5 (thorough) cells over triangle/quad/pentagon (and 3D analogues) are realised as "
              "hand-built grids in real md-grids (optionally with a 1D fracture and interface), written with Exporter.write_vtu / write_pvd and "
              "restored with import_state_from_vtu / import_from_pvd / the DataSavingMixin route; TLC checks that every subdomain and interface "
              "gets back the values written at the latest step and that time information is restored.",
         note="Two recorded known findings (polyhedron block order in 3D; mixin plain-pvd time used as index) suppress exactly their classes. "
              "Point data and export_constants_separately are not covered. Quick tier runs workers with NUMBA_DISABLE_JIT=1."),
    dict(id="C27", level=MC, technique="TLC enumerates ordered sublists of subdomains / interfaces / boundary grids and vector dimensions "
         "(spec/ref/GridProjectionsFamily.tla) and judges the real projection matrices entry by entry (J_GridProjections)",
         text="For real md-grids (2D host with crossing fractures and intersection point, 3D host with a fracture, thorough: more fractures and a "
              "non-matching mortar) every ordered sublist within the bound and nd in 1..3 is given to SubdomainProjections, MortarProjections and "
              "BoundaryProjection; TLC checks the index maps against the reference (offsets by list order, interleaved vector ordering), "
              "restriction o prolongation = identity, full list = permutation, mortar blocks at the matching offsets with zero blocks for absent grids.",
         note="Per-interface scalar projections are read from the real MortarGrid (their correctness is C26); co-dimension-2 interfaces are not generated."),
]

_NOT_BUILT = "check not built yet (planned, DESIGN.md section 10); not claimed until its commands are green on the unchanged tree"
NOT_APPLICABLE = [
    dict(property_id="C03", reason="only oracle is a finite-difference derivative of the implementation's own residual; no discrete/rational reference a TLA+ spec could state (DESIGN.md section 6)"),
    dict(property_id="C04", reason="identity about real-valued residual sums of full nonlinear models; binding would be a floating-point sum, the discrete content is covered by C21/C26/C27/C17 (DESIGN.md section 6)"),
    dict(property_id="C14", reason="metamorphic equality of floating-point matrices against the implementation itself; no reference semantics to specify (DESIGN.md section 6)"),
    dict(property_id="C32", reason="square-root valued rotation matrices; orthogonality can only be judged in floating point, no rational reference (DESIGN.md section 6)"),
    dict(property_id="C47", reason="text-file encode/decode fidelity; the abstract model is the identity function (DESIGN.md section 6)"),
]
_claimed = {c["id"] for c in CHECKS}
_na = {c["property_id"] for c in NOT_APPLICABLE}
for _i in range(1, 48):
    _p = f"C{_i:02d}"
    if _p not in _claimed and _p not in _na:
        NOT_APPLICABLE.append(dict(property_id=_p, reason=_NOT_BUILT))
