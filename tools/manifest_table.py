"""Table behind MANIFEST.json (edit here, then run tools/manifest.py)."""

HOOK_COMMITS = []

MC = "model_checking"
TV = "translation_validation"
EX = "exploration"

CHECKS = [
    dict(id="C09", level=MC, technique="TLC model-checks the C09 clauses on the transition graph recorded from the real TimeManager; "
         "TLC trace-validates every recorded edge against spec/sys/TimeStepper.tla; TLC checks the clauses on the mechanism model",
         text="Within each configuration (dyadic schedule of 2-6 points, dt bounds, relaxation/recomputation factors, fault budget) every "
              "reachable state of the real TimeManager under the run_time_dependent_model loop and every convergence/failure outcome is "
              "visited (breadth-first on the real object), and TLC evaluates all clauses (monotone accepted times, no overshoot, no skipped "
              "scheduled time, dt bounds, rewind on failure, raise only when exhausted, termination) on that recorded graph. Exhaustive "
              "within the bounds, so the right level for a property quantified over schedules and fault sequences.",
         note="Dyadic parameters only (double arithmetic exact, isclose = equality); states needing resolution finer than 2^-12 are pruned; "
              "graphs larger than the node budget are cut breadth-first (reported as truncated). The driver transcribes the loop of "
              "run_time_dependent_model and the compute_time_step calls of SolutionStrategy."),
    dict(id="C08", level=MC, technique="TLC model-checks the C08 clauses on the transition graph recorded from the real storage helpers "
         "(contents + memory-sharing pattern); TLC trace-validates every recorded edge against the heap model spec/sys/HistoryStore.tla",
         text="Every history of set (time-step / iterate / both, overwrite / additive), get, shift and caller-side writes into arrays it holds, "
              "up to a bounded length and for depth pairs 1..3 and unbounded, is executed on the real data-dictionary helpers and on the "
              "EquationSystem wrappers; TLC evaluates the sliding-window, latest-write, no-aliasing, additive-on-empty and read clauses on the "
              "recorded graph. Exhaustive within the bounds for a property quantified over histories.",
         note="Vectors are constant arrays (content = one integer); index gaps are not generated; the caller holds at most the two most recent "
              "arrays; aliasing is observed with np.shares_memory on objects rebuilt by re-executing each history (no deep copies)."),
    dict(id="C10", level=MC, technique="TLC generates failure-injection scripts from spec/sys/SimDriver.tla; each is run through the real "
         "run_time_dependent_model; TLC model-checks the C10 (and C09 clock) clauses on the recorded prefix tree and trace-validates every step",
         text="SimDriver.tla composes the clock (TimeStepper) with token storage at the grain of the solution-strategy callbacks. All scripts of "
              "the small configuration and simulated scripts of two larger ones (history depth 2, fractured grid) are executed on a real "
              "single-phase flow model with scripted check_convergence; TLC checks on the recorded runs that time step 0 equals the converged "
              "iterate, histories shift, the iterate is reset after a failure, the history equals the accepted solutions, and the run ends at the final time.",
         note="check_convergence is overridden by the harness (as the property anticipates); vectors compared through byte-content tokens; dyadic "
              "time-step parameters; quick tier explores scripts with at most one failed solve exhaustively on the small configuration."),
]

_NOT_BUILT = "check not built yet (planned, DESIGN.md section 10); not claimed until its commands are green on the unchanged tree"
NOT_APPLICABLE = [
    dict(property_id="C03", reason="only oracle is a finite-difference derivative of the implementation's own residual; no discrete/rational reference a TLA+ spec could state (DESIGN.md section 6)"),
    dict(property_id="C04", reason="identity about real-valued residual sums of full nonlinear models; binding would be a floating-point sum, the discrete content is covered by C21/C26/C27/C17 (DESIGN.md section 6)"),
    dict(property_id="C14", reason="metamorphic equality of floating-point matrices against the implementation itself; no reference semantics to specify (DESIGN.md section 6)"),
    dict(property_id="C32", reason="square-root valued rotation matrices; orthogonality can only be judged in floating point, no rational reference (DESIGN.md section 6)"),
    dict(property_id="C47", reason="text-file encode/decode fidelity; the abstract model is the identity function (DESIGN.md section 6)"),
]
_claimed = {c["id"] for c in CHECKS}
_na = {c["property_id"] for c in NOT_APPLICABLE}
for _i in range(1, 48):
    _p = f"C{_i:02d}"
    if _p not in _claimed and _p not in _na:
        NOT_APPLICABLE.append(dict(property_id=_p, reason=_NOT_BUILT))
