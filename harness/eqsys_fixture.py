"""Shared fixture for the EquationSystem properties (C05 C06 C07): a real md-grid (3x2 Cartesian host, two
crossing fractures -> two 1D subdomains, one 0D intersection, four interfaces) and its abstract shape.  The host
is 3x2 (not 2x2) on purpose: after splitting it has 22 faces and 20 nodes, so face- and node-based row / dof
counts cannot be confused unnoticed (a seeded change swapping them was invisible on the 2x2 grid, which has 16 of
each)."""
from __future__ import annotations

import numpy as np

_CACHE = {}

DOF_TYPES = [dict(cells=1, faces=0, nodes=0), dict(cells=1, faces=1, nodes=1), dict(cells=2, faces=0, nodes=0),
             dict(cells=0, faces=1, nodes=0)]


def mdg():
    import porepy as pp

    if "mdg" not in _CACHE:
        f1 = np.array([[0.0, 3.0], [1.0, 1.0]])
        f2 = np.array([[1.0, 1.0], [0.0, 2.0]])
        m = pp.meshing.cart_grid([f1, f2], np.array([3, 2]))
        m.compute_geometry()
        _CACHE["mdg"] = m
    return _CACHE["mdg"]


def grids():
    """[(kind, grid object)] in the order mdg.subdomains() then mdg.interfaces()."""
    m = mdg()
    return [("sd", g) for g in m.subdomains()] + [("intf", g) for g in m.interfaces()]


def grid_consts():
    out = []
    for kind, g in grids():
        if kind == "sd":
            out.append(dict(kind="sd", nc=int(g.num_cells), nf=int(g.num_faces), nn=int(g.num_nodes)))
        else:
            out.append(dict(kind="intf", nc=int(g.num_cells), nf=0, nn=0))
    return out


def domains():
    """Catalogue of domain choices (1-based grid indices), each all-subdomain or all-interface."""
    gs = grids()
    sd = [i + 1 for i, (k, _) in enumerate(gs) if k == "sd"]
    it = [i + 1 for i, (k, _) in enumerate(gs) if k == "intf"]
    return [sd, [sd[0]], [sd[1], sd[-1]], it, [it[1]], [it[0], it[-1]]]


def dof_info(d):
    return {k: v for k, v in DOF_TYPES[d - 1].items() if v > 0}
