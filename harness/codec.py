"""Number/structure codecs between numpy and TLC (32-bit ints, no reals)."""
from __future__ import annotations

from fractions import Fraction

import numpy as np

LIM = 2 ** 30


class Inexact(Exception):
    pass


def rat(x, maxden=10 ** 6, tol=1e-9):
    """float -> [n, d] exact-looking rational; raises Inexact if x is not within tol of a
    rational with denominator <= maxden (the caller counts that as a numeric mismatch)."""
    f = Fraction(float(x)).limit_denominator(maxden)
    if abs(float(f) - float(x)) > tol * max(1.0, abs(float(x))):
        raise Inexact(x)
    if abs(f.numerator) >= LIM or f.denominator >= LIM:
        raise Inexact(x)
    return [f.numerator, f.denominator]


def rvec(v, maxden=10 ** 6, tol=1e-9):
    return [rat(x, maxden, tol) for x in np.asarray(v, dtype=float).ravel()]


def rmat(m, maxden=10 ** 6, tol=1e-9):
    m = np.asarray(m, dtype=float)
    return [[rat(x, maxden, tol) for x in row] for row in m]


def ints(v):
    out = [int(x) for x in np.asarray(v).ravel()]
    return out


def is_int_array(a, tol=0.0):
    a = np.asarray(a, dtype=float)
    return bool(np.all(np.abs(a - np.round(a)) <= tol))


def frac(p):
    return Fraction(int(p[0]), int(p[1]))


def dense_int(m):
    """scipy sparse / ndarray with integer entries -> list of rows of ints (exact)."""
    import scipy.sparse as sps

    if sps.issparse(m):
        m = m.toarray()
    m = np.asarray(m)
    r = np.round(m).astype(np.int64)
    if not np.array_equal(r, m):
        raise Inexact("non-integer matrix entry")
    return [[int(x) for x in row] for row in np.atleast_2d(r)]
