"""Breadth-first exploration of the REAL implementation's transition system.

The real object is the next-state function: from every distinct projected state each
action offered by `actions(proj)` is applied to a clone of the real object, the result
is projected, and the recorded graph (nodes = projections, edges = action + observed
result + target) is handed to TLC, which (i) model-checks the property on it (monitor
M_*) and (ii) validates every recorded edge against the specification's actions
(trace spec T_*).  Node ids are 1-based (TLA+ tuples)."""
from __future__ import annotations

import json
from collections import deque


def explore(init_obj, *, actions, apply, project, clone, max_nodes=200000, expand=lambda p: True):
    nodes, index, edges, objs = [], {}, [], {}
    p0 = project(init_obj)
    k0 = json.dumps(p0, sort_keys=True)
    index[k0] = 1
    nodes.append(p0)
    edges.append([])
    objs[1] = init_obj
    q = deque([1])
    truncated = False
    cut = set()
    while q:
        n = q.popleft()
        obj = objs.pop(n)
        p = nodes[n - 1]
        if not expand(p):
            continue
        if len(nodes) >= max_nodes:
            # node budget exhausted: leave the remaining frontier unexpanded and say so
            truncated = True
            cut.add(n)
            continue
        for act in actions(p):
            o2 = clone(obj)
            res = apply(o2, act) or {}
            p2 = project(o2)
            k2 = json.dumps(p2, sort_keys=True)
            m = index.get(k2)
            if m is None:
                m = len(nodes) + 1
                index[k2] = m
                nodes.append(p2)
                edges.append([])
                objs[m] = o2
                q.append(m)
            e = dict(act)
            e.update(res)
            e["dst"] = m
            edges[n - 1].append(e)
    return {"nodes": nodes, "edges": edges, "truncated": truncated,
            "cut": [i + 1 in cut for i in range(len(nodes))]}


def path_to(graph, target):
    """Shortest event path from node 1 to `target` (for replay files)."""
    prev = {1: None}
    q = deque([1])
    while q:
        n = q.popleft()
        if n == target:
            break
        for e in graph["edges"][n - 1]:
            if e["dst"] not in prev:
                prev[e["dst"]] = (n, e)
                q.append(e["dst"])
    out = []
    n = target
    while prev.get(n):
        n, e = prev[n]
        out.append({k: v for k, v in e.items() if k != "dst"})
    return out[::-1]


def n_edges(graph):
    return sum(len(e) for e in graph["edges"])


def explore_paths(fresh, *, actions, apply, project, max_depth, max_nodes=200000, observe_along=True):
    """Like explore(), but without cloning: the object of a node is rebuilt by re-executing the node's
    event path on a fresh object (needed when the property is about aliasing, which a deep copy would
    hide).  `apply` returns the observed result dict; results are recorded on the edges.  With
    observe_along the projection (= all public lookups) is also taken after every re-executed event, so
    that query-mutate-query sequences are part of every explored history."""
    o0 = fresh()
    p0 = project(o0)
    index = {json.dumps(p0, sort_keys=True): 1}
    nodes, edges, paths, depth = [p0], [[]], {1: []}, {1: 0}
    q = deque([1])
    truncated = False
    cut = set()
    while q:
        n = q.popleft()
        path = paths.pop(n)
        if depth[n] >= max_depth:
            cut.add(n)
            continue
        if len(nodes) >= max_nodes:
            truncated = True
            cut.add(n)
            continue
        try:
            actions.depth = depth[n]   # lets a caller offer a reduced alphabet at the last level(s)
        except AttributeError:
            pass
        for act in actions(nodes[n - 1]):
            o = fresh()
            for e in path:
                apply(o, e)
                if observe_along:
                    # the lookups of the projection are part of the history: a cache filled by a lookup and
                    # not invalidated by the next mutation must show
                    project(o)
            res = apply(o, act) or {}
            p2 = project(o)
            k2 = json.dumps(p2, sort_keys=True)
            m = index.get(k2)
            if m is None:
                m = len(nodes) + 1
                index[k2] = m
                nodes.append(p2)
                edges.append([])
                paths[m] = path + [act]
                depth[m] = depth[n] + 1
                q.append(m)
            e = dict(act)
            e.update(res)
            e["dst"] = m
            edges[n - 1].append(e)
    return {"nodes": nodes, "edges": edges, "truncated": truncated,
            "cut": [i + 1 in cut for i in range(len(nodes))]}
