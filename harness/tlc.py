"""Thin wrapper around TLC: run a module+cfg, parse statistics, emitted JSON records,
invariant violations and coverage. Exit-code policy lives in core.py; this module only
reports what TLC said."""
from __future__ import annotations

import json
import os
import re
import shutil
import subprocess
import tempfile
import time
from dataclasses import dataclass, field
from pathlib import Path

ROOT = Path(__file__).resolve().parent.parent
SPEC = ROOT / "spec"
CP = "/opt/veriftools/tla/tla2tools.jar:/opt/veriftools/tla/CommunityModules-deps.jar"
LIBPATH = os.pathsep.join(str(SPEC / d) for d in ("lib", "sys", "ref", "trace", "cfg"))


class TLCError(RuntimeError):
    """Machinery failure (exit 2): TLC crashed, parse error, timeout, overflow."""


@dataclass
class TLCResult:
    ok: bool  # finished without error / violation
    generated: int = 0
    distinct: int = 0
    depth: int = 0
    records: list = field(default_factory=list)  # decoded PrintT(ToJson(..)) records
    violated: str | None = None  # name of violated invariant / property, "deadlock"
    errors: list = field(default_factory=list)
    coverage: dict = field(default_factory=dict)  # action name -> (distinct, total)
    raw: str = ""
    wall_s: float = 0.0
    cmd: str = ""


_STATS = re.compile(r"(\d+) states generated, (\d+) distinct states found")
_DEPTH = re.compile(r"The depth of the complete state graph search is (\d+)")
_INV = re.compile(r"Invariant (\S+) is violated")
_PROP = re.compile(r"(?:Action|Temporal) propert(?:y|ies) (\S+)? ?(?:is|were) violated")
_COV = re.compile(r"^<(\w+) line \d+, col \d+ to line \d+, col \d+ of module (\w+)>: (\d+):(\d+)")


def _decode_records(text: str) -> list:
    """PrintT(ToJson(x)) prints a JSON string literal whose content is JSON. With several
    workers lines can interleave only at line granularity (PrintT writes whole lines)."""
    out = []
    for line in text.splitlines():
        if len(line) < 3 or line[0] != '"' or line[1] not in "{[":
            continue
        try:
            out.append(json.loads(json.loads(line)))
        except Exception:
            # an interleaved/corrupted line is a machinery failure, never a verdict
            raise TLCError(f"unparsable emitted record: {line[:200]!r}")
    return out


def run(
    module: str | Path,
    cfg: str | Path | None = None,
    *,
    workers: int | str = 16,
    simulate: str | None = None,  # e.g. "num=1000"
    depth: int | None = None,
    seed: int | None = None,
    env: dict | None = None,
    timeout: float = 3600,
    coverage: bool = False,
    deadlock: bool = False,  # check deadlock?
    cont: bool = False,  # -continue
    heap: str = "8g",
    allow_violation: bool = True,
    extra_props: dict | None = None,  # JVM -D properties
) -> TLCResult:
    # a loaded machine makes TLC 3-10 times slower; a time limit that is hit reports a machinery failure, which says
    # nothing about the property, so every limit is at least an hour
    timeout = max(float(timeout), 3600.0)
    module = Path(module)
    if not module.is_absolute():
        module = SPEC / module
    if cfg is None:
        cfg = module.with_suffix(".cfg")
    cfg = Path(cfg)
    if not cfg.is_absolute():
        cfg = SPEC / cfg
    if not module.exists() or not cfg.exists():
        raise TLCError(f"missing spec or cfg: {module} {cfg}")
    work = Path(tempfile.mkdtemp(prefix="tlc_", dir=os.environ.get("VERIF_WORK")))
    # -Xss64m: deep LET/recursive-operator evaluation of the judges overflowed the default thread stack (StackOverflowError, rc=255)
    cmd = ["java", "-XX:+UseParallelGC", f"-Xmx{heap}", "-Xss64m", f"-DTLA-Library={LIBPATH}"]
    for k, v in (extra_props or {}).items():
        cmd.append(f"-D{k}={v}")
    cmd += ["-cp", CP, "tlc2.TLC", "-workers", str(workers), "-metadir", str(work / "meta"),
            "-noGenerateSpecTE", "-config", str(cfg)]
    if not deadlock:
        cmd.append("-deadlock")  # -deadlock DISABLES deadlock checking
    if simulate is not None:
        cmd += ["-simulate", simulate]
    if depth is not None:
        cmd += ["-depth", str(depth)]
    if seed is not None:
        cmd += ["-seed", str(seed)]
    if coverage:
        cmd += ["-coverage", "1"]
    if cont:
        cmd.append("-continue")
    cmd.append(str(module))
    e = dict(os.environ)
    e.pop("JAVA_TOOL_OPTIONS", None)
    if env:
        e.update({k: str(v) for k, v in env.items()})
    t0 = time.time()
    try:
        p = subprocess.run(cmd, cwd=work, env=e, capture_output=True, text=True, timeout=timeout)
    except subprocess.TimeoutExpired:
        shutil.rmtree(work, ignore_errors=True)
        raise TLCError(f"TLC timeout after {timeout}s: {module.name}")
    finally:
        pass
    wall = time.time() - t0
    out = p.stdout + "\n" + p.stderr
    shutil.rmtree(work, ignore_errors=True)
    res = TLCResult(ok=False, raw=out, wall_s=wall, cmd=" ".join(cmd))
    for m in _STATS.finditer(out):
        res.generated, res.distinct = int(m.group(1)), int(m.group(2))
    m = _DEPTH.search(out)
    if m:
        res.depth = int(m.group(1))
    if simulate is not None:
        m = re.search(r"The number of states generated: (\d+)", out)
        if m:
            res.generated = res.distinct = int(m.group(1))
    for line in out.splitlines():
        m = _COV.match(line)
        if m:
            a = m.group(1)
            d, t = int(m.group(3)), int(m.group(4))
            od, ot = res.coverage.get(a, (0, 0))
            res.coverage[a] = (max(od, d), max(ot, t))
    res.records = _decode_records(p.stdout)
    m = _INV.search(out)
    if m:
        res.violated = m.group(1)
    elif "is violated" in out or "was violated" in out:
        m2 = re.search(r"propert\w+ (\S+) (?:is|was) violated", out)
        res.violated = m2.group(1) if m2 else "property"
    elif "Deadlock reached" in out:
        res.violated = "deadlock"
    errs = [ln for ln in out.splitlines() if ln.startswith("Error:")]
    res.errors = errs
    finished = ("Model checking completed" in out) or ("Finished in" in out) or simulate is not None
    if res.violated is None:
        # any Error without a violated property is a machinery failure
        hard = [x for x in errs]
        if hard or not finished or p.returncode not in (0,):
            if simulate is not None and not hard and p.returncode == 0:
                pass
            else:
                tail = "\n".join(out.splitlines()[-40:])
                raise TLCError(f"TLC failed on {module.name} (rc={p.returncode}):\n{tail}")
        res.ok = True
    else:
        if not allow_violation:
            tail = "\n".join(out.splitlines()[-60:])
            raise TLCError(f"unexpected design-level violation {res.violated} in {module.name}:\n{tail}")
    return res


def counterexample(res: TLCResult) -> list[str]:
    """Extract the printed error-trace states (text) from a failing run."""
    blocks, cur = [], None
    for line in res.raw.splitlines():
        if line.startswith("State ") and ":" in line:
            if cur:
                blocks.append("\n".join(cur))
            cur = [line]
        elif cur is not None:
            if line.strip() == "" and cur:
                blocks.append("\n".join(cur))
                cur = None
            else:
                cur.append(line)
    if cur:
        blocks.append("\n".join(cur))
    return blocks


def tla(v) -> str:
    """Python value -> TLA+ expression (ints, bools, strings, lists -> tuples, sets, dicts -> records)."""
    if isinstance(v, bool):
        return "TRUE" if v else "FALSE"
    if isinstance(v, int):
        return str(v) if v >= 0 else f"({v})"
    if isinstance(v, str):
        return '"' + v + '"'
    if isinstance(v, (list, tuple)):
        return "<<" + ", ".join(tla(x) for x in v) + ">>"
    if isinstance(v, (set, frozenset)):
        return "{" + ", ".join(tla(x) for x in sorted(v, key=repr)) + "}"
    if isinstance(v, dict):
        if not v:
            return "<<>>"
        return "[" + ", ".join(f"{k} |-> {tla(x)}" for k, x in v.items()) + "]"
    raise TypeError(f"cannot render {type(v)} as TLA+")


class Raw(str):
    """A TLA+ expression passed through verbatim by gen()."""


def gen(workdir, name: str, extends: str, consts: dict, *, invariants=(), properties=(),
        spec: str | None = "Spec", init: str | None = None, next_: str | None = None,
        constraint: str | None = None, view: str | None = None, postcondition: str | None = None,
        extra_defs: str = "", action_constraint: str | None = None, check_deadlock=False):
    """Write MC wrapper module + cfg (constants as definitions, substituted with <-).
    Returns (module_path, cfg_path)."""
    workdir = Path(workdir)
    workdir.mkdir(parents=True, exist_ok=True)
    mod = workdir / f"{name}.tla"
    cfg = workdir / f"{name}.cfg"
    lines = [f"---- MODULE {name} ----", f"EXTENDS {extends}, TLC, Json"]
    cfgl = []
    if consts:
        cfgl.append("CONSTANTS")
    for k, v in consts.items():
        expr = v if isinstance(v, Raw) else tla(v)
        lines.append(f"MC_{k} == {expr}")
        cfgl.append(f"  {k} <- MC_{k}")
    if extra_defs:
        lines.append(extra_defs)
    lines.append("====")
    if spec:
        cfgl.append(f"SPECIFICATION {spec}")
    else:
        cfgl.append(f"INIT {init}")
        cfgl.append(f"NEXT {next_}")
    for i in invariants:
        cfgl.append(f"INVARIANT {i}")
    for p in properties:
        cfgl.append(f"PROPERTY {p}")
    if constraint:
        cfgl.append(f"CONSTRAINT {constraint}")
    if action_constraint:
        cfgl.append(f"ACTION_CONSTRAINT {action_constraint}")
    if view:
        cfgl.append(f"VIEW {view}")
    if postcondition:
        cfgl.append(f"POSTCONDITION {postcondition}")
    cfgl.append(f"CHECK_DEADLOCK {'TRUE' if check_deadlock else 'FALSE'}")
    mod.write_text("\n".join(lines) + "\n")
    cfg.write_text("\n".join(cfgl) + "\n")
    return mod, cfg
