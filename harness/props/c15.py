"""C15 Biot coupling terms are consistent.

spec/ref/MechOracle.tla      exact oracle: ExactDivU(c) = (alpha : G) |c|  (= alpha tr(G) |c| for a scalar coefficient),
                             ExactGradP(f) = -p alpha n_f, model law: the pressure force on a closed cell surface vanishes
spec/ref/MechOracleEnum.tla  TLC enumerates (grid kind x size x variant x mu x lambda x coupling tensor x pressure)
spec/trace/J_MechOracle.tla  JudgeC15: TLC compares every cell value of the displacement divergence and every face
                             value of the pressure force with the oracle

Python: builds the grids, discretises with pp.Biot (all boundary faces Dirichlet), applies
displacement_divergence * u + boundary_displacement_divergence * bc to every linear field of the family and
scalar_gradient to the constant pressure, encodes the doubles.  Conventions pinned down by reading biot.py / test_biot.py
and by probing: both matrices contain the coupling coefficient; scalar_gradient * p is the force -p alpha n_f acting on
the face (w.r.t. the stored face normal), to be added to the mechanical traction.  A tensor-valued coefficient
(pp.SecondOrderTensor) is supported by the code and documented as alpha : grad(u) and alpha grad(p); it is part of the
family.  Black-box oracle: the local systems are not modelled."""
from __future__ import annotations

from . import _mech as M

LEVEL = "exploration"
CLAUSES = ["DivUExact", "GradPExact"]
KEY = "mechanics"
MATCHERS = {}  # no defect found on the current tree: nothing to recognise as a known finding

# coupling coefficients: how they are handed to the code, and the tensor they stand for (what TLC uses)
ALPHAS = [
    dict(how="int", val=1, mat=[[1, 0, 0], [0, 1, 0], [0, 0, 1]]),
    dict(how="float", val=2.0, mat=[[2, 0, 0], [0, 2, 0], [0, 0, 2]]),
    dict(how="tensor", kw=dict(kxx=2), mat=[[2, 0, 0], [0, 2, 0], [0, 0, 2]]),
    dict(how="tensor", kw=dict(kxx=1, kyy=2, kzz=3), mat=[[1, 0, 0], [0, 2, 0], [0, 0, 3]]),
    dict(how="tensor", kw=dict(kxx=2, kyy=3, kzz=2, kxy=1, kxz=0, kyz=1), mat=[[2, 1, 0], [1, 3, 1], [0, 1, 2]]),
]
PRESSURES = [3, -2]


def alpha_object(a, nc):
    import numpy as np
    import porepy as pp

    if a["how"] != "tensor":
        return a["val"]
    return pp.SecondOrderTensor(**{k: float(v) * np.ones(nc) for k, v in a["kw"].items()})


def execute(rec):
    import numpy as np
    import porepy as pp

    g = M.build(rec["recipe"])
    a = ALPHAS[rec["alpha"] - 1]
    sub = dict(mu=rec["mu"], lam=rec["lam"], alpha=a["mat"], p=rec["p"], error="", fields=[], gq=[], gm=[])
    nd = g.dim
    flds = M.fields_for(nd, rec.get("few", False))
    try:
        bf, dirf, neu0, sgn = M.boundary_setup(g, [])
        prm = {"fourth_order_tensor": pp.FourthOrderTensor(rec["mu"] * np.ones(g.num_cells), rec["lam"] * np.ones(g.num_cells)),
               "bc": M.vector_bc(g, dirf, neu0), "inverter": rec["inverter"],
               "scalar_vector_mappings": {"a": alpha_object(a, g.num_cells)}}
        if rec.get("partition"):
            prm["partition_arguments"] = dict(rec["partition"])
        data = pp.initialize_data({}, KEY, prm)
        pp.Biot(KEY).discretize(g, data)
        mats = data[pp.DISCRETIZATION_MATRICES][KEY]
        gp = mats["scalar_gradient"]["a"] @ (float(rec["p"]) * np.ones(g.num_cells))
        sub["gq"], sub["gm"] = M.qtable(gp, nd), M.mtable(gp, nd)
        for fld in flds:
            uc, bc = M.linear_data(g, rec["mu"], rec["lam"], fld, dirf, neu0, sgn)
            divu = mats["displacement_divergence"]["a"] @ uc + mats["boundary_displacement_divergence"]["a"] @ bc
            sub["fields"].append(dict(G=fld["G"], u0=fld["u0"], ucq=M.qtable(uc, nd), bcq=M.qtable(bc, nd),
                                      dq=[M.encq(x) for x in divu], dm=[M.encm(x) for x in divu]))
    except Exception as e:  # an exception of the code under test on an in-family input is an observation
        sub["error"] = f"{type(e).__name__}: {e}"[:200]
        sub["fields"] = [dict(G=f["G"], u0=f["u0"]) for f in flds]
    return sub, M.G.export(g)


def class_key(rec, g):
    r = rec["recipe"]
    return (r["base"]["kind"], g["dim"], len(g["cf"]), tuple(o["op"] for o in r.get("ops", [])),
            rec["mu"], rec["lam"], rec["alpha"], rec["p"], rec["inverter"], bool(rec.get("partition")))


def judge(ctx, recs, prefix=""):
    done = [execute(r) for r in recs]
    subs, exports = [d[0] for d in done], [d[1] for d in done]

    def viol(i, clause):
        r = recs[i]
        ctx.violation(clause, dict(r, error=subs[i]["error"]),
                      f"{prefix}{r['recipe']['base']['kind']} n={[len(a) - 1 for a in r['recipe']['base']['axes']]} "
                      f"ops={[o['op'] for o in r['recipe'].get('ops', [])]} mu={r['mu']} lam={r['lam']} "
                      f"alpha={ALPHAS[r['alpha'] - 1]['mat']} ({ALPHAS[r['alpha'] - 1]['how']}) p={r['p']} "
                      f"inverter={r['inverter']} partition={r.get('partition')} {subs[i]['error']}")

    outside, incon = M.judge(ctx, recs, subs, exports, "JudgeC15", viol)
    for i, (r, s, g) in enumerate(zip(recs, subs, exports)):
        if i in outside:
            ctx.extra["outside_family"] = ctx.extra.get("outside_family", 0) + 1
            continue
        ctx.case(key=class_key(r, g), nontrivial=len(g["cf"]) > 1, n=len(s["fields"]) + 1)
    return subs, outside


def plan(ctx):
    rng = ctx.rng
    q = ctx.quick
    if q:
        sizes = [(1, 1), (2, 1), (2, 2), (3, 2), (1, 1, 1), (2, 1, 1)]
    else:
        sizes = [(a, b) for a in (1, 2, 3) for b in (1, 2, 3)] + [(a, b, c) for a in (1, 2) for b in (1, 2) for c in (1, 2)]
    coefs = [dict(alpha=i + 1, p=p) for i in range(len(ALPHAS)) for p in PRESSURES]
    fam = M.Family(ctx, sizes, [1, 2], [0, 1, 3], bcmodes=("dir",), with_sets=False, coefs=coefs,
                   alphacat=[a["mat"] for a in ALPHAS])
    ctx.extra["configurations_enumerated"] = len(fam.configs)
    gi = {k: i for i, k in enumerate(fam.keys)}
    recs = []
    lame = [(m, l) for m in (1, 2) for l in (0, 1, 3)]
    for c in fam.configs:
        k = M.grid_key(c)
        li = lame.index((c["mu"], c["lam"]))
        ai, pi = c["coef"]["alpha"] - 1, PRESSURES.index(c["coef"]["p"])
        # per grid: quick three, thorough six (Lame pair, coupling tensor, pressure) combinations, rotating through all
        if not any((gi[k] + j) % 6 == li and (gi[k] + 2 * j) % len(ALPHAS) == ai and (gi[k] + j) % 2 == pi
                   for j in range(3 if q else 6)):
            continue
        recs.append(dict(recipe=fam.recipes[k], mu=c["mu"], lam=c["lam"], alpha=c["coef"]["alpha"], p=c["coef"]["p"],
                         inverter="python", partition=None, few=q))
    if q:
        # the split path on two 2D grids large enough for the sub-problems to differ from the whole grid
        for kind, n, variant, part in (("cart", (5, 3), "plain", {"num_subproblems": 3}),
                                       ("simplex", (4, 4), "perturbed", {"num_subproblems": 2})):
            rcp = M.recipe_for(kind, list(n), variant, rng)
            recs.append(dict(recipe=rcp, mu=2, lam=1, alpha=5, p=3, inverter="python", partition=part, few=False))
    if not q:
        extra = []
        for i, r in enumerate(recs):
            if i % 6 == 0:
                extra.append(dict(r, inverter="numba"))
            if i % 6 == 3:
                extra.append(dict(r, partition={"num_subproblems": 2 + i % 2}))
        # larger grids, on which the sub-problems of the split path really differ from the whole grid
        for n, variant in [((5, 3), "plain"), ((4, 4), "perturbed"), ((3, 2, 2), "plain"), ((3, 2, 2), "perturbed")]:
            for kind in ("cart", "simplex"):
                if kind == "simplex" and len(n) == 3:
                    n = (2, 2, 2)
                rcp = M.recipe_for(kind, list(n), variant, rng)
                for j, part in enumerate(({"num_subproblems": 3}, {"max_memory": 3000 if len(n) == 2 else 30000})):
                    extra.append(dict(recipe=rcp, mu=2, lam=1, alpha=5, p=3, inverter="python", partition=part, few=False))
                    extra.append(dict(recipe=rcp, mu=1, lam=3, alpha=2 + j, p=-2, inverter="numba", partition=part, few=False))
        recs += extra
    return recs


def run(ctx):
    ctx.rule = ("TLC enumerates (Cartesian | structured simplex grid) x (cells per direction <= 3 in 2D, <= 2 in 3D) x (plain | "
                "lattice-perturbed / sheared with planar faces) x mu in {1,2} x lambda in {0,1,3} x (coupling coefficient: scalar "
                "1, 2, tensor 2I, diag(1,2,3), full symmetric) x (pressure 3, -2); all boundary faces Dirichlet.  Each selected "
                "configuration is discretised with pp.Biot; the divergence matrices are applied to every linear field of the "
                "family, the scalar-gradient matrix to the constant pressure.  One evaluation = one (configuration, field) or "
                "(configuration, pressure); classes = (kind, dim, #cells, operations, mu, lambda, alpha, p, inverter, split); "
                "non-trivial = several cells")
    ctx.assumptions = ["integer node coordinates |x| <= 12, planar faces, valid cells (ValidE decided by TLC on the exported grid)",
                       "Dirichlet mechanical boundary data on every boundary face (the property's family)",
                       "tensor-valued coupling coefficients follow the code's documentation: alpha : grad(u) and alpha grad(p)",
                       "quick: inverter='python', one sub-problem, plus two 2D grids through the split path; thorough adds inverter='numba' and more of the split path",
                       "doubles: agreement within 1e-9 with the exact rational, violation beyond 1e-6 max(1,|ref|), in between "
                       "inconclusive (DESIGN section 8)",
                       "black-box oracle: the local-system mechanism is not modelled"]
    recs = plan(ctx)
    ctx.extra["discretisations"] = len(recs)
    subs, outside = judge(ctx, recs)
    for r, c in list(zip(recs, subs))[:: max(1, len(recs) // 5)]:
        f = c["fields"][-1]
        ctx.sample(dict(recipe=r["recipe"]["base"], ops=[o["op"] for o in r["recipe"].get("ops", [])], mu=r["mu"], lam=r["lam"],
                        alpha=c["alpha"], p=r["p"], G=f["G"], divu_cell1=(f.get("dq") or [None])[0], gradp_face1=(c["gq"] or [None])[0]))
    ctx.exhaustive = False  # (Lame pair, coefficient, pressure) combinations per grid are sampled in the quick tier


def replay(ctx, body):
    rec = body["record"]
    r = {k: rec[k] for k in ("recipe", "mu", "lam", "alpha", "p", "inverter")}
    r["partition"] = rec.get("partition")
    r["few"] = rec.get("few", False)
    judge(ctx, [r], prefix="replayed: ")
    ctx.sample(dict(recipe=r["recipe"]["base"], alpha=r["alpha"], p=r["p"]))
