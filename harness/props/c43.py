"""C43 Unit conversion is consistent (unit algebra only - the sentence about a scaled flow simulation is not covered).

spec/ref/Units.tla (exponent-vector semantics of Units.convert_units and of the derived units),
spec/ref/UnitsEnum.tla (TLC enumerates unit systems x unit strings x values, renders the strings, checks the laws
on the model), spec/trace/J_Units.tla (TLC judges what the real code returned).

Real code: pp.Units(...).convert_units(value, units, to_si) on Python floats and float ndarrays, the properties
Pa/J/N/W/degree, and Constants.to_units / constants_in_SI of the material classes of
porepy.compositional.materials.  Every scaling is 2^a 5^b (times (180/pi)^c through 'degree'); Python only turns
the code's doubles into exponent vectors (m, a, b, c) - all arithmetic on them is done by TLC."""
from __future__ import annotations

import math
from fractions import Fraction
from functools import lru_cache

import numpy as np

from .. import tlc

LEVEL = "translation_validation"
CLAUSES = ["SimValue", "RoundTrip", "Compose", "Dimensionless", "DerivedAttr", "DerivedConv", "MatConverted", "MatBack"]
G = 180.0 / math.pi
RTOL = 1e-12
B5 = np.arange(-110, 111)
P5 = np.array([float(Fraction(5) ** int(b)) for b in B5])
ATTRS = ["m", "s", "kg", "K", "mol", "rad", "Pa", "J", "N", "W", "degree"]
MATERIALS = ["FluidComponent", "SolidConstants", "FractureDamageSolidConstants", "NumericalConstants",
             "ReferenceVariableValues"]
SLAB = 12000
INVALID = [0, 0, 0, 0]
CS = (0, 1, -1, 2, -2, 3, -3, 4, -4, 5, -5, 6, -6)


# ---- numbers ---------------------------------------------------------------------------------------------
def to_float(v):
    """value record {m, e: [a, b, c]} of the spec -> double (correctly rounded for c = 0)"""
    a, b, c = v["e"]
    x = float(Fraction(v["m"]) * Fraction(2) ** a * Fraction(5) ** b)
    return x * G ** c if c else x


@lru_cache(maxsize=None)
def extract(x):
    """double -> [m, a, b, c] with x = m 2^a 5^b G^c within RTOL (m odd, not divisible by 5, |m| < 64), else INVALID.
    Only an extraction of exponents: the comparison with the expected exponents is done by TLC."""
    if not math.isfinite(x) or x == 0.0:
        return INVALID
    sign = -1 if x < 0 else 1
    ax = abs(x)
    for c in CS:
        f, e = np.frexp(ax / (P5 * G ** c))
        cand = f * 64.0  # in [32, 64]
        mm = np.round(cand)
        idx = np.flatnonzero(np.abs(cand - mm) <= RTOL * cand)
        best = None
        for i in idx:
            m, a2 = int(mm[i]), int(e[i]) - 6
            while m % 2 == 0:
                m //= 2
                a2 += 1
            if m % 5 != 0 and (best is None or abs(int(B5[i])) < abs(best[2])):
                best = [sign * m, a2, int(B5[i]), c]
        if best is not None:
            return best
    return INVALID


def ext(x):
    if isinstance(x, np.ndarray):
        if x.shape != (2,) or x.dtype != np.float64 or x[0] != x[1]:
            return INVALID
        x = x[0]
    if isinstance(x, (int, np.integer)):
        x = float(x)
    if not isinstance(x, (float, np.floating)):
        return INVALID
    return list(extract(float(x)))


def units_of(U):
    import porepy as pp

    return pp.Units(**{k: to_float(dict(m=1, e=U[k])) for k in ("m", "kg", "K", "mol", "rad")})


def conv(u, x, s, to_si=False):
    """one call of the real convert_units; an exception becomes an invalid number"""
    if x is None:
        return None
    try:
        return u.convert_units(x, s, to_si=to_si)
    except Exception:  # noqa: BLE001
        return None


def both(v):
    x = to_float(v)
    return {"s": x, "a": np.array([x, x])}


# ---- the real code ---------------------------------------------------------------------------------------
def run_conv(inp):
    u = units_of(inp["U"])
    out = {}
    for p, x in both(inp["v"]).items():
        rows = []
        memo = {}
        for (t1, t2), (s1, s2, s12) in zip(inp["items"], inp["texts"]):
            if s1 not in memo:
                x1 = conv(u, x, s1)
                memo[s1] = (x1, conv(u, x1, s1, True))
            x1, b1 = memo[s1]
            j = conv(u, x, s12)
            rows.append([ext(x1), ext(b1), ext(j), ext(conv(u, j, s12, True)), ext(conv(u, x1, s2))])
        out[p] = rows
    return out


def run_dim(inp):
    u = units_of(inp["U"])
    return {p: [ext(conv(u, x, s)) for s in inp["texts"]] for p, x in both(inp["v"]).items()}


def run_der(inp):
    u = units_of(inp["U"])
    out = {"attr": [ext(getattr(u, nm)) for nm in inp["names"]]}
    for p, x in both(inp["v"]).items():
        out[p] = [[ext(conv(u, x, d)), ext(conv(u, x, sb))] for d, sb in zip(inp["items"], inp["sbase"])]
    return out


def run_mat(inp):
    import porepy as pp
    from porepy.compositional import materials

    cls = getattr(materials, inp["cls"])
    names = [f[0] for f in inp["fields"]]
    vals = {nm: to_float(v) for nm, v in zip(names, inp["vals"])}
    u1, u2 = units_of(inp["U"]), units_of(inp["U2"])
    n = len(names)
    try:
        c1 = cls(name="x", units=u1, **vals)
        c2 = c1.to_units(u2)
        c3 = c2.to_units(pp.Units())
    except Exception:  # noqa: BLE001
        return dict(c1=[INVALID] * n, c2=[INVALID] * n, back=[INVALID] * n, si=[INVALID] * n, c3=[INVALID] * n)
    si_units = cls.SI_units
    return dict(c1=[ext(getattr(c1, k)) for k in names], c2=[ext(getattr(c2, k)) for k in names],
                back=[ext(conv(u2, getattr(c2, k), si_units[k], True)) for k in names],
                si=[ext(c2.constants_in_SI.get(k)) for k in names], c3=[ext(getattr(c3, k)) for k in names])


RUN = dict(conv=run_conv, dim=run_dim, der=run_der, mat=run_mat)


# ---- material classes: the declared SI units are read from the code and tokenised for the model ------------
def tokenise(s):
    """'kg * m^-3' -> [['kg', 1, False], ['m', -3, True]]; dimensionless spellings -> [] (input conversion only:
    TLC checks every token against the grammar of Units.tla, TokOK)"""
    s = s.replace(" ", "")
    if s in ("", "1", "-"):
        return []
    toks = []
    for part in s.split("*"):
        if "^" in part:
            nm, e = part.split("^")
            toks.append([nm, int(e), True])
        else:
            toks.append([part, 1, False])
    return toks


def material_classes():
    from porepy.compositional import materials

    out = []
    for nm in MATERIALS:
        cls = getattr(materials, nm)
        out.append(dict(name=nm, fields=[[k, tokenise(cls.SI_units[k])] for k in sorted(cls.SI_units)]))
    return out


# ---- TLC enumeration -------------------------------------------------------------------------------------
def ev(a, b, c=0):
    return (a, b, c)


def enumerate_part(ctx, part, q, classes):
    ten = lambda k: ev(k, k)  # noqa: E731
    one = ev(0, 0)
    if q:
        SM = {one, ten(3)}
        SKG = {ten(-3), ev(0, 1)}
        STh = {(one, one, one), (ten(1), ten(-3), ev(1, 0))}
        exps = {0, -1, 2}
    else:
        SM = {one, ten(3), ten(-2), ev(-1, 0)}
        SKG = {one, ten(-3), ten(6), ev(0, 1)}
        STh = {(one, one, one), (ten(1), ten(-3), ev(1, 0)), (ev(-2, 0), ten(2), ten(-1))}
        exps = {0, -3, -1, 1, 2}
    if part in ("dim", "der", "long"):
        pass
    if part == "mat" and q:
        SM, SKG = {one, ten(3)}, {one, ev(0, 1)}
    if part == "der" and q:
        SM, SKG = {one, ten(3), ev(-1, 0)}, {one, ten(-3), ev(0, 1)}
    if part == "mat" and not q:
        SM, SKG, STh = {one, ten(3), ev(-1, 0)}, {one, ten(-3), ev(0, 1)}, set(list(STh)[:2]) | {(one, one, one)}
    vals = [dict(m=3, e=[2, -1, 0]), dict(m=-7, e=[-3, 4, 0])] + ([] if q else [dict(m=1, e=[0, 0, 0])])
    names = {"m", "s", "kg", "K", "mol", "rad", "Pa", "J", "N", "W", "degree"}
    ltoks = {("m", -1, True), ("Pa", 1, False), ("degree", 2, True), ("K", 1, True), ("W", -1, True)}
    consts = dict(Part=part, SM=SM, SKG=SKG, STh=STh, Names=names, Exps=exps, LToks=ltoks, LongLen=3,
                  Vals=tlc.Raw("{" + ", ".join(tlc.tla(v) for v in vals) + "}"),
                  Classes=classes if part == "mat" else [])
    m, cf = tlc.gen(ctx.work / f"enum_{part}", "MC_UnitsEnum", "UnitsEnum", consts, invariants=["Emit", "Laws"])
    return ctx.tlc(m, cf, allow_violation=False).records


def build_cases(ctx):
    classes = material_classes()
    fields = {c["name"]: c["fields"] for c in classes}
    inputs = []
    for part in ("conv", "long", "dim", "der", "mat"):
        for r in enumerate_part(ctx, part, ctx.quick, classes):
            if r["t"] == "conv":
                items = sorted(r["items"], key=lambda it: (it["s12"], it["s2"]))
                for v in r["vals"]:
                    inputs.append(dict(t="conv", U=r["U"], v=v,
                                       items=[[it.get("t1", r["t1"]), it["t2"]] for it in items],
                                       texts=[[it.get("s1", r["s1"]), it["s2"], it["s12"]] for it in items]))
            elif r["t"] == "dim":
                for v in r["vals"]:
                    inputs.append(dict(t="dim", U=r["U"], v=v, texts=sorted(r["texts"])))
            elif r["t"] == "der":
                items = sorted(r["items"], key=lambda it: it["d"])
                for v in r["vals"]:
                    inputs.append(dict(t="der", U=r["U"], v=v, names=ATTRS, items=[it["d"] for it in items],
                                       sbase=[it["sbase"] for it in items]))
            else:
                inputs.append(dict(t="mat", U=r["U"], U2=r["U2"], cls=r["cls"], fields=fields[r["cls"]], vals=r["vals"]))
    return inputs


def sysname(U):
    return tuple(tuple(U[k]) for k in ("m", "kg", "K", "mol", "rad"))


def count(ctx, inp):
    if inp["t"] == "conv":
        for (t1, t2) in inp["items"]:
            names = tuple(sorted({t[0] for t in t1 + t2}))
            ctx.case(key=("conv", names), n=2)
    elif inp["t"] == "dim":
        ctx.case(key=("dim",), nontrivial=False, n=2 * len(inp["texts"]))
    elif inp["t"] == "der":
        ctx.case(key=("der", sysname(inp["U"])), nontrivial=sysname(inp["U"])[0] != (0, 0, 0), n=2 * len(inp["items"]))
    else:
        ctx.case(key=("mat", inp["cls"], sysname(inp["U"]) == sysname(inp["U2"])), n=len(inp["fields"]))


def weight(inp):
    return len(inp["items"]) if inp["t"] == "conv" else 4


def judge(ctx, cases):
    slim = [{"in": {k: v for k, v in c["in"].items() if k not in ("texts", "sbase") or c["in"]["t"] == "dim"}, "out": c["out"]}
            for c in cases]
    for v in ctx.judge("J_Units", slim, CLAUSES):
        c = cases[v["case"] - 1]
        inp = c["in"]
        bad = v["bad"]
        b0 = bad[0]
        if inp["t"] == "conv":
            what = f"texts={inp['texts'][b0[1] - 1]} path={b0[0]} got={c['out'][b0[0]][b0[1] - 1]}"
        elif inp["t"] == "mat":
            what = f"class={inp['cls']} field={inp['fields'][b0 - 1]} got c1={c['out']['c1'][b0 - 1]} c2={c['out']['c2'][b0 - 1]} back={c['out']['back'][b0 - 1]}"
        else:
            what = f"first bad={b0}"
        ctx.violation(v["clause"], dict(inp=inp, bad=bad, out=c["out"]),
                      f"{inp['t']} U={inp['U']} v={inp.get('v')} {len(bad)} bad; {what}")


def run(ctx):
    ctx.rule = ("TLC enumerates unit systems (m, kg from {1, 1e3, 1/2, ...}, (K, mol, rad) triples; s = 1) x every token "
                "name[^e] over the 11 unit names x every second token (strings t1, t2, 't1 * t2'), 3-token strings with every "
                "split, the dimensionless spellings, the derived units against their base expressions, and for every material "
                "class all pairs of unit systems; each conversion runs on a float and on a float ndarray; evaluations = "
                "(string pair, path) resp. material fields; a case class = the set of unit names in the strings")
    ctx.assumptions = ["scalings are numbers 2^a 5^b (180/pi)^c; a double is mapped to its exponent vector if it matches within "
                       "1e-12 relative, otherwise it is 'invalid' and fails every clause that mentions it",
                       "the sentence of C43 about scaled flow simulations is not covered",
                       "time scaling is 1 (Units rejects anything else); integer ndarrays are not converted (the code raises)"]
    inputs = build_cases(ctx)
    seen = set()
    slab, w = [], 0

    def flush():
        nonlocal slab, w
        if slab:
            judge(ctx, slab)
        slab, w = [], 0

    for inp in inputs:
        out = RUN[inp["t"]](inp)
        count(ctx, inp)
        if inp["t"] not in seen:
            seen.add(inp["t"])
            small = {k: (v[:3] if isinstance(v, list) else v) for k, v in inp.items()}
            ctx.sample({"in": small, "out": {k: v[:3] for k, v in out.items()}})
        slab.append({"in": inp, "out": out})
        w += weight(inp)
        if w >= SLAB:
            flush()
    flush()
    ctx.extra["cases"] = len(inputs)
    ctx.exhaustive = True


def replay(ctx, body):
    inp = body["record"]["inp"]
    out = RUN[inp["t"]](inp)
    ctx.case(key="replay")
    ctx.sample({"in": {k: (v[:3] if isinstance(v, list) else v) for k, v in inp.items()}})
    judge(ctx, [{"in": inp, "out": out}])
