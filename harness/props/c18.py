"""C18 Mixed finite elements (RT0, MVEM) reproduce linear pressures exactly.

spec/ref/FvOracle.tla      exact oracle: ExactFlux(f) = -(n_f . K g), ExactCellPressure(c) = p(x_c), Dirichlet data p(x_f)
spec/ref/FvOracleEnum.tla  TLC enumerates simplex grid recipe (1D lines, structured triangles, Kuhn tetrahedra; unit /
                           non-uniform spacing / lattice perturbation / integer shear) x constant SPD tensor; for dim < 3
                           a rational rigid motion embeds the grid in 3D (the record carries the rotated tensor)
spec/trace/J_FvOracle.tla  pass 1 (TellInputs): family membership + exact Dirichlet data; pass 2 (MixedAll): TLC compares
                           extract_flux / extract_pressure of the solved system with the oracle and judges the mass matrix

Python: builds (and moves) the grid, discretises with pp.RT0 / pp.MVEM, assembles with assemble_matrix_rhs, solves with
scipy's sparse LU, converts the doubles.  'Positive definite' is the float predicate 'numpy Cholesky succeeds'.
Black-box oracle: the local mass-matrix mechanism is not modelled."""
from __future__ import annotations

from . import _fv

LEVEL = "exploration"
INVARIANT = "MixedAll"
CLAUSES = ["Discretises", "FluxExact", "ConstantGivesZero", "CellPressureExact", "MassSymmetric", "MassPositiveDefinite"]
SCHEMES = ("rt0", "mvem")


def tier(ctx):
    if ctx.quick:
        return dict(sizes=[(1,), (3,), (1, 1), (2, 1), (2, 2), (3, 2), (1, 1, 1), (2, 1, 1)],
                    mods=["none", "tensor", "pert", "shear"], nvar=2, nk=2, nmask=0, exhnb=0)
    return dict(sizes=[(1,), (2,), (3,), (1, 1), (2, 1), (2, 2), (3, 1), (3, 2), (3, 3), (1, 1, 1), (2, 1, 1), (2, 2, 1),
                       (2, 2, 2), (3, 2, 2)],
                mods=["none", "tensor", "pert", "shear"], nvar=4, nk=4, nmask=0, exhnb=0, nti=3)


def execute(ctx, cfgs, tag):
    """cfgs carry the scheme ('rt0' | 'mvem') under the key 'scheme'"""
    setups = [_fv.Setup(c) for c in cfgs]
    groups = _fv.group(setups)
    inputs = _fv.exact_inputs(ctx, groups, f"{tag}_in")
    kept = [(g, inp) for g, inp in zip(groups, inputs) if inp is not None]
    ctx.extra["outside_family"] = ctx.extra.get("outside_family", 0) + sum(
        len(g.members) for g, inp in zip(groups, inputs) if inp is None)
    schemes = {i: c["scheme"] for i, c in enumerate(cfgs)}
    subs = [[_fv.run_mixed(s, inp[k], schemes[i]) for k, (s, i) in enumerate(zip(g.setups, g.members))] for g, inp in kept]
    _fv.judge(ctx, INVARIANT, [g for g, _ in kept], subs, cfgs, schemes, f"{tag}_out")
    for g, _ in kept:
        for s, i in zip(g.setups, g.members):
            ctx.case(key=_fv.key_of(s, schemes[i]), nontrivial=s.g.num_cells > 1)
    return [g for g, _ in kept], subs


def run(ctx):
    ctx.rule = ("TLC enumerates (simplex grid recipe: 1D line grids, structured triangles, Kuhn tetrahedra, sizes <= 3 per "
                "direction, unit / non-uniform spacing / lattice perturbation / integer shear; dim < 3: embedded in 3D by a "
                "seeded rational rigid motion) x (constant integer SPD tensor); every configuration is discretised with RT0 "
                "and with MVEM (one RT0 and one MVEM object serve all grids in turn), all-Dirichlet data of a constant and "
                "2-4 linear fields.  One evaluation = one "
                "(configuration, scheme) whose fluxes, cell pressures and mass matrix TLC judged; classes = (scheme, dim, "
                "kind, modification, size, tensor class, embedded); non-trivial = several cells")
    ctx.assumptions = ["integer node coordinates of the pre-image, valid simplices (decided by TLC on the exported topology)",
                       "embedded grids: nodes M x / n + t with M / n a rational rotation; tensor M K M^T / n^2 (emitted by "
                       "the spec); the oracle is evaluated on the pre-image (fluxes and pressures are invariant; TLC checks "
                       "M^T M = n^2 I, det M = n^3 and the invariance of n . K g on the catalogue)",
                       "the saddle-point system is solved with scipy.sparse.linalg.spsolve",
                       "positive definiteness = numpy.linalg.cholesky of the dense mass matrix succeeds (float predicate, "
                       "relayed to TLC as a boolean); symmetry = equality of the rationalised entries or "
                       "max|M - M^T| <= 1e-12 max|M| (relayed as an integer)",
                       "doubles are compared through their closest rational with denominator <= 1e5: agreement within 1e-9, "
                       "violation beyond 1e-6 (relative to max(1,|x|)), in between inconclusive",
                       "black-box oracle: the local mass matrices are not modelled"]
    base = _fv.enumerate_configs(ctx, "C18", **tier(ctx))
    ctx.extra["configurations"] = len(base)
    cfgs = [dict(c, scheme=s) for c in base for s in SCHEMES]
    B = 1500
    for k in range(0, len(cfgs), B):
        groups, subs = execute(ctx, cfgs[k:k + B], f"b{k // B}")
        for j in range(0, len(groups), max(1, len(groups) // 3)):
            s = groups[j].setups[-1]
            ctx.sample(dict(config=_fv.describe(s.cfg, s.cfg["scheme"]), cells=s.g.num_cells, faces=s.g.num_faces,
                            pressure_last_field=subs[j][-1]["out"].get("p", [[]])[-1][:4]))
    ctx.exhaustive = True  # every emitted configuration was executed and judged


def replay(ctx, body):
    rec = body["record"]
    cfg = dict(rec["cfg"], scheme=rec.get("scheme") or rec["cfg"].get("scheme", "rt0"))
    # the configuration that the shared discretisation object served before the recorded one is executed first
    prev = [dict(rec["prev"], scheme=cfg["scheme"])] if rec.get("prev") else []
    execute(ctx, prev + [cfg], "replay")
    ctx.sample(dict(config=_fv.describe(cfg, cfg["scheme"])))
