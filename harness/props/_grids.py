"""Shared grid-family helpers for C19 / C20 / C23 (drive porepy, build inputs, convert numbers).

Nothing here decides a property: the functions build porepy grids with INTEGER node coordinates
(Cartesian / tensor / simplex / hand-built polygonal and polyhedral grids, lattice perturbations), export
their topology for TLC (1-based indices) and convert computed geometry to exact rationals."""
from __future__ import annotations

from fractions import Fraction

import numpy as np
import scipy.sparse as sps

MAXDEN = 10 ** 6


# ---------------------------------------------------------------------------------------------------
# number conversion
def rat(x):
    """double -> [n, d] in lowest terms (closest rational with denominator <= 1e6).  For the lattice
    families every exact value has a denominator far below 1e4, so a correct double (error ~1e-15) is
    mapped to the exact value; a wrong double is mapped to some other rational and TLC sees the
    difference (comparisons in the judge modules are structural, no cross multiplication)."""
    x = float(x)
    if not abs(x) < 2 ** 29:  # also catches nan / inf: a value no exact geometry of the families can have
        return [2 ** 29, 1]
    f = Fraction(x).limit_denominator(max(1, min(MAXDEN, int(2 ** 29 / max(1.0, abs(x))))))
    return [f.numerator, f.denominator]


def rvec(v):
    return [rat(x) for x in np.asarray(v, dtype=float).ravel()]


def rcols(m):
    """3 x N array -> list of N rational 3-vectors"""
    m = np.asarray(m, dtype=float)
    return [rvec(m[:, j]) for j in range(m.shape[1])]


def int_nodes(g, scale=1):
    """node coordinates as integers in units of 1/scale (raises if they are not on that lattice)"""
    x = np.asarray(g.nodes, dtype=float) * scale
    r = np.round(x)
    if not np.all(np.abs(x - r) < 1e-9):
        raise ValueError("node coordinates are not on the 1/%d lattice" % scale)
    return [[int(v) for v in r[:, j]] for j in range(r.shape[1])]


def topology(g):
    """face -> ordered nodes, cell -> [(face, sign)], 1-based, exactly as stored in the grid"""
    fn_ = g.face_nodes
    fn = [[int(n) + 1 for n in fn_.indices[fn_.indptr[f]:fn_.indptr[f + 1]]] for f in range(g.num_faces)]
    cf_ = g.cell_faces
    cf = [[[int(cf_.indices[k]) + 1, int(cf_.data[k])] for k in range(cf_.indptr[c], cf_.indptr[c + 1])]
          for c in range(g.num_cells)]
    return fn, cf


def export(g, scale=1):
    fn, cf = topology(g)
    return dict(dim=int(g.dim), nodes=int_nodes(g, scale), fn=fn, cf=cf)


def geometry(g):
    """computed geometry as rationals; face areas are carried squared"""
    return dict(vol=rvec(g.cell_volumes), cc=rcols(g.cell_centers), fc=rcols(g.face_centers),
                fn=rcols(g.face_normals), fa2=rvec(np.asarray(g.face_areas, dtype=float) ** 2))


def geometry_floats(g):
    return dict(vol=np.asarray(g.cell_volumes).tolist(), cc=np.asarray(g.cell_centers).T.tolist(),
                fc=np.asarray(g.face_centers).T.tolist(), fn=np.asarray(g.face_normals).T.tolist(),
                fa=np.asarray(g.face_areas).tolist())


# ---------------------------------------------------------------------------------------------------
# hand-built grids
def line_grid(points, order=None, flip_signs=False):
    """1D grid through the given collinear points (3-vectors, listed along the line).  `order` is a
    permutation giving the node numbering (non-monotone numbering).  Faces = nodes."""
    import porepy as pp

    pts = np.asarray(points, dtype=float).T  # 3 x n, along the line
    n = pts.shape[1]
    order = list(range(n)) if order is None else list(order)
    # position k along the line gets node number order[k]
    nodes = np.zeros((3, n))
    for k in range(n):
        nodes[:, order[k]] = pts[:, k]
    face_nodes = sps.identity(n, format="csc", dtype=int)
    ind, data = [], []
    for c in range(n - 1):
        a, b = order[c], order[c + 1]
        ind += [a, b]
        data += ([1, -1] if flip_signs and c % 2 else [-1, 1])
    # a node shared by two cells must carry opposite signs: fix up
    seen = {}
    for k, f in enumerate(ind):
        if f in seen:
            data[k] = -data[seen[f]]
        else:
            seen[f] = k
    cell_faces = sps.csc_matrix((np.array(data), np.array(ind), np.arange(0, 2 * (n - 1) + 1, 2)), shape=(n, n - 1))
    return pp.Grid(1, nodes, face_nodes, cell_faces, "line")


def poly_grid(nodes2d, loops, flip_faces=(), z=0.0, reverse_signs=()):
    """2D grid from cells given as node loops (0-based node indices).  Every edge becomes a face
    whose node order is the one in which the first cell containing it traverses it (sign +1 there,
    -1 in the neighbour) - the orientation convention compute_geometry calls 'oriented'.
    flip_faces: indices of faces whose two nodes are swapped afterwards (inconsistent orientation,
    the fallback branch); reverse_signs: faces whose cell_faces signs are negated."""
    import porepy as pp

    pts = np.asarray(nodes2d, dtype=float)
    nodes = np.vstack((pts[:, 0], pts[:, 1], z * np.ones(len(pts))))
    faces, key2face, rows, cols, data = [], {}, [], [], []
    for c, loop in enumerate(loops):
        for i in range(len(loop)):
            a, b = loop[i], loop[(i + 1) % len(loop)]
            k = (min(a, b), max(a, b))
            if k not in key2face:
                key2face[k] = len(faces)
                faces.append([a, b])
                s = 1
            else:
                s = -1
            rows.append(key2face[k])
            cols.append(c)
            data.append(s)
    for f in flip_faces:
        faces[f] = faces[f][::-1]
    data = [(-s if rows[k] in reverse_signs else s) for k, s in enumerate(data)]
    nf = len(faces)
    face_nodes = sps.csc_matrix((np.ones(2 * nf, dtype=int), np.array(faces).ravel(), np.arange(0, 2 * nf + 1, 2)),
                                shape=(len(pts), nf))
    # cell_faces in csc with the faces of each cell in loop order
    indptr = np.cumsum([0] + [len(lp) for lp in loops])
    cell_faces = sps.csc_matrix((np.array(data), np.array(rows), indptr), shape=(nf, len(loops)))
    return pp.Grid(2, nodes, face_nodes, cell_faces, "polygons")


def polyhedral_grid(nodes3d, cells):
    """3D grid from cells given as lists of faces, each face a node loop oriented counter-clockwise
    when seen from outside the cell (right-hand normal pointing outwards).  A face keeps the node
    order of the first cell that lists it (sign +1), the neighbour gets -1."""
    import porepy as pp

    nodes = np.asarray(nodes3d, dtype=float).T
    faces, key2face, rows, data, indptr = [], {}, [], [], [0]
    for cell in cells:
        for loop in cell:
            k = frozenset(loop)
            if k not in key2face:
                key2face[k] = len(faces)
                faces.append(list(loop))
                s = 1
            else:
                s = -1
            rows.append(key2face[k])
            data.append(s)
        indptr.append(len(rows))
    fptr = np.cumsum([0] + [len(f) for f in faces])
    find = np.concatenate([np.array(f) for f in faces])
    face_nodes = sps.csc_matrix((np.ones(find.size, dtype=int), find, fptr), shape=(nodes.shape[1], len(faces)))
    cell_faces = sps.csc_matrix((np.array(data), np.array(rows), np.array(indptr)), shape=(len(faces), len(cells)))
    return pp.Grid(3, nodes, face_nodes, cell_faces, "polyhedra")


def prism_cells(loops, nn, layers):
    """cells of the prismatic extension of 2D ccw node loops over `layers` cell layers (node k of
    layer l has index k + l * nn)"""
    cells = []
    for l in range(layers):
        lo, hi = l * nn, (l + 1) * nn
        for loop in loops:
            faces = [[n + lo for n in loop[::-1]], [n + hi for n in loop]]
            for i in range(len(loop)):
                a, b = loop[i], loop[(i + 1) % len(loop)]
                faces.append([a + lo, b + lo, b + hi, a + hi])
            cells.append(faces)
    return cells


def prism_grid(nodes2d, loops, zs):
    nodes = [[x, y, z] for z in zs for (x, y) in nodes2d]
    return polyhedral_grid(nodes, prism_cells(loops, len(nodes2d), len(zs) - 1))


# polygon patches (nodes, ccw loops, exact area)
POLY_PATCHES = {
    # left square + right half split in two: the left cell has a hanging node on its right edge
    "hanging": ([(0, 0), (2, 0), (4, 0), (0, 2), (2, 1), (4, 1), (2, 2), (4, 2)],
                [[0, 1, 4, 6, 3], [1, 2, 5, 4], [4, 5, 7, 6]], 8),
    # L-shaped (non-convex) cell + the square completing it
    "lshape": ([(0, 0), (4, 0), (4, 2), (2, 2), (2, 4), (0, 4), (4, 4)],
               [[0, 1, 2, 3, 4, 5], [3, 2, 6, 4]], 16),
    # four quadrilaterals around an off-centre interior node
    "mixed": ([(0, 0), (3, 0), (6, 0), (6, 3), (6, 6), (3, 6), (0, 6), (0, 3), (2, 3)],
              [[0, 1, 8, 7], [1, 2, 3, 8], [8, 3, 4, 5], [8, 5, 6, 7]], 36),
    # two hexagons, one of them non-convex
    "hexes": ([(0, 0), (2, 0), (4, 0), (5, 2), (4, 4), (2, 4), (0, 4), (1, 2), (3, 2)],
              [[0, 1, 8, 5, 6, 7], [1, 2, 3, 4, 5, 8]], 16),
    # thin L (its vertex mean lies outside the cell) + the square completing it
    "thinL": ([(0, 0), (6, 0), (6, 1), (1, 1), (1, 6), (0, 6), (6, 6)],
              [[0, 1, 2, 3, 4, 5], [3, 2, 6, 4]], 36),
    # a triangle, a pentagon and a quadrilateral
    "tri5": ([(0, 0), (4, 0), (6, 2), (4, 4), (0, 4), (2, 2)],
             [[0, 1, 5], [1, 2, 3, 4, 5], [0, 5, 4]], 20),
}


def reorient(g, reverse=(), rotate=(), swap_only=()):
    """copy of g (as a plain pp.Grid) with another, equally valid, way of storing the same grid:
    reverse: faces whose node order is reversed AND whose cell_faces signs are negated;
    rotate:  (3D) faces whose node list is rotated cyclically by one;
    swap_only: (2D) faces whose node order is reversed while the signs are kept - the face-node
               orientation is then inconsistent with cell_faces and compute_geometry must take its fallback."""
    import porepy as pp

    fn = g.face_nodes.tocsc()
    ind = fn.indices.copy()
    for f in list(reverse) + list(swap_only):
        a, b = fn.indptr[f], fn.indptr[f + 1]
        ind[a:b] = ind[a:b][::-1]
    for f in rotate:
        a, b = fn.indptr[f], fn.indptr[f + 1]
        ind[a:b] = np.roll(ind[a:b], 1)
    face_nodes = sps.csc_matrix((np.ones(ind.size, dtype=int), ind, fn.indptr.copy()), shape=fn.shape)
    cf = g.cell_faces.tocsc()
    data = cf.data.copy()
    rev = set(int(f) for f in reverse)
    for k in range(data.size):
        if int(cf.indices[k]) in rev:
            data[k] = -data[k]
    cell_faces = sps.csc_matrix((data, cf.indices.copy(), cf.indptr.copy()), shape=cf.shape)
    return pp.Grid(g.dim, g.nodes.copy(), face_nodes, cell_faces, "reoriented")


# ---------------------------------------------------------------------------------------------------
# lattice perturbations
def perturb_nodes(g, rng, amp=1, dims=None, prob=0.6):
    """move every node by a lattice vector with components in -amp..amp (in place)"""
    dims = range(g.dim) if dims is None else dims
    for j in range(g.num_nodes):
        if rng.random() < prob:
            for d in dims:
                g.nodes[d, j] += rng.randint(-amp, amp)
    return g


def affine_nodes(g, A):
    g.nodes = np.asarray(A, dtype=float) @ g.nodes
    return g


SHEARS_2D = [
    [[1, 1, 0], [0, 1, 0], [0, 0, 1]],
    [[1, 0, 0], [1, 1, 0], [0, 0, 1]],
    [[2, 1, 0], [1, 1, 0], [0, 0, 1]],
    [[1, -1, 0], [1, 1, 0], [0, 0, 1]],
]
SHEARS_3D = [
    [[1, 1, 0], [0, 1, 0], [0, 0, 1]],
    [[1, 0, 1], [0, 1, 1], [0, 0, 1]],
    [[1, 1, 0], [0, 1, 1], [1, 0, 1]],
    [[2, 0, 1], [1, 1, 0], [0, 0, 1]],
]


# ---------------------------------------------------------------------------------------------------
# rational rigid motions
def rotations24():
    """the 24 proper signed permutation matrices"""
    import itertools

    out = []
    for p in itertools.permutations(range(3)):
        for s in itertools.product((1, -1), repeat=3):
            m = np.zeros((3, 3), dtype=int)
            for i in range(3):
                m[i, p[i]] = s[i]
            if round(np.linalg.det(m)) == 1:
                out.append(m)
    return out


def quat_rotation(q):
    """integer quaternion (a, b, c, d) -> (integer matrix M, |q|^2) with rotation R = M / |q|^2"""
    a, b, c, d = q
    n = a * a + b * b + c * c + d * d
    M = np.array([[a * a + b * b - c * c - d * d, 2 * (b * c - a * d), 2 * (b * d + a * c)],
                  [2 * (b * c + a * d), a * a - b * b + c * c - d * d, 2 * (c * d - a * b)],
                  [2 * (b * d - a * c), 2 * (c * d + a * b), a * a - b * b - c * c + d * d]], dtype=int)
    return M, n


QUATS = [(1, 2, 2, 0), (2, 1, 0, 2), (0, 1, 2, 2), (2, 2, 0, 1), (1, 0, 2, 2),       # |q|^2 = 9
         (3, 4, 0, 0), (4, 0, 3, 0), (0, 3, 0, 4), (2, 2, 1, 4), (1, 2, 4, 2), (4, 2, 2, 1),  # 25
         (2, 3, 6, 0), (6, 2, 0, 3), (3, 6, 2, 0), (4, 4, 4, 1), (1, 4, 4, 4), (5, 2, 4, 2)]  # 49


# ---------------------------------------------------------------------------------------------------
# recipes: a JSON description from which a grid is rebuilt exactly (used in replay records)
def _axes_nodes(g, axes):
    """a structured grid built with unit spacing: replace index coordinates by the tensor coordinates"""
    for d, ax in enumerate(axes):
        idx = np.round(g.nodes[d]).astype(int)
        g.nodes[d] = np.asarray(ax, dtype=float)[idx]
    return g


def build(recipe):
    """recipe -> (grid without computed geometry, info) with info = dict(meas=[n, d] ([0, 1] = not known by
    construction), strict, convex).  The recipe lists a base grid and the operations applied to it."""
    import porepy as pp

    b = recipe["base"]
    kind = b["kind"]
    strict, convex = True, False
    if kind == "tensor":
        axes = [np.asarray(a, dtype=float) for a in b["axes"]]
        uniform = all(list(a) == list(range(len(a))) for a in b["axes"])
        if b.get("cart") and uniform:
            g = pp.CartGrid([len(a) - 1 for a in axes])
        else:
            g = pp.TensorGrid(*axes)
        meas = Fraction(int(np.prod([a[-1] - a[0] for a in b["axes"]])))
    elif kind in ("simplex", "rawsimplex"):
        n = [len(a) - 1 for a in b["axes"]]
        g = pp.StructuredTriangleGrid(n) if len(n) == 2 else pp.StructuredTetrahedralGrid(n)
        _axes_nodes(g, b["axes"])
        if kind == "rawsimplex":
            # the same simplices handed to the general constructors with permuted vertex order
            cn = g.cell_nodes().tocsc()
            simp = cn.indices.reshape((g.dim + 1, g.num_cells), order="F").copy()
            for c, p in enumerate(b["vperm"]):
                simp[:, c] = simp[p, c]
            if g.dim == 2:
                g = pp.TriangleGrid(g.nodes.copy(), simp)
            else:
                g = pp.TetrahedralGrid(g.nodes.copy(), simp)
        meas = Fraction(int(np.prod([a[-1] - a[0] for a in b["axes"]])))
    elif kind == "patch":
        nodes, loops, area = POLY_PATCHES[b["name"]]
        g = poly_grid(nodes, loops, z=b.get("z", 0))
        meas = Fraction(area)
    elif kind == "prism":
        nodes, loops, area = POLY_PATCHES[b["name"]]
        g = prism_grid(nodes, loops, b["zs"])
        meas = Fraction(area * (b["zs"][-1] - b["zs"][0]))
    elif kind == "line":
        o, d = np.asarray(b["origin"], dtype=float), np.asarray(b["dir"], dtype=float)
        pts = [o + t * d for t in b["axis"]]
        g = line_grid(pts, b.get("order"), b.get("flip", False))
        ln = Fraction(int(round(float(np.dot(d, d)))))
        k = int(round(float(ln) ** 0.5))
        meas = Fraction(k * (b["axis"][-1] - b["axis"][0])) if k * k == ln else Fraction(0)
    else:
        raise ValueError(kind)
    dim = g.dim
    for op in recipe.get("ops", []):
        o = op["op"]
        if o == "scale":
            g.nodes = g.nodes * op["k"]
            meas *= op["k"] ** dim
        elif o == "perturb":
            g.nodes = g.nodes + np.asarray(op["d"], dtype=float).T
            strict, meas = False, Fraction(0)
        elif o == "affine":
            A = np.asarray(op["A"], dtype=float)
            g.nodes = A @ g.nodes
            det = int(round(np.linalg.det(A[:dim, :dim]))) if dim < 3 else int(round(np.linalg.det(A)))
            meas *= det
        elif o == "translate":
            g.nodes = g.nodes + np.asarray(op["t"], dtype=float).reshape((3, 1))
        elif o == "reorient":
            g = reorient(g, op.get("reverse", ()), op.get("rotate", ()), op.get("swap", ()))
            if op.get("swap"):
                convex = True
        else:
            raise ValueError(o)
    return g, dict(meas=[meas.numerator, meas.denominator], strict=strict, convex=convex)
