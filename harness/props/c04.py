"""C04 Flow and energy models conserve mass and energy discretely.

spec/ref/Conservation.tla      PART 1: the exact LEDGER of a mixed-dimensional flux network (signed cell-face incidence, closed
                               boundary faces, mortar cells handing their flux to primary faces / secondary cells) with the
                               statement TotalResidual = TotalAccumulationRate and seven realistic corruptions of the coupling;
                               PART 2: 60-bit fixed point limb arithmetic with the DESIGN section 8 verdicts
spec/ref/ConservationEnum.tla  TLC enumerates small networks (1-3 subdomains, 0-2 interfaces, matching and non-matching mortars,
                               both orientations of every face, small integer fluxes) and proves the design law on all of them,
                               and that every corruption breaks it (witnesses printed)
spec/trace/J_Conservation.tla  TLC judges what was recorded from the real models

Real code: pp.SinglePhaseFlow / pp.MassAndEnergyBalance (mass_balance_equation, energy_balance_equation as assembled by
BalanceEquation.balance_equation, fluid_source / energy_source, AdvectiveFlux, DarcysLaw / FouriersLaw), pp.ad.Divergence,
pp.ad.MortarProjections.  Per model the harness records
  BINDING A (kind "structure")  the real divergence and mortar_to_{primary,secondary}_int matrices as integer incidence data in
             the ledger format (TLC: DivIncidence, MortarPartition, LedgerBalanced on the REAL network), and the real linear map
             'unit flux on one mortar cell -> change of the cell residuals', measured through the operator tree of the model by
             setting the interface variable through the equation system (TLC: InterfaceMapCancels)
  BINDING B (kind "state")      for random values of ALL primary variables at the current iterate and the previous time step: the
             residuals of the balance equations, the accumulation rate term dt(accumulation) and the magnitudes of the flux
             contributions per cell (TLC: MassConserved, EnergyConserved), and per interface the residual change caused by its
             fluxes (TLC: InterfaceCancels)
Python only drives porepy and converts doubles to limbs / small rationals; every clause is evaluated by TLC."""
from __future__ import annotations

import math
import os
import warnings
from fractions import Fraction

import numpy as np

from .. import tlc
from ._casefiles import judge_files

LEVEL = "exploration"
CLAUSES = ["Computes", "DivIncidence", "MortarPartition", "LedgerBalanced", "InterfaceMapCancels", "MassConserved",
           "EnergyConserved", "InterfaceCancels"]


def _adtpfa_interface_flux_dropped(r):
    """AdTpfaFlux.diffusive_flux (DarcysLawAd / FouriersLawAd) does not put the interface flux on the internal boundary faces of
    the higher-dimensional subdomain (neu_bnd = external_neu_filter * bnd_sgn leaves out internal_boundary_filter): the Fourier
    flux that the lower-dimensional cells receive as a source never leaves the matrix - energy is created.  The mass balance is
    not affected (its interface term goes through the upwind discretisation)."""
    c = r["inp"]["cfg"]
    return (r["clause"] in ("EnergyConserved", "InterfaceCancels", "InterfaceMapCancels") and c.get("discr") == "adtpfa"
            and c["energy"] and len(c["fracs"]) > 0 and not r.get("err"))


MATCHERS = {"adtpfa_interface_flux_dropped": _adtpfa_interface_flux_dropped}
POOL = 8
LBITS = 15
LMASK = (1 << LBITS) - 1
WMAX = 1024  # largest common denominator of mortar weights judged exactly

ALL_SHAPES = {"single1", "chain3", "frac", "nonmatch", "twofrac", "cross"}


class HarnessError(Exception):
    pass


class Observed(Exception):
    """the code under test raised on an in-family input: an observation (the case is recorded with ok = False)"""


def real(fn, *a, **kw):
    """call into porepy; anything it raises is an observation, anything raised elsewhere in this module is a harness failure"""
    try:
        return fn(*a, **kw)
    except (MemoryError, HarnessError):
        raise
    except Exception as e:  # noqa: BLE001
        raise Observed(f"{type(e).__name__}: {e}"[:300]) from e


# ---------------------------------------------------------------------------------------------------
# number conversion
def exponent(scale, biggest=0.0):
    """e with 2^(e-2) <= scale < 2^(e-1) (or, if a single value is bigger than half the scale, that value < 2^(e-2))"""
    s = max(float(scale), 2.0 * float(biggest))
    if not math.isfinite(s) or s <= 0.0:
        raise HarnessError(f"no scale for the fixed point unit: {scale} {biggest}")
    return int(math.floor(math.log2(s))) + 2


def limbs(x, e):
    """round(x * 2^(60 - e)) as four signed limbs to base 2^15"""
    x = float(x)
    if not math.isfinite(x):
        raise HarnessError("non-finite value")
    X = int(round(math.ldexp(x, 60 - e)))
    if abs(X) >= 1 << 59:
        raise HarnessError(f"value {x} does not fit the unit 2^({e}-60)")
    s = -1 if X < 0 else 1
    X = abs(X)
    return [s * (X >> 45), s * ((X >> 30) & LMASK), s * ((X >> 15) & LMASK), s * (X & LMASK)]


def unlimb(l, e):
    return math.ldexp(((l[0] * (1 << 15) + l[1]) * (1 << 15) + l[2]) * (1 << 15) + l[3], e - 60)


def sparse_column(d, floor):
    """entries of a residual DIFFERENCE as [[cell (1-based), limbs]], with its exponent.  Entries below `floor` (1e-13 times the
    size of the residuals that were subtracted, i.e. their rounding noise) are no entries."""
    d = np.where(np.abs(np.asarray(d, dtype=float)) > floor, d, 0.0)
    sc = float(np.abs(d).sum())
    if sc == 0.0:
        return 0, []
    e = exponent(sc)
    out = []
    for c in np.flatnonzero(d):
        l = limbs(d[c], e)
        if any(l):
            out.append([int(c) + 1, l])
    return e, out


# ---------------------------------------------------------------------------------------------------
# the model family
#   geo   "lines"   unit square, fractures = segments with end points in 1/8 (any of them may end inside the domain)
#         "nm"      NonMatchingSquareDomainOrthogonalFractures (fracture and mortar grids refined independently)
#         "rect3"   RectangularDomainThreeFractures (two orthogonal fractures and a tilted one, simplex)
#         "cube"    CubeDomainOrthogonalFractures (1-3 orthogonal planes, intersection lines / point)
def _closed_bc():
    import porepy as pp

    class Closed:
        """zero Neumann data on the whole boundary for every flux of the balance equations"""

        def bc_type_darcy_flux(self, sd):
            return pp.BoundaryCondition(sd)

        def bc_type_fluid_flux(self, sd):
            return pp.BoundaryCondition(sd)

        def bc_type_fourier_flux(self, sd):
            return pp.BoundaryCondition(sd)

        def bc_type_enthalpy_flux(self, sd):
            return pp.BoundaryCondition(sd)

    return Closed


def build(cfg):
    import porepy as pp
    from porepy.applications.md_grids import model_geometries as mgeo

    class Lines(pp.PorePyModel):
        def set_fractures(self):
            self._fractures = [pp.LineFracture(np.array(f, dtype=float).T / 8.0) for f in self.params["c04_fractures"]]

    class Tpfa:
        def darcy_flux_discretization(self, subdomains):
            return pp.ad.TpfaAd(self.darcy_keyword, list(subdomains))

        def fourier_flux_discretization(self, subdomains):
            return pp.ad.TpfaAd(self.fourier_keyword, list(subdomains))

    geo = {"lines": Lines, "nm": mgeo.NonMatchingSquareDomainOrthogonalFractures, "rect3": mgeo.RectangularDomainThreeFractures,
           "cube": mgeo.CubeDomainOrthogonalFractures}[cfg["geo"]]
    phys = pp.MassAndEnergyBalance if cfg["energy"] else pp.SinglePhaseFlow
    laws = {"mpfa": (), "tpfa": (Tpfa,), "adtpfa": (pp.constitutive_laws.DarcysLawAd, pp.constitutive_laws.FouriersLawAd)}
    bases = (_closed_bc(),) + laws[cfg.get("discr", "mpfa")] + (geo, phys)
    Model = type("C04Model", bases, {})
    comp = cfg["compressible"]
    fluid = pp.FluidComponent(compressibility=0.25 if comp else 0.0, density=1.0, viscosity=0.5,
                              thermal_expansion=0.125 if comp else 0.0, specific_heat_capacity=2.0, thermal_conductivity=0.5)
    solid = pp.SolidConstants(porosity=0.25, permeability=0.5, density=1.5, specific_heat_capacity=1.25, thermal_conductivity=1.0,
                              normal_permeability=0.5, residual_aperture=0.125)
    dt = 1.0 / cfg.get("inv_dt", 64)
    params = {"material_constants": {"fluid": fluid, "solid": solid}, "times_to_export": [],
              "time_manager": pp.TimeManager(schedule=[0.0, 1.0], dt_init=dt, constant_dt=True),
              "grid_type": cfg["grid"], "meshing_arguments": {"cell_size": 1.0 / cfg["inv_h"]}}
    if cfg["geo"] == "lines":
        params["c04_fractures"] = cfg["fracs"]
    else:
        params["fracture_indices"] = list(cfg["fracs"])
    if cfg["geo"] == "nm":
        params["fracture_refinement_ratio"], params["interface_refinement_ratio"] = cfg["ratios"]
    if cfg["geo"] == "rect3":
        params.pop("meshing_arguments")
        params["cartesian"] = cfg["grid"] == "cartesian"
    m = Model(params)
    m.prepare_simulation()
    return m


def layout(m):
    sds = m.mdg.subdomains()
    intfs = m.mdg.interfaces(codim=1)
    c0 = np.cumsum([0] + [sd.num_cells for sd in sds])
    sdof = [i + 1 for i, sd in enumerate(sds) for _ in range(sd.num_cells)]
    pairs = []
    for intf in intfs:
        hi, lo = m.mdg.interface_to_subdomain_pair(intf)
        pairs.append(dict(hi=sds.index(hi) + 1, lo=sds.index(lo) + 1))
    return sds, intfs, c0, sdof, pairs


def intf_dofs(m, intf):
    es = m.equation_system
    return {v.name: es.dofs_of([v]) for v in es.variables if v.domain is intf}


def equations(m, cfg):
    import porepy as pp

    sds = m.mdg.subdomains()
    dt = pp.ad.time_derivatives.dt
    out = [("mass", "mass_balance_equation", lambda: dt(m.fluid_mass(sds), m.ad_time_step), lambda: m.fluid_flux(sds),
            lambda: m.fluid_source(sds))]
    if cfg["energy"]:
        out.append(("energy", "energy_balance_equation",
                    lambda: dt(m.volume_integral(m.total_internal_energy(sds), sds, dim=1), m.ad_time_step),
                    lambda: m.energy_flux(sds), lambda: m.energy_source(sds)))
    return out


def value(es, op):
    r = real(es.evaluate, op)
    return np.asarray(r.val if hasattr(r, "val") else r, dtype=float).ravel()


def random_state(m, rng):
    """independent random values of ALL primary variables at the current iterate and at the previous time step; then the
    derived quantities (stored Darcy fluxes, upwind discretisations) are brought up to date with the iterate, as the
    solution strategy does after every change of the state"""
    es = m.equation_system
    n = es.num_dofs()
    real(es.set_variable_values, rng.uniform(-1.0, 1.0, n), time_step_index=0)
    x = rng.uniform(-1.0, 1.0, n)
    real(es.set_variable_values, x, iterate_index=0)
    real(m.update_derived_quantities)
    return x


# ---------------------------------------------------------------------------------------------------
# BINDING A: the incidence data the equations use + the measured interface-flux -> residual map
def _int_or_zero(v):
    r = round(float(v))
    return int(r) if abs(float(v) - r) <= 1e-12 and abs(r) < 1 << 20 else 0


def _forms(mat, conv):
    """row form and column form of a sparse matrix: per row [[col, v]], per column [[row, v]] (1-based)"""
    csr, csc = mat.tocsr(), mat.tocsc()
    csr.sort_indices()
    csc.sort_indices()
    rows = [[[int(j) + 1, conv(v)] for j, v in zip(csr.indices[csr.indptr[i]:csr.indptr[i + 1]], csr.data[csr.indptr[i]:csr.indptr[i + 1]])]
            for i in range(csr.shape[0])]
    cols = [[[int(i) + 1, conv(v)] for i, v in zip(csc.indices[csc.indptr[j]:csc.indptr[j + 1]], csc.data[csc.indptr[j]:csc.indptr[j + 1]])]
            for j in range(csc.shape[1])]
    return rows, cols


def clean(mat):
    """a private csr copy without the entries below 1e-12 (overlap noise like 4e-29 in the projections of non-matching grids)"""
    import scipy.sparse as sps

    a = sps.coo_matrix(mat)
    keep = np.abs(a.data) > 1e-12
    return sps.csr_matrix((a.data[keep].astype(float), (a.row[keep], a.col[keep])), shape=a.shape)


def common_denominator(*mats):
    L = 1
    for mat in mats:
        for v in mat.data:
            f = Fraction(float(v)).limit_denominator(WMAX)
            if abs(float(f) - float(v)) > 1e-12:
                return 0
            L = L * f.denominator // math.gcd(L, f.denominator)
            if L > WMAX:
                return 0
    return L


def structure_case(m, cfg, rng):
    import porepy as pp
    import scipy.sparse as sps

    es = m.equation_system
    sds, intfs, c0, sdof, pairs = layout(m)
    div = clean(real(lambda: pp.ad.Divergence(sds, dim=1).parse(m.mdg)))
    nm = int(sum(i.num_cells for i in intfs))
    nf = int(sum(sd.num_faces for sd in sds))
    nc = int(c0[-1])
    if intfs:
        proj = real(pp.ad.MortarProjections, m.mdg, sds, intfs, dim=1)
        P = clean(real(lambda: proj.mortar_to_primary_int().parse(m.mdg)))
        S = clean(real(lambda: proj.mortar_to_secondary_int().parse(m.mdg)))
    else:
        P, S = sps.csr_matrix((nf, 0)), sps.csr_matrix((nc, 0))
    if div.shape != (nc, nf) or P.shape != (nf, nm) or S.shape != (nc, nm):
        raise HarnessError(f"unexpected operator shapes {div.shape} {P.shape} {S.shape}")
    W = common_denominator(P, S)
    conv = (lambda v: int(round(float(v) * W))) if W else (lambda v: 0)
    rows, cols = _forms(div, _int_or_zero)
    prow, pcol = _forms(P, conv)
    srow, scol = _forms(S, conv)
    mintf = [j + 1 for j, i in enumerate(intfs) for _ in range(i.num_cells)]
    net = dict(ncell=nc, sdof=sdof, dimof=[int(sd.dim) for sd in sds], rows=rows, cols=cols, W=W, pcol=pcol, prow=prow, scol=scol,
               srow=srow, mintf=mintf, intf=pairs)
    out = dict(ok=True, err="", net=net, pfx=[], sfx=[], maps=[])
    if not W:
        Pc, Sc = P.tocsc(), S.tocsc()
        out["pfx"] = [[[int(i) + 1, limbs(v, 2)] for i, v in zip(Pc.indices[Pc.indptr[k]:Pc.indptr[k + 1]], Pc.data[Pc.indptr[k]:Pc.indptr[k + 1]])]
                      for k in range(nm)]
        out["sfx"] = [[[int(i) + 1, limbs(v, 2)] for i, v in zip(Sc.indices[Sc.indptr[k]:Sc.indptr[k + 1]], Sc.data[Sc.indptr[k]:Sc.indptr[k + 1]])]
                      for k in range(nm)]
    # the measured map: the discretisation (upwind directions on faces and interfaces) is the one of a random state; the
    # columns are residual(flux variable = unit vector) - residual(flux variable = 0), all interface fluxes zero otherwise
    x = random_state(m, rng)
    eqs = equations(m, cfg)
    base = x.copy()
    moff = np.cumsum([0] + [i.num_cells for i in intfs])
    alld = [d for intf in intfs for d in intf_dofs(m, intf).values()]
    if alld:
        base[np.concatenate(alld)] = 0.0
    es.set_variable_values(base, iterate_index=0)
    r0 = {name: value(es, es.equations[eqname]) for name, eqname, *_ in eqs}
    stats = dict(columns=0, empty=0)
    for j, intf in enumerate(intfs):
        for var, dofs in sorted(intf_dofs(m, intf).items()):
            for k, d in enumerate(dofs):
                xk = base.copy()
                xk[d] = 1.0
                es.set_variable_values(xk, iterate_index=0)
                for name, eqname, *_ in eqs:
                    if name == "mass" and "darcy" not in var:
                        continue  # the mass balance does not contain the heat flux variables
                    e, ent = sparse_column(value(es, es.equations[eqname]) - r0[name], 1e-13 * max(1.0, np.abs(r0[name]).max()))
                    stats["columns"] += 1
                    stats["empty"] += not ent
                    out["maps"].append(dict(eq=name, var=var, intf=j + 1, m=int(moff[j]) + k + 1, e=e, ent=ent))
    es.set_variable_values(x, iterate_index=0)
    out["stats"] = stats
    return out


# ---------------------------------------------------------------------------------------------------
# BINDING B: the statement on random states
def state_case(m, cfg, rng):
    import porepy as pp
    import scipy.sparse as sps

    es = m.equation_system
    sds, intfs, c0, sdof, pairs = layout(m)
    x = random_state(m, rng)
    absdiv = abs(clean(real(lambda: pp.ad.Divergence(sds, dim=1).parse(m.mdg))))
    out = dict(ok=True, err="", ncell=int(c0[-1]), sdof=sdof, intf=pairs, eqs=[], dj=[])
    info = dict(ratio={}, updown={})
    res = {}
    for name, eqname, acc, flux, source in equations(m, cfg):
        R = value(es, es.equations[eqname])
        A = value(es, real(acc))
        F = value(es, real(flux))
        Q = value(es, real(source))
        M = absdiv @ np.abs(F) + np.abs(Q)
        e = exponent(M.sum(), max(np.abs(R).max(), np.abs(A).max()))
        if M.sum() < 2.0 ** (e - 7):
            raise HarnessError(f"a single cell's accumulation rate exceeds the sum of all flux contributions 16 times ({name}): outside the family")
        out["eqs"].append(dict(name=name, e=e, R=[limbs(v, e) for v in R], A=[limbs(v, e) for v in A], M=[limbs(v, e) for v in M]))
        res[name] = R
        info["ratio"][name] = float(np.abs(A).sum() / M.sum())
    # both flow directions must be seen by the upwinding
    dflux = value(es, real(m.darcy_flux, sds))
    lam = value(es, real(m.interface_darcy_flux, intfs)) if intfs else np.zeros(0)
    info["updown"] = dict(face_pos=int((dflux > 0).sum()), face_neg=int((dflux < 0).sum()), intf_pos=int((lam > 0).sum()),
                          intf_neg=int((lam < 0).sum()))
    info["nonzero_interface_fluxes"] = bool(all(np.all(x[d] != 0.0) for i in intfs for d in intf_dofs(m, i).values()))
    # residual change caused by the fluxes of one interface (discretisation unchanged)
    for j, intf in enumerate(intfs):
        xz = x.copy()
        xz[np.concatenate(list(intf_dofs(m, intf).values()))] = 0.0
        es.set_variable_values(xz, iterate_index=0)
        for name, eqname, *_ in equations(m, cfg):
            e, ent = sparse_column(res[name] - value(es, es.equations[eqname]), 1e-13 * max(1.0, np.abs(res[name]).max()))
            out["dj"].append(dict(eq=name, intf=j + 1, e=e, D=ent))
    es.set_variable_values(x, iterate_index=0)
    out["info"] = info
    return out


# ---------------------------------------------------------------------------------------------------
def _quiet():
    warnings.filterwarnings("ignore")
    import logging

    logging.disable(logging.CRITICAL)


def _rng(seed, cfg, k):
    return np.random.default_rng([int(seed), int(cfg["id"]), int(k)])


def _observe(fn, *a):
    """an exception of the code under test is an observation (ok = False), never a harness crash"""
    try:
        return fn(*a)
    except Observed as e:
        return dict(ok=False, err=str(e))


def execute(job):
    """all cases of one model: the structure case (k = 0) and the state cases k = 1..nstates; `only` restricts to one k"""
    seed, cfg, only = job
    _quiet()
    import tempfile

    os.chdir(tempfile.mkdtemp(prefix="c04_", dir=os.environ.get("VERIF_WORK")))
    ks = [k for k in range(0, cfg["nstates"] + 1) if only is None or k == only]
    cases = []
    try:
        m = real(build, cfg)
    except Observed as e:
        err = dict(ok=False, err=f"build: {e}")
        return [{"in": dict(kind="structure" if k == 0 else "state", energy=cfg["energy"], cfg=cfg, k=k, seed=seed), "out": err} for k in ks]
    for k in ks:
        inp = dict(kind="structure" if k == 0 else "state", energy=cfg["energy"], cfg=cfg, k=k, seed=seed)
        out = _observe(structure_case if k == 0 else state_case, m, cfg, _rng(seed, cfg, k))
        cases.append({"in": inp, "out": out})
    return cases


def execute_all(seed, cfgs, meanwhile=None):
    """all cases of all models, in worker processes; `meanwhile` (the design-level TLC run) is called in this thread while
    they work.  The parent never imports porepy and starts no thread of its own before the workers are forked (forking after
    numba's OpenMP runtime has started, or with other threads running, is unsafe); numba kernels are cached on disk."""
    jobs = [(seed, c, None) for c in cfgs]
    import multiprocessing as mp
    from concurrent.futures import ProcessPoolExecutor

    for k in ("NUMBA_NUM_THREADS", "OMP_NUM_THREADS", "OPENBLAS_NUM_THREADS", "MKL_NUM_THREADS"):
        os.environ.setdefault(k, "2")  # read by the workers when they import numba / numpy
    order = sorted(range(len(jobs)), key=lambda i: -cfgs[i].get("weight", 1))  # the heaviest models first
    with ProcessPoolExecutor(min(POOL, len(jobs)), mp_context=mp.get_context("fork"), initializer=_quiet) as pool:
        futs = [pool.submit(execute, jobs[i]) for i in order]
        if meanwhile is not None:
            meanwhile()
        # (a worker that dies or hangs raises BrokenProcessPool / TimeoutError here: machinery failure, never a verdict)
        done = [f.result(timeout=3000) for f in futs]
    res = [None] * len(jobs)
    for i, d in zip(order, done):
        res[i] = d
    return [c for d in res for c in d]


# ---------------------------------------------------------------------------------------------------
X_FRACS = [[[4, 0], [4, 8]], [[0, 4], [8, 4]]]
T3_FRACS = [[[4, 0], [4, 8]], [[0, 4], [8, 4]], [[6, 4], [6, 8]]]       # X plus a third fracture ending on the second (T)
IMM_FRACS = [[[2, 4], [6, 4]], [[4, 2], [4, 6]], [[2, 6], [6, 6]]]      # immersed tips; X and T
L_FRACS = [[[2, 2], [6, 2]], [[6, 2], [6, 6]]]                          # L: shared end point
DIAG_FRACS = [[[1, 1], [7, 6]], [[1, 6], [6, 1]], [[4, 0], [4, 3]]]     # generic directions (simplex only)


def configs(ctx):
    q = ctx.quick

    def c(geo, fracs, grid, energy, compressible, inv_h=4, weight=1, **kw):
        return dict(geo=geo, fracs=fracs, grid=grid, energy=energy, compressible=compressible, inv_h=inv_h, weight=weight, **kw)

    out = [
        c("lines", [], "cartesian", False, True),
        c("lines", X_FRACS[:1], "cartesian", True, True),
        c("lines", X_FRACS, "cartesian", True, False),
        c("lines", X_FRACS, "simplex", True, True),
        c("lines", T3_FRACS, "cartesian", True, True, weight=2),
        c("rect3", [0, 1, 2], "simplex", True, True, weight=2),
        c("nm", [0, 1], "cartesian", True, True, ratios=[2, 3], weight=2),
        c("nm", [1], "simplex", False, True, ratios=[3, 2]),
        c("cube", [0, 1], "cartesian", True, True, inv_h=2, weight=4),
        c("cube", [0], "simplex", False, False, inv_h=2, weight=3),
        c("lines", X_FRACS, "cartesian", True, True, discr="adtpfa", weight=2),     # differentiable TPFA (DarcysLawAd, FouriersLawAd)
    ]
    if not q:
        for grid in ("cartesian", "simplex"):
            for comp in (True, False):
                for energy in (True, False):
                    for fr in ([], X_FRACS[:1], X_FRACS, T3_FRACS, IMM_FRACS, L_FRACS):
                        out.append(c("lines", fr, grid, energy, comp, inv_h=4 if (energy or comp) else 8, weight=2))
        for comp in (True, False):
            out.append(c("lines", DIAG_FRACS, "simplex", True, comp, weight=2))
            out.append(c("lines", T3_FRACS, "cartesian", True, comp, inv_h=8, weight=3))
            out.append(c("lines", X_FRACS, "cartesian", True, comp, discr="tpfa"))
            out.append(c("lines", IMM_FRACS, "simplex", True, comp, discr="tpfa"))
            out.append(c("lines", T3_FRACS, "cartesian", True, comp, discr="adtpfa", weight=2))   # differentiable TPFA (DarcysLawAd)
            out.append(c("lines", IMM_FRACS, "simplex", True, comp, discr="adtpfa", weight=2))
            out.append(c("lines", X_FRACS, "cartesian", True, comp, inv_dt=512))
            for fr in ([0], [1], [0, 1], [0, 1, 2]):
                out.append(c("rect3", fr, "simplex", True, comp, weight=2))
            out.append(c("rect3", [0, 1], "cartesian", False, comp))
            for ratios in ([2, 2], [2, 3], [3, 2], [1, 3]):
                out.append(c("nm", [0, 1], "cartesian", True, comp, ratios=ratios, weight=2))
                out.append(c("nm", [0, 1], "simplex", True, comp, ratios=ratios, weight=3))
            out.append(c("nm", [0], "cartesian", False, comp, ratios=[2, 3], inv_h=8, weight=2))
            for fr in ([0], [0, 1], [0, 1, 2]):
                out.append(c("cube", fr, "cartesian", True, comp, inv_h=2, weight=5))
            out.append(c("cube", [0, 1], "simplex", True, comp, inv_h=2, weight=6))
            out.append(c("cube", [0, 2], "cartesian", False, comp, inv_h=4, weight=8))
            out.append(c("cube", [0, 1, 2], "simplex", True, comp, inv_h=2, weight=8))
            out.append(c("lines", X_FRACS, "simplex", True, comp, inv_h=8, weight=4))
            out.append(c("lines", IMM_FRACS, "cartesian", True, comp, inv_h=8, weight=4))
            out.append(c("cube", [0, 1], "cartesian", True, comp, inv_h=2, discr="tpfa", weight=3))
            out.append(c("cube", [0, 1], "cartesian", True, comp, inv_h=2, discr="adtpfa", weight=3))
    for i, cf in enumerate(out):
        cf["id"] = i
        cf["nstates"] = 2 if q else 8
    return out


def class_key(inp):
    c = inp["cfg"]
    return (inp["kind"], c["geo"], len(c["fracs"]), c["grid"], c["energy"], c["compressible"], c.get("discr", "mpfa"),
            tuple(c.get("ratios", ())))


def describe(inp):
    c = inp["cfg"]
    return (f"{inp['kind']} k={inp['k']} geo={c['geo']} fracs={c['fracs']} grid={c['grid']} 1/h={c['inv_h']} "
            f"{'mass+energy' if c['energy'] else 'mass'} {'compressible' if c['compressible'] else 'incompressible'} "
            f"{c.get('discr', 'mpfa')} {c.get('ratios', '')}")


def strip(case):
    """the TLC view of a case (evidence-only fields removed)"""
    out = {k: v for k, v in case["out"].items() if k not in ("info", "stats")}
    return {"in": case["in"], "out": out}


def judge(ctx, cases):
    incon = skipped = 0
    for lo in range(0, len(cases), 2000):
        part = cases[lo:lo + 2000]
        for v in judge_files(ctx, "J_Conservation", [strip(c) for c in part], ["Judgement"]):
            c = part[v["case"] - 1]
            tag = v.get("tag")
            if tag == "inconclusive":
                incon += 1
            elif tag == "ledger_skipped":
                skipped += 1
            elif tag == "machinery":
                raise HarnessError(f"fixed point unit / scale / matrix forms do not fit: {describe(c['in'])}")
            elif tag is not None:
                raise HarnessError(f"unknown tag {tag}")
            else:
                ctx.violation(v["clause"], dict(inp=c["in"], err=c["out"].get("err", "")), f"{describe(c['in'])} {c['out'].get('err', '')}")
    ctx.inconclusive += incon
    return skipped


def ledger(ctx):
    q = ctx.quick
    consts = dict(Shapes=ALL_SHAPES, FluxVals={-2, 1} if q else {-2, 0, 1}, LamVals={-1, 2} if q else {-1, 0, 2},
                  TiedShapes=ALL_SHAPES if q else {"cross"}, MaxFree=4 if q else 6)
    m, cf = tlc.gen(ctx.work / "enum", "MC_ConservationEnum", "ConservationEnum", consts,
                    invariants=["LawWellFormed", "LawConserved", "LawIntfCancels", "Sensitive"])
    res = ctx.tlc(m, cf, workers=8, allow_violation=False, timeout=3000)
    wit = {r["mode"]: r for r in res.records}
    modes = {"same_sign", "src_sign", "drop_src", "sec_avg", "prim_avg", "no_bsign", "open_boundary"}
    if set(wit) != modes or any(w["residual"] == w["accumulation"] or not w["sound"] for w in wit.values()):
        raise HarnessError(f"ledger sensitivity witnesses incomplete: {sorted(wit)}")
    ctx.extra["ledger_states"] = res.distinct
    ctx.extra["ledger_corruption_witnesses"] = [dict(mode=w["mode"], shape=w["shape"], orient=w["orient"], lam=w["flux"]["lam"],
                                                     total_residual=w["residual"], total_accumulation=w["accumulation"])
                                                for w in wit.values()]


def run(ctx):
    ctx.rule = ("design: TLC enumerates ledger networks (6 shapes: 1-3 subdomains of dimension 2/1/0, 0-2 interfaces, matching and "
                "non-matching mortars; every face in both orientations; integer inter-cell and interface fluxes) and checks "
                "TotalResidual = TotalAccumulationRate, per-interface cancellation, and that each of 7 corruptions breaks the law.  "
                "binding: real SinglePhaseFlow / MassAndEnergyBalance models with closed boundaries on md-grids with 0-3 fractures "
                "(X, T, L intersections, immersed tips, tilted fracture, non-matching fracture / mortar grids, 3D with intersection "
                "line / point; Cartesian and simplex; compressible and incompressible; MPFA, TPFA and differentiable TPFA): one structure case per model "
                "(real divergence and mortar projections as ledger network; measured unit-interface-flux -> residual columns) and "
                "one state case per random state of all primary variables (residual sums vs accumulation rate sums, per-interface "
                "cancellation).  evaluations = recorded cases judged by TLC; class = (kind, geometry, #fractures, grid type, "
                "physics, compressibility, flux discretisation, refinement ratios)")
    ctx.assumptions = [
        "closed boundary = zero Neumann data for the Darcy, fluid, Fourier and enthalpy fluxes on every boundary face (bc_type_* "
        "overridden; the bc_values_* defaults of the models are zero); no sources: the models' default source terms (only the "
        "interface fluxes); no gravity; no wells",
        "a state = independent uniform(-1, 1) values of every degree of freedom (pressure, temperature, interface Darcy / Fourier / "
        "enthalpy fluxes) at the current iterate and, independently, at the previous time step; after setting it the model's own "
        "update_derived_quantities() refreshes the stored Darcy fluxes and the upwind discretisations, as the solution strategy does",
        "sums are judged by TLC in 60-bit fixed point: |sum R - sum A| <= 1e-9 * scale passes, > 1e-6 * scale is a violation, between "
        "is inconclusive; scale = sum over cells of |div| |flux| + |source| (the individual flux contributions), for the per-"
        "interface and per-mortar-cell columns the sum of the absolute entries of the column",
        "mortar weights that are rationals with common denominator <= 1024 are judged exactly on the ledger; others (non-matching "
        "simplex grids) in fixed point, and the exact ledger clause does not apply to them",
        "which sign convention the interface flux has (positive = out of the higher dimension) is mechanism and not judged",
    ]
    cfgs = configs(ctx)
    cases = execute_all(ctx.seed, cfgs, meanwhile=lambda: ledger(ctx))
    ratios, cols, empty, both, nonzero = [], 0, 0, 0, True
    for c in cases:
        ok = c["out"].get("ok", False)
        nontrivial = ok
        if ok and c["in"]["kind"] == "state":
            info = c["out"]["info"]
            ratios += list(info["ratio"].values())
            u = info["updown"]
            few = u["intf_pos"] + u["intf_neg"] < 8  # a handful of mortar cells may well all flow one way
            both += bool(u["face_pos"] and u["face_neg"] and (few or (u["intf_pos"] and u["intf_neg"])))
            nonzero = nonzero and info["nonzero_interface_fluxes"]
        if ok and c["in"]["kind"] == "structure":
            cols += c["out"]["stats"]["columns"]
            empty += c["out"]["stats"]["empty"]
        ctx.case(key=class_key(c["in"]), nontrivial=nontrivial)
        if len(ctx.samples) < 6 and ok and (c["in"]["kind"], c["in"]["cfg"]["geo"]) not in {(s["kind"], s["geo"]) for s in ctx.samples}:
            o = c["out"]
            if c["in"]["kind"] == "state":
                brief = {q["name"]: dict(sum_residual=sum(unlimb(l, q["e"]) for l in q["R"]), sum_accumulation=sum(unlimb(l, q["e"]) for l in q["A"]),
                                         scale=sum(unlimb(l, q["e"]) for l in q["M"])) for q in o["eqs"]}
                brief["info"] = o["info"]
            else:
                n = o["net"]
                brief = dict(cells=n["ncell"], faces=len(n["cols"]), mortar_cells=len(n["pcol"]), W=n["W"], dims=n["dimof"], **o["stats"])
            ctx.sample(dict(kind=c["in"]["kind"], geo=c["in"]["cfg"]["geo"], what=describe(c["in"]), out=brief))
    ctx.programs = len(cfgs)
    skipped = judge(ctx, cases)
    states = [c for c in cases if c["in"]["kind"] == "state" and c["out"].get("ok")]
    ctx.extra.update(models=len(cfgs), state_cases=len(states), measured_columns=cols, empty_columns=empty,
                     ledger_clause_not_applicable=skipped,
                     accumulation_to_flux_ratio=dict(min=min(ratios) if ratios else None, max=max(ratios) if ratios else None),
                     states_with_both_flow_directions=both, all_interface_fluxes_nonzero=nonzero)
    if states and (not nonzero or both < 0.9 * len(states)):
        raise HarnessError("the random states do not exercise both flow directions / non-zero interface fluxes")
    ctx.exhaustive = False


def replay(ctx, body):
    inp = body["record"]["inp"]
    cases = execute((inp["seed"], inp["cfg"], inp["k"]))
    for c in cases:
        ctx.case(key="replay")
        ctx.sample(dict(what=describe(c["in"]), ok=c["out"].get("ok"), err=c["out"].get("err", "")))
    judge(ctx, cases)
