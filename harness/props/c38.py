"""C38 Exported states are restored exactly on import.

spec/ref/VtuLayout.tla (reference: block layout of a vtu file, export, import, time information),
spec/sys/ExportImport.tla (TLC enumerates the layouts / export configurations and checks the model laws),
spec/trace/J_ExportImport.tla (TLC judges every round trip recorded from the real code).

Binding: every enumerated layout (entities -> cell types) is realised as hand-built zig-zag strip meshes
(2-d: triangle / quad / pentagon; 3-d: their extrusions = prism / hexahedron-like / 10-node polyhedra, plus
tetrahedral and Cartesian grids), optionally with a 1-d subdomain and an interface glued to every strip, in
one pp.MixedDimensionalGrid; random pairwise distinct integers (a scalar and a 3-vector per cell) are written
with the real pp.Exporter.write_vtu / write_pvd and read back into a freshly built copy of the md-grid with
import_state_from_vtu / import_from_pvd; TimeManager.write/load_time_information and the DataSavingMixin
(write_pvd_and_vtu -> load_data_from_pvd / load_data_from_vtu) are bound likewise."""
from __future__ import annotations

import shutil
import traceback
from concurrent.futures import ProcessPoolExecutor
from fractions import Fraction
from pathlib import Path

from .. import tlc

LEVEL = "model_checking"
CLAUSES = ["ImportSucceeds", "LatestStep", "RestoredIsWritten"]
MECH = ["BlockLayout"]
NAME = "rt"
ONE_STEP = 3
STEP_LISTS = [[0, 1, 2], [9, 10], [2, 5], [8, 9, 10, 11], [99, 100]]
WORKERS = 8


# ------------------------------------------------------------------------------------------------
# grids
# ------------------------------------------------------------------------------------------------
def strip(keys, y0=0.0):
    """Zig-zag strip between the rails y = y0 and y = y0 + 1: a quad (4) advances both rails, a triangle (3)
    one rail (alternating), a pentagon (5) is a quad with an extra node on its bottom face."""
    import numpy as np
    import porepy as pp
    import scipy.sparse as sps

    nodes, fn, faces, cells = [], [], {}, []

    def add(x, y):
        nodes.append((float(x), y0 + y, 0.0))
        return len(nodes) - 1

    def face(a, b):
        k = frozenset((a, b))
        if k not in faces:
            faces[k] = len(fn)
            fn.append((a, b))
        return faces[k]

    B, T = [add(0, 0)], [add(0, 1)]
    flip = False
    for k in keys:
        b, t = B[-1], T[-1]
        if k in (4, 5):
            nb = add(len(B), 0)
            B.append(nb)
            nt = add(len(T), 1)
            T.append(nt)
            loop = [b, nb, nt, t] if k == 4 else [b, add(len(B) - 1.5, 0), nb, nt, t]
        elif k == 3:
            if not flip:
                nb = add(len(B), 0)
                B.append(nb)
                loop = [b, nb, t]
            else:
                nt = add(len(T), 1)
                T.append(nt)
                loop = [b, nt, t]
            flip = not flip
        else:
            raise ValueError(k)
        cells.append([face(loop[i], loop[(i + 1) % len(loop)]) for i in range(len(loop))])
    N, F, C = len(nodes), len(fn), len(cells)
    face_nodes = sps.csc_matrix((np.ones(2 * F, dtype=bool), (np.array(fn).ravel(), np.repeat(np.arange(F), 2))),
                                shape=(N, F))
    seen, r, c, d = set(), [], [], []
    for ci, fs in enumerate(cells):
        for f in fs:
            r.append(f)
            c.append(ci)
            d.append(1 if f not in seen else -1)
            seen.add(f)
    g = pp.Grid(2, np.array(nodes).T, face_nodes, sps.csc_matrix((np.array(d), (r, c)), shape=(F, C)), "strip")
    g.compute_geometry()
    return g


def fracture_of(g):
    """1-d grid along the bottom rail of a strip and the one-sided interface joining them."""
    import numpy as np
    import porepy as pp
    import scipy.sparse as sps
    from porepy.grids.mortar_grid import MortarSides

    y0 = g.nodes[1].min()
    fn = g.face_nodes.indices.reshape(-1, 2)
    bottom = [f for f in range(g.num_faces) if np.all(g.nodes[1, fn[f]] == y0)]
    xs = np.array(sorted(set(g.nodes[0, fn[bottom].ravel()])))
    g1 = pp.TensorGrid(xs)
    g1.nodes[1] = y0
    g1.compute_geometry()
    rows = [int(np.argmin(np.abs(g1.cell_centers[0] - g.face_centers[0, f]))) for f in bottom]
    ps = sps.csc_matrix((np.ones(len(rows), dtype=bool), (rows, bottom)), shape=(g1.num_cells, g.num_faces))
    intf = pp.MortarGrid(1, {MortarSides.LEFT_SIDE: g1.copy()}, ps, codim=1)
    return g1, intf, ps


def grid3(keys, z0):
    """3-d grid of one entity: keys 6 / 8 / 10 = extruded strip; [4]*6 = StructuredTetrahedralGrid([1,1,1]);
    ["c", n] = pp.CartGrid([n,1,1]) (written as genuine hexahedra when alone in the file)."""
    import numpy as np
    import porepy as pp

    if keys and keys[0] == "c":
        g = pp.CartGrid([int(keys[1]), 1, 1])
    elif keys == [4] * 6:
        g = pp.StructuredTetrahedralGrid([1, 1, 1])
    else:
        g, _, _ = pp.grid_extrusion.extrude_grid(strip([k // 2 for k in keys]), np.array([0.0, 1.0]))
    g.nodes[2] += z0
    g.compute_geometry()
    return g


def build(spec):
    """spec -> (mdg, subdomains in creation order, interfaces in creation order)."""
    import numpy as np
    import porepy as pp

    if "lib" in spec:
        if spec["lib"] == "cart2":
            f1, f2 = np.array([[0, 2], [1, 1]]), np.array([[1, 1], [0, 2]])
            mdg = pp.meshing.cart_grid([f1, f2], np.array([2, 2]))
        elif spec["lib"] == "simplex2":
            mdg, _ = pp.mdg_library.square_with_orthogonal_fractures("simplex", {"cell_size": 0.5}, [0, 1])
        elif spec["lib"] == "cart3":
            f1 = np.array([[0, 2, 2, 0], [1, 1, 1, 1], [0, 0, 2, 2]])
            f2 = np.array([[1, 1, 1, 1], [0, 2, 2, 0], [0, 0, 2, 2]])
            mdg = pp.meshing.cart_grid([f1, f2], np.array([2, 2, 2]))
        else:
            raise ValueError(spec)
        return mdg, list(mdg.subdomains()), list(mdg.interfaces(codim=1))
    mdg = pp.MixedDimensionalGrid()
    if spec["dim"] == 2:
        grids = [strip(keys, y0=3.0 * i) for i, keys in enumerate(spec["layout"])]
    else:
        grids = [grid3(keys, z0=3.0 * i) for i, keys in enumerate(spec["layout"])]
    mdg.add_subdomains(grids)
    sds, intfs = list(grids), []
    if spec.get("frac"):
        for g in grids:
            g1, intf, ps = fracture_of(g)
            mdg.add_subdomains([g1])
            mdg.add_interface(intf, (g, g1), ps)
            sds.append(g1)
            intfs.append(intf)
    return mdg, sds, intfs


def keys_of(g):
    """Type keys (number of nodes; 1 for the point cells of 0-d grids) of the cells of a grid or mortar grid."""
    import numpy as np

    if hasattr(g, "side_grids"):
        return [k for sg in g.side_grids.values() for k in keys_of(sg)]
    if g.dim == 0:
        return [1] * g.num_cells
    return [int(x) for x in np.diff(g.cell_nodes().indptr)]


def block_key(cb):
    t = cb.type
    fixed = {"vertex": 1, "line": 2, "triangle": 3, "quad": 4, "tetra": 4, "hexahedron": 8}
    if t in fixed:
        return fixed[t]
    if t == "polygon":
        return int(cb.data.shape[1])
    if t.startswith("polyhedron"):
        return int(t[len("polyhedron"):])
    raise ValueError(t)


def ints_exact(a):
    """Observed values as integers.  Everything written is an integer >= 1; a value read back that is not an integer
    (uninitialised memory, nan, inf, out of TLC's range) is recorded as -1: it is an observation that cannot equal
    what was written, not a harness failure."""
    import numpy as np

    out = []
    for x in np.asarray(a, dtype=float).ravel():
        if np.isfinite(x) and x == np.round(x) and abs(x) < 2 ** 30:
            out.append(int(x))
        else:
            out.append(-1)
    return out


# ------------------------------------------------------------------------------------------------
# one round trip on the real code (runs in a worker process)
# ------------------------------------------------------------------------------------------------
def _files(mdg):
    """[(kind, dim, entities)]: one vtu file per dimension for the subdomains and one for the interfaces."""
    out = []
    for dim in sorted({sd.dim for sd in mdg.subdomains()}):
        out.append(("sd", int(dim), list(mdg.subdomains(dim=int(dim)))))
    for dim in sorted({intf.dim for intf in mdg.interfaces(codim=1)}):
        out.append(("intf", int(dim), list(mdg.interfaces(dim=int(dim), codim=1))))
    return out


def _vtu_name(folder, kind, dim, step):
    stem = NAME + ("_mortar" if kind == "intf" else "") + f"_{dim}" + ("" if step is None else "_" + str(step).zfill(6))
    return folder / (stem + ".vtu")


def round_trip(case):
    """case: dict(spec, route, steps, seed, via, folder[, hist]) -> dict(in=..., out=...) for J_ExportImport."""
    import random

    import meshio
    import numpy as np
    import porepy as pp

    spec, route, steps = case["spec"], case["route"], list(case["steps"])
    folder = Path(case["folder"])
    rng = random.Random(case["seed"])
    mdg, sds, intfs = build(spec)
    captured = {}
    orig_write = meshio.write

    def spy(file_name, mesh, **kw):
        captured[str(file_name)] = mesh
        return orig_write(file_name, mesh, **kw)

    mixin = route.startswith("mixin")
    hist = case.get("hist")
    model = ex = None
    err = ""
    files = _files(mdg)
    ents = [e for _, _, es in files for e in es]
    ncell = sum(e.num_cells for e in ents)
    # pairwise distinct integers over all steps and cells; the scalar and the three vector components
    pool = rng.sample(range(1, 4 * ncell * len(steps) * 3 + 50), 4 * ncell * len(steps))
    it = iter(pool)
    written = []  # per step: {entity: (u, v)}
    for _ in steps:
        w = {}
        for e in ents:
            u = [next(it) for _ in range(e.num_cells)]
            v = [[next(it), next(it), next(it)] for _ in range(e.num_cells)]
            w[e] = (u, v)
        written.append(w)

    meshio.write = spy
    try:
        if mixin:
            model = _Model(mdg, folder, hist[0])
            ex = model.exporter
        else:
            ex = pp.Exporter(mdg, NAME, folder_name=folder)
        for k, s in enumerate(steps):
            w = written[k]
            if case["via"] == "state":
                for e in ents:
                    d = mdg.subdomain_data(e) if e in sds else mdg.interface_data(e)
                    pp.set_solution_values("u", np.array(w[e][0], dtype=float), d, time_step_index=0)
                    pp.set_solution_values("v", np.array(w[e][1], dtype=float).ravel(), d, time_step_index=0)
                data = ["u", "v"]
            else:
                # (grid, key, array) tuples in md-grid order or, "permuted", in reverse md-grid order
                order = list(enumerate(ents)) if case["via"] != "permuted" else list(enumerate(ents))[::-1]
                data = [(e, "u", np.array(w[e][0], dtype=float)) for _, e in order]
                # vectors alternately flat (cell by cell) and as a 3 x num_cells array
                data += [(e, "v", np.array(w[e][1], dtype=float).ravel() if i % 2 == 0
                          else np.array(w[e][1], dtype=float).T.copy()) for i, e in order]
            if mixin:
                model.data = data
                model.time_manager.time = float(Fraction(*hist[k][0]))
                model.time_manager.dt = float(Fraction(*hist[k][1]))
                model.write_pvd_and_vtu()
            elif route == "vtu":
                ex.write_vtu(data)
            else:
                ex.write_vtu(data, time_step=s)
        if route == "pvd":
            ex.write_pvd()
    except Exception as e:  # the export raising is an outcome (clause ImportSucceeds: no round trip), not a harness failure
        err = f"export: {type(e).__name__}: {e}"[:300]
    finally:
        meshio.write = orig_write

    def step_of(k):
        if mixin:
            return k
        return None if route == "vtu" else steps[k]

    # what was handed to meshio, file by file and step by step (mechanism)
    blocks = []
    for kind, dim, _ in files:
        per_step = []
        for k in range(len(steps)):
            try:
                geom = ex.meshio_geom[dim] if kind == "sd" else ex.m_meshio_geom[dim]
                mesh = captured[str(_vtu_name(folder, kind, dim, step_of(k)))]
                per_step.append([dict(key=block_key(cb), ids=[int(i) for i in geom.cell_ids[b]],
                                      data=ints_exact(mesh.cell_data["u"][b]))
                                 for b, cb in enumerate(mesh.cells)])
            except Exception:  # nothing (usable) was handed to meshio for this file: an empty block list is observed
                per_step.append([])
        blocks.append(per_step)

    # ---- import into a freshly built copy
    mdg2, sds2, intfs2 = build(spec)
    twin = dict(zip(sds, sds2))
    twin.update(zip(intfs, intfs2))
    index, tm2 = -1, None
    try:
        if err:
            raise RuntimeError(err)
        if mixin:
            model2 = _Model(mdg2, folder, hist[0])
            tm2 = model2.time_manager
            if route == "mixin_pvd":
                model2.load_data_from_pvd(folder / (NAME + ".pvd"), False, keys=["u", "v"])
            elif route == "mixin_mdgpvd":
                last = len(steps) - 1
                model2.load_data_from_pvd(folder / f"{NAME}_{str(last).zfill(6)}.pvd", True, keys=["u", "v"])
            else:
                last = len(steps) - 1
                model2.load_data_from_vtu([_vtu_name(folder, kd, dm, last) for kd, dm, _ in files], last,
                                          keys=["u", "v"])
            index = int(model2.exporter._time_step_counter)
        else:
            ex2 = pp.Exporter(mdg2, NAME, folder_name=folder)
            if route == "vtu":
                ex2.import_state_from_vtu([_vtu_name(folder, kd, dm, None) for kd, dm, _ in files], keys=["u", "v"])
                index = steps[-1]
            elif route == "mdgpvd":
                index = ex2.import_from_pvd(folder / f"{NAME}_{str(steps[-1]).zfill(6)}.pvd", True, keys=["u", "v"])
            else:
                index = ex2.import_from_pvd(folder / (NAME + ".pvd"), False, keys=["u", "v"])
    except Exception as e:  # the import raising is an outcome (clause ImportSucceeds), not a harness failure
        err = err or f"{type(e).__name__}: {e}"[:300]

    fin, fout = [], []
    for f, (kind, dim, es) in enumerate(files):
        fin.append(dict(name=f"{kind}{dim}", layout=[keys_of(e) for e in es],
                        wu=[[w[e][0] for e in es] for w in written],
                        wv=[[w[e][1] for e in es] for w in written]))
        ru, rv = [], []
        for e in es:
            t = twin[e]
            d = mdg2.subdomain_data(t) if kind == "sd" else mdg2.interface_data(t)
            sol = d.get(pp.TIME_STEP_SOLUTIONS, {})
            ru.append(ints_exact(sol["u"][0]) if "u" in sol and 0 in sol["u"] else [])
            rv.append(ints_exact(sol["v"][0]) if "v" in sol and 0 in sol["v"] else [])
        fout.append(dict(ru=ru, rv=rv, blocks=blocks[f]))
    out = dict(error=err, index=int(index), files=fout)
    inp = dict(kind=case["kind"], route=route, steps=steps, spec=spec, via=case["via"], seed=case["seed"], files=fin)
    if mixin:
        inp["hist"] = hist
        inp["steps"] = list(range(len(steps)))
        out["time"] = _rat_obs(tm2.time) if not err else [0, 1]
        out["dt"] = _rat_obs(tm2.dt) if not err else [0, 1]
    shutil.rmtree(folder, ignore_errors=True)
    return {"in": inp, "out": out}


def _rat(x):
    f = Fraction(x)  # exact: the values used are dyadic
    if f.denominator > 2 ** 20 or abs(f.numerator) > 2 ** 30:
        raise RuntimeError(f"not a small dyadic rational: {x!r}")
    return [f.numerator, f.denominator]


def _rat_obs(x):
    """An observed time: anything that is not one of the small dyadic rationals written is recorded as -1."""
    try:
        return _rat(x)
    except Exception:
        return [-1, 1]


def _Model(mdg, folder, first):
    """The DataSavingMixin with just enough of a model around it: md-grid, time manager, params, units."""
    import porepy as pp
    from porepy.viz.data_saving_model_mixin import DataSavingMixin

    class M(DataSavingMixin):
        def __init__(self):
            self.mdg = mdg
            self.params = {"folder_name": str(folder), "file_name": NAME}
            self.time_manager = pp.TimeManager(schedule=[0.0, 1000.0], dt_init=1.0, constant_dt=True)
            self.restart_options = {}
            self.units = pp.Units()
            self.data = []

        def data_to_export(self):
            return self.data

    m = M()
    m.initialize_data_saving()
    return m


def time_info(hist, folder, kinds):
    """TimeManager.write_time_information after every pair of hist; a fresh manager loads each file."""
    import json

    import numpy as np
    import porepy as pp

    folder = Path(folder)
    path = folder / "sub" / "times.json"
    tm = pp.TimeManager(schedule=[0.0, 1000.0], dt_init=1.0, constant_dt=True)
    loaded, restart, files = [], [], []
    for k, (t, d) in enumerate(hist):
        for name, (n, dn) in (("time", t), ("dt", d)):
            kind = kinds[k % len(kinds)]
            val = float(Fraction(n, dn))
            if dn == 1 and kind == "npint":
                val = np.int64(n)
            elif dn == 1 and kind == "int":
                val = int(n)
            setattr(tm, name, val)
        tm.write_time_information(path)
        with open(path) as fh:
            raw = json.load(fh)
        files.append(dict(time=[_rat(x) for x in raw["time"]], dt=[_rat(x) for x in raw["dt"]]))
        tm2 = pp.TimeManager(schedule=[0.0, 1000.0], dt_init=1.0, constant_dt=True)
        tm2.load_time_information(path)
        loaded.append(dict(times=[_rat(x) for x in tm2.exported_times], dts=[_rat(x) for x in tm2.exported_dt]))
        tm2.set_time_and_dt_from_exported_steps()
        restart.append(dict(time=_rat(tm2.time), dt=_rat(tm2.dt), times=[_rat(x) for x in tm2.exported_times],
                            dts=[_rat(x) for x in tm2.exported_dt]))
    shutil.rmtree(folder, ignore_errors=True)
    return {"in": dict(kind="timeinfo", hist=hist, kinds=kinds),
            "out": dict(error="", files=files, loaded=loaded, restart=restart)}


# ------------------------------------------------------------------------------------------------
# the check
# ------------------------------------------------------------------------------------------------
ALL_CLAUSES = CLAUSES + ["TimeRestored", "TimeInfoRestored", "TimeInfoRestart"]
TIME_VALS = [[0, 1], [1, 2], [3, 1], [5, 4]]
DT_VALS = [[1, 1], [1, 4], [3, 8]]
KINDS = [["float"], ["npint", "float"], ["int"]]


def _work(case):
    """Worker entry: one case on the real code (never raises; a harness problem comes back as 'machinery')."""
    try:
        if case["kind"] == "timeinfo":
            return time_info(case["hist"], case["folder"], case["kinds"])
        return round_trip(case)
    except Exception:
        return {"machinery": traceback.format_exc(), "case": case}


def _enumerate(ctx):
    q = ctx.quick
    fams = [dict(dim=2, keys={3, 4, 5}, maxcells=3 if q else 5, maxgrids=2, small=2 if q else 3, fracs={False, True}),
            dict(dim=3, keys={6, 8, 10}, maxcells=2 if q else 4, maxgrids=2 if q else 3, small=0, fracs={False})]
    rset = lambda xs: tlc.Raw("{" + ", ".join(tlc.tla(x) for x in xs) + "}")
    consts = dict(Families=rset(fams), StepLists=rset(STEP_LISTS[:2] if q else STEP_LISTS), OneStep=ONE_STEP,
                  TimeVals=rset(TIME_VALS[:3] if q else TIME_VALS), DtVals=rset(DT_VALS[:2] if q else DT_VALS),
                  MaxHist=2 if q else 3)
    m, cf = tlc.gen(ctx.work / "enum", "MC_ExportImport", "ExportImport", consts,
                    invariants=["Permutation", "RoundTrip", "Naive", "LatestLaw", "Emit", "TimeInfoLaw", "TEmit"])
    return ctx.tlc(m, cf, allow_violation=False, workers=8)


def _cases(ctx, records):
    cases = []
    lay = [r for r in records if "layout" in r]
    for i, r in enumerate(sorted(lay, key=lambda r: (r["dim"], r["layout"], r["route"], r["steps"], r["frac"], r["via"]))):
        cases.append(dict(kind="rt", spec=dict(dim=r["dim"], layout=r["layout"], frac=bool(r["frac"])), route=r["route"],
                          steps=r["steps"], seed=i, via=r["via"]))
    # tetrahedral and Cartesian grids sharing a file (every cell becomes a polyhedron), both orders, and alone
    for j, lay3 in enumerate([[[4] * 6], [["c", 2]], [[4] * 6, ["c", 2]], [["c", 2], [4] * 6],
                              [[4] * 6, ["c", 1], [4] * 6]]):
        cases.append(dict(kind="rt", spec=dict(dim=3, layout=lay3, frac=False), route="vtu", steps=[ONE_STEP],
                          seed=200000 + j, via="permuted" if len(lay3) > 1 else "tuples"))
    # fracture networks from the library: 0-d intersections, two-sided mortar grids, simplex cells
    for i, lib in enumerate(["cart2", "simplex2"] + ([] if ctx.quick else ["cart3"])):
        cases.append(dict(kind="rt", spec=dict(lib=lib), route="mdgpvd", steps=[ONE_STEP], seed=9000 + i, via="permuted"))
        cases.append(dict(kind="rt", spec=dict(lib=lib), route="pvd", steps=[1, 2], seed=9100 + i, via="state"))
    # DataSavingMixin: (t0, dt) in quarters, three exported steps; plus one long run with twelve steps
    combos = [(0, 4), (0, 2), (0, 8), (4, 4)] if ctx.quick else [(0, 4), (0, 2), (0, 8), (4, 4), (0, 1), (8, 6), (0, 12)]
    layouts = [[[3, 4, 3]], [[4, 3], [5, 3]]]
    i = 0
    for t0, dt in combos:
        for route in ("mixin_pvd", "mixin_mdgpvd", "mixin_vtu"):
            hist = [[_rat(Fraction(t0 + k * dt, 4)), _rat(Fraction(dt, 4))] for k in range(3)]
            cases.append(dict(kind="mixin", spec=dict(dim=2, layout=layouts[i % 2], frac=i % 2 == 1), route=route,
                              steps=[0, 1, 2], seed=7000 + i, via="permuted" if i % 2 == 1 else "tuples", hist=hist))
            i += 1
    hist = [[_rat(Fraction(k)), _rat(Fraction(1))] for k in range(12)]
    for route in ("mixin_pvd", "mixin_mdgpvd"):
        cases.append(dict(kind="mixin", spec=dict(dim=2, layout=[[4, 3]], frac=False), route=route,
                          steps=list(range(12)), seed=7900, via="tuples", hist=hist))
    for k, h in enumerate(sorted(r["hist"] for r in records if "hist" in r)):
        cases.append(dict(kind="timeinfo", hist=h, kinds=KINDS[k % 3]))
    return cases


def _record(c):
    i, o = c["in"], c["out"]
    if i["kind"] == "timeinfo":
        return dict(kind="timeinfo", hist=i["hist"], kinds=i["kinds"])
    rec = dict(kind=i["kind"], spec=i["spec"], route=i["route"], steps=i["steps"], via=i["via"], seed=i["seed"],
               layouts=[f["layout"] for f in i["files"]], error=o["error"], index=o["index"],
               block_keys=[[b["key"] for b in f["blocks"][-1]] for f in o["files"]])
    if "hist" in i:
        rec["hist"] = i["hist"]
        rec["time"], rec["dt"] = o["time"], o["dt"]
    return rec


def _detail(c):
    i, o = c["in"], c["out"]
    if i["kind"] == "timeinfo":
        return f"hist={i['hist']} loaded={o['loaded'][-1]} restart={o['restart'][-1]}"
    if o["error"]:
        return f"spec={i['spec']} route={i['route']} import raised {o['error'][:120]}"
    f0i, f0o = i["files"][0], o["files"][0]
    extra = f" time={o.get('time')} dt={o.get('dt')} hist={i.get('hist')}" if "hist" in i else ""
    return (f"spec={i['spec']} route={i['route']} steps={i['steps']} restored index={o['index']} "
            f"written(last)={f0i['wu'][-1]} restored={f0o['ru']}{extra}")


def _init_worker(jit_off):
    """Before porepy / numba are imported.  Exporter._export_grid_2d re-creates its numba function on every call
    (about 30 ms of cache loading each); the quick tier runs the same Python source with the JIT switched off, the
    thorough tier runs it jitted."""
    import os

    if jit_off:
        os.environ["NUMBA_DISABLE_JIT"] = "1"


def _execute(ctx, cases, pool=True):
    for k, c in enumerate(cases):
        c["folder"] = str(ctx.work / "cwd" / f"case{k}")
    if not pool:
        _init_worker(ctx.quick)
        res = [_work(c) for c in cases]
    else:
        import multiprocessing as mp

        # fresh interpreters: porepy (numba, OpenMP) is never imported in the harness process itself
        with ProcessPoolExecutor(max_workers=WORKERS, mp_context=mp.get_context("spawn"), initializer=_init_worker,
                                 initargs=(ctx.quick,)) as ex:
            res = list(ex.map(_work, cases, chunksize=8))
    for r in res:
        if "machinery" in r:
            raise RuntimeError(f"harness failure on case {r['case']}:\n{r['machinery']}")
    return res


def _judge(ctx, res, prefix=""):
    for v in ctx.judge("J_ExportImport", res, ALL_CLAUSES + MECH, tag="judge"):
        c = res[v["case"] - 1]
        if v["clause"] in MECH:
            ctx.drift(f"exported block layout differs from VtuLayout.Export: spec={c['in']['spec']} route={c['in']['route']}")
        else:
            ctx.violation(v["clause"], _record(c), prefix + _detail(c))


def run(ctx):
    ctx.rule = ("one evaluation = one export -> import round trip of the real pp.Exporter on a real md-grid realising a "
                "TLC-enumerated layout (entities -> cell types) and export configuration (route vtu / mdg-pvd / pvd with a "
                "list of time steps, with or without 1-d subdomains + interfaces), one round trip through the "
                "DataSavingMixin, or one write/load history of the time information file; a round trip is non-trivial "
                "when the grouping by cell type really permutes cells (concatenated block ids not sorted) or several "
                "time steps were exported; distinct = (layouts of all files, route, steps)")
    ctx.assumptions = ["cell data are pairwise distinct integers (a scalar and a 3-vector per cell) stored as float64",
                       "the md-grid read into is a freshly built copy of the one exported (same construction)",
                       "times and step sizes are small dyadic rationals",
                       "quick tier: numba JIT disabled in the worker processes (same Python source interpreted); "
                       "thorough tier: JIT enabled"]
    import time as _t
    t0 = _t.time()
    en = _enumerate(ctx)
    cases = _cases(ctx, en.records)
    t1 = _t.time()
    res = _execute(ctx, cases)
    ctx.extra["wall_enum_s"], ctx.extra["wall_real_code_s"] = round(t1 - t0, 1), round(_t.time() - t1, 1)
    for c, r in zip(cases, res):  # the binding itself: the strip mesh realises the enumerated layout
        top = next((f for f in r.get("in", {}).get("files", []) if f["name"] == "sd2"), None)
        if c["kind"] == "rt" and c["spec"].get("dim") == 2 and top["layout"] != c["spec"]["layout"]:
            raise RuntimeError(f"strip mesh does not realise the layout {c['spec']}")
    _judge(ctx, res)
    n = dict(rt=0, mixin=0, timeinfo=0)
    for c, r in zip(cases, res):
        n[c["kind"]] += 1
        if c["kind"] == "timeinfo":
            ctx.case(key=("timeinfo", str(c["hist"])), nontrivial=len(c["hist"]) > 1)
            continue
        lays = [f["layout"] for f in r["in"]["files"]]
        ids = [[i for b in f["blocks"][-1] for i in b["ids"]] for f in r["out"]["files"]]
        ctx.case(key=(c["kind"], str(lays), c["route"], str(c["steps"]), c["via"]),
                 nontrivial=any(x != sorted(x) for x in ids) or len(c["steps"]) > 1)
    shown = 0
    for c, r in zip(cases, res):
        if c["kind"] != "timeinfo" and shown < 4 and (shown % 2 == 0) == (len(c["steps"]) == 1):
            ids = [i for b in r["out"]["files"][0]["blocks"][-1] for i in b["ids"]]
            if ids != sorted(ids):
                shown += 1
                ctx.sample(dict(spec=r["in"]["spec"], route=r["in"]["route"], steps=r["in"]["steps"],
                                written=r["in"]["files"][0]["wu"][-1], restored=r["out"]["files"][0]["ru"],
                                index=r["out"]["index"],
                                blocks=[[b["key"], b["ids"]] for b in r["out"]["files"][0]["blocks"][-1]]))
    ctx.sample(next(r for c, r in zip(cases, res) if c["kind"] == "timeinfo" and len(c["hist"]) > 1))
    ctx.extra.update(round_trips=n["rt"], mixin_round_trips=n["mixin"], time_histories=n["timeinfo"])
    ctx.exhaustive = True


def replay(ctx, body):
    rec = body["record"]
    if rec.get("kind") == "timeinfo":
        case = dict(kind="timeinfo", hist=rec["hist"], kinds=rec["kinds"])
    else:
        case = dict(kind=rec.get("kind", "rt"), spec=rec["spec"], route=rec["route"], steps=rec["steps"],
                    seed=rec["seed"], via=rec["via"])
        if "hist" in rec:
            case["hist"] = rec["hist"]
    res = _execute(ctx, [case], pool=False)
    _judge(ctx, res, prefix="replayed: ")
    ctx.case(key="replay")
    ctx.sample(_record(res[0]))


# ------------------------------------------------------------------------------------------------
# known-finding matchers (structural)
# ------------------------------------------------------------------------------------------------
def _lexicographic_step(rec):
    """import_from_pvd sorts the time-step attributes of the pvd file as strings: with step indices of different
    numbers of digits the step restored is not the latest one."""
    steps = [int(s) for s in rec["steps"]]
    lex = max(steps, key=lambda s: "%f" % s)
    return (rec["route"] in ("pvd", "mixin_pvd") and not rec["error"] and lex != max(steps)
            and rec["clause"] in ("LatestStep", "RestoredIsWritten", "TimeRestored") and rec["index"] == lex)


def _polyhedra_blocks_not_ascending(rec):
    """3-d files written with polyhedron blocks whose node counts are not ascending cannot be read back (meshio
    regroups the cell data by ascending node count but keeps the blocks in file order)."""
    ks = rec["block_keys"][0]
    three_d = rec["spec"].get("dim") == 3
    return (three_d and len(ks) > 1 and ks != sorted(ks)
            and rec["clause"] in ("ImportSucceeds", "RestoredIsWritten"))


def _mixin_time_index(rec):
    """DataSavingMixin.load_data_from_pvd (plain pvd) takes int(time) of the last pvd entry as the index into the
    time history: wrong whenever the exported times are not 0, 1, 2, ..."""
    if rec["route"] != "mixin_pvd" or "hist" not in rec:
        return False
    times = [Fraction(*h[0]) for h in rec["hist"]]
    return (times != [Fraction(k) for k in range(len(times))]
            and rec["clause"] in ("TimeRestored", "LatestStep", "RestoredIsWritten", "ImportSucceeds"))


MATCHERS = {
    "pvd_steps_sorted_as_strings": _lexicographic_step,
    "polyhedron_blocks_not_ascending": _polyhedra_blocks_not_ascending,
    "mixin_pvd_time_used_as_index": _mixin_time_index,
}
