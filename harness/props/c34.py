"""C34 Point-set uniquification and set membership are correct.

spec/ref/Uniquify.tla       Ref (one representative per cluster, first-occurring member, order of first occurrence,
                            both index maps), Impl (the algorithm as coded), Straddle (the known split);
spec/ref/UniquifyEnum.tla   TLC enumerates all point sequences over pools of well-separated clusters with close
                            norms and checks  Impl = Ref <=> ~Straddle  (design);
spec/ref/SetMember.tla, SetMemberEnum.tla   brute-force reference + enumerator for ismember_columns / intersect_sets;
spec/trace/J_Uniquify.tla   TLC judges what the real functions returned -> verdict (Mechanism = conformance -> drift).

Lattice points are realised in floats by scaling: "dy" = units of 2^-10 (every float operation of the code is exact, so
even norm differences of exactly tol behave as in exact arithmetic), "ms" = units of 1e-3 and "rot" = 2^-10 and a
rotation by the 3-4-5 angle (both inexact: inputs with two norms exactly tol apart are left to "dy")."""
from __future__ import annotations

from concurrent.futures import ThreadPoolExecutor

import numpy as np

from .. import tlc

LEVEL = "model_checking"
U_PROP = ["NoError", "Count", "Representative", "Points", "IndexMap"]
FU_PROP = ["FU_Points", "FU_Edges", "FU_Removed"]
M_PROP = ["MemberFlags", "Witness", "IA", "IB", "AinB", "InterSets"]
ALL = ["InFamily", "StraddleFlag"] + U_PROP + FU_PROP + M_PROP + ["Mechanism", "FU_Mechanism"]
CHUNK = 30000
TOL = 10

# pools of lattice points (units): clusters of diameter <= tol/5 = 2, >= 10 tol = 100 apart, norms close to each other
POOLS = {
    # the design's pool: A on +x {100,101}, B on +y {109,110,111}, C on -x {120}
    "P3": [[100, 0, 0], [101, 0, 0], [0, 109, 0], [0, 110, 0], [0, 111, 0], [-120, 0, 0]],
    # 2-D, equal norms in different clusters: A +x {100,101}, B +y {100,102}, C -x {100}, D -y {110,111}
    "P2": [[100, 0], [101, 0], [0, 100], [0, 102], [-100, 0], [0, -110], [0, -111]],
    # 1-D (two half-axes): A {100,101,102}, B {-109,-110,-111}
    "P1": [[100], [101], [-109], [-110], [-111], [102]],
    # 3-D off the axes (integer and non-integer norms): A (60,80,0) norm 100 + neighbours, B (0,66,88) norm 110 +, C
    "P3o": [[60, 80, 0], [60, 80, 1], [0, 66, 88], [0, 67, 88], [-100, 0, 50], [-100, 1, 50]],
}


# ----------------------------------------------------------------- float realisation
def embed(lat, nd, emb):
    L = np.array(lat, dtype=float).reshape(len(lat), nd).T  # nd x n
    if emb == "dy":
        return L * 2.0 ** -10, TOL * 2.0 ** -10
    if emb == "ms":
        return L * 1e-3, TOL * 1e-3
    if emb == "rot":
        R = np.eye(nd)
        R[:2, :2] = [[0.6, -0.8], [0.8, 0.6]]
        return (R @ L) * 2.0 ** -10, TOL * 2.0 ** -10
    raise ValueError(emb)


def _decoder(P, lat):
    table = {}
    for i in range(P.shape[1]):
        table.setdefault(P[:, i].tobytes(), lat[i])
    return lambda col: table.get(np.ascontiguousarray(col, dtype=float).tobytes(), [])


def run_uniquify(lat, nd, emb):
    from porepy.utils.array_operations import uniquify_point_set

    P, tol = embed(lat, nd, emb)
    try:
        up, n2o, o2n = uniquify_point_set(P, tol)
    except Exception as e:  # noqa
        return dict(raised=type(e).__name__, out=dict(pts=[], n2o=[], o2n=[]))
    dec = _decoder(P, lat)
    return dict(raised="", out=dict(pts=[dec(up[:, k]) for k in range(up.shape[1])],
                                    n2o=[int(x) + 1 for x in n2o], o2n=[int(x) + 1 for x in o2n]))


def run_fracs_uniquify(lat, nd, emb, edges):
    import porepy as pp

    P, tol = embed(lat, nd, emb)
    E = np.array([[e[0] - 1, e[1] - 1, e[2]] for e in edges], dtype=int).reshape(len(edges), 3).T
    try:
        up, eu, removed = pp.fracs.utils.uniquify_points(P, E, tol)
    except Exception as e:  # noqa
        return dict(raised=type(e).__name__, out=dict(pts=[], edges=[], removed=[]))
    dec = _decoder(P, lat)
    return dict(raised="", out=dict(pts=[dec(up[:, k]) for k in range(up.shape[1])],
                                    edges=[[int(c[0]) + 1, int(c[1]) + 1, int(c[2])] for c in np.asarray(eu).T],
                                    removed=[int(x) + 1 for x in np.asarray(removed).ravel()]))


def _cols(a, nd):
    return np.array(a, dtype=int).reshape(len(a), nd).T


def run_ismember(a, b, nd, sort, oned):
    from porepy.utils.array_operations import ismember_columns

    try:
        if oned:
            ismem, ia = ismember_columns(np.array([c[0] for c in a], dtype=int), np.array([c[0] for c in b], dtype=int))
        else:
            ismem, ia = ismember_columns(_cols(a, nd), _cols(b, nd), sort=sort)
    except Exception as e:  # noqa
        return dict(raised=type(e).__name__, out=dict(ismem=[], ia=[]))
    return dict(raised="", out=dict(ismem=[bool(x) for x in ismem], ia=[int(x) + 1 for x in ia]))


def run_intersect(a, b, nd, tn, td, scale):
    from porepy.utils.array_operations import intersect_sets

    A, B = _cols(a, nd), _cols(b, nd)
    try:
        if tn == 0:
            ia, ib, ainb, inter = intersect_sets(A, B)  # default tolerance: exact comparison of integers
        else:
            ia, ib, ainb, inter = intersect_sets(A * scale, B * scale, tol=tn / td * scale)
    except Exception as e:  # noqa
        return dict(raised=type(e).__name__, out=dict(ia=[], ib=[], ainb=[], inter=[]))
    return dict(raised="", out=dict(ia=[int(x) + 1 for x in ia], ib=[int(x) + 1 for x in ib],
                                    ainb=[bool(x) for x in ainb], inter=[[int(j) + 1 for j in l] for l in inter]))


# ----------------------------------------------------------------- input families
def enum_pool(ctx, name, maxlen, workers=4):
    m, cf = tlc.gen(ctx.work / f"enum_{name}", "MC_UniquifyEnum", "UniquifyEnum",
                    dict(Pool=POOLS[name], Tol=TOL, MaxLen=maxlen),
                    invariants=["FamilyOK", "RefLaws", "ImplIffNoStraddle", "Emit"])
    res = ctx.tlc(m, cf, workers=workers, allow_violation=False)
    if len(res.records) != res.distinct:
        raise RuntimeError("emitted records / states mismatch")
    return res.records


# column sets of the enumerated membership / intersection inputs: non-negative entries (permuted twins, a column that
# is a twin only after sorting) and entries of both signs (columns that differ in sign / order only)
MEMBER_COLS = {"pos": [[0, 1], [1, 0], [1, 1], [0, 2]], "neg": [[-2, 3], [-1, -1], [0, -1], [-1, 3]]}


def enum_member(ctx, which, maxa, maxb, workers=4):
    cols = MEMBER_COLS[which]
    m, cf = tlc.gen(ctx.work / f"enum_member_{which}", "MC_SetMemberEnum", "SetMemberEnum",
                    dict(Cols=tlc.Raw("{" + ", ".join(tlc.tla(c) for c in cols) + "}"), MaxA=maxa, MaxB=maxb, TolN=3, TolD=2),
                    invariants=["Laws", "Emit"])
    res = ctx.tlc(m, cf, workers=workers, allow_violation=False)
    return res.records


def random_clusters(rng, n_inputs):
    """lattice point sequences: clusters = centre + offsets of length <= 1, centres with norms in [95, 128] and
    >= 10 tol + 2 apart; members in random order with repetitions (membership in the family is re-checked by TLC)"""
    out = []
    while len(out) < n_inputs:
        nd = rng.choice([1, 2, 2, 3, 3])
        centres = []
        for _ in range(40):
            if nd == 1:
                c = [rng.choice([-1, 1]) * rng.randint(96, 127)]
            else:
                v = np.array([rng.gauss(0, 1) for _ in range(nd)])
                c = [int(round(x)) for x in v / np.linalg.norm(v) * rng.uniform(96, 127)]
            if all(sum((x - y) ** 2 for x, y in zip(c, o)) >= (10 * TOL + 3) ** 2 for o in centres):
                centres.append(c)
            if len(centres) >= rng.randint(2, 5):
                break
        members = []
        for c in centres:
            offs = [[0] * nd] + [[(s if k == ax else 0) for k in range(nd)] for ax in range(nd) for s in (-1, 1)]
            # diameter <= 2: the centre and one opposite pair of neighbours, or any subset of it
            ax = rng.randrange(nd)
            cand = [offs[0], offs[1 + 2 * ax], offs[2 + 2 * ax]]
            for o in rng.sample(cand, rng.randint(1, 3)):
                members.append([x + d for x, d in zip(c, o)])
        n = rng.randint(1, 10)
        seq = [rng.choice(members) for _ in range(n)]
        out.append(dict(nd=nd, pts=seq))
    return out


def random_edges(rng, n, k):
    return [[rng.randint(1, n), rng.randint(1, n), rng.randint(0, 3)] for _ in range(k)]


def random_member(rng, n_inputs):
    out = []
    for _ in range(n_inputs):
        nd = rng.choice([1, 2, 3])
        na, nb = rng.randint(0, 7), rng.randint(0, 7)
        lo, hi = rng.choice([(0, 1), (0, 2), (0, 3), (-3, 3), (-5, -1), (-2, 1)])  # ranges with negative entries too
        out.append(dict(nd=nd, a=[[rng.randint(lo, hi) for _ in range(nd)] for _ in range(na)],
                        b=[[rng.randint(lo, hi) for _ in range(nd)] for _ in range(nb)]))
    return out


# ----------------------------------------------------------------- cases
def u_case(lat, nd, emb):
    r = run_uniquify(lat, nd, emb)
    return dict(fn="uniquify", emb=emb, nd=nd, **{"in": dict(pts=lat, tol=TOL)}, out=r["out"], raised=r["raised"])


def fu_case(lat, nd, emb, edges):
    r = run_fracs_uniquify(lat, nd, emb, edges)
    return dict(fn="uniquify_points", emb=emb, nd=nd, **{"in": dict(pts=lat, tol=TOL, edges=edges)}, out=r["out"],
                raised=r["raised"])


def m_cases(a, b, nd):
    out = []
    for sort in (True, False):
        r = run_ismember(a, b, nd, sort, False)
        out.append(dict(fn="ismember", var=f"sort={sort}", nd=nd, **{"in": dict(a=a, b=b, sort=sort)}, out=r["out"],
                        raised=r["raised"]))
    # 1-d arrays: every column is coded as one integer (balanced base 16: injective for |entries| <= 7)
    a1 = [[sum(x * 16 ** k for k, x in enumerate(c))] for c in a]
    b1 = [[sum(x * 16 ** k for k, x in enumerate(c))] for c in b]
    r = run_ismember(a1, b1, 1, True, True)
    out.append(dict(fn="ismember", var="1d", nd=1, **{"in": dict(a=a1, b=b1, sort=False)}, out=r["out"],
                    raised=r["raised"]))
    for tn, td, scale in ((0, 1, 1), (3, 2, 2.0 ** -4), (3, 2, 1), (1, 2, 1e-2), (5, 2, 2.0 ** -4)):
        r = run_intersect(a, b, nd, tn, td, scale)
        out.append(dict(fn="intersect", var=f"tol={tn}/{td} scale={scale}", nd=nd,
                        **{"in": dict(a=a, b=b, tn=tn, td=td)}, out=r["out"], raised=r["raised"]))
    return out


def judge_chunk(ctx, tag, cases, clauses=ALL):
    return ctx.judge("J_Uniquify", cases, clauses, workers=6, tag=tag)


def classify(ctx, tag, inputs):
    """TLC says which (random) inputs are in the family / have a norm tie"""
    cases = [dict(fn="uniquify", **{"in": dict(pts=i["pts"], tol=TOL)}, out=dict(pts=[], n2o=[], o2n=[]), raised="")
             for i in inputs]
    recs = ctx.judge("J_Uniquify", cases, ["InFamily", "TieFlag"], workers=4, tag=tag)
    bad = {r["case"] for r in recs if r.get("clause") == "InFamily"}
    tie = {r["case"] for r in recs if r.get("tag") == "tie"}
    return [dict(i, tie=(k + 1) in tie) for k, i in enumerate(inputs) if (k + 1) not in bad]


def _rec(c):
    return {k: c[k] for k in ("fn", "emb", "var", "nd", "in", "out", "raised") if k in c}


def dispatch(ctx, cases, verdicts):
    by_case = {}
    for v in verdicts:
        by_case.setdefault(v["case"], []).append(v)
    for k in range(1, len(cases) + 1):
        c = cases[k - 1]
        vs = by_case.get(k, [])
        clauses = [v["clause"] for v in vs if "clause" in v]
        if "InFamily" in clauses:
            raise RuntimeError(f"generated input outside the family: {c['in']}")
        straddle = any(v.get("tag") == "straddle" for v in vs)
        rec = dict(_rec(c), conforms="Mechanism" not in clauses)
        if c["fn"] in ("uniquify", "uniquify_points"):
            if straddle != _straddles(rec["in"]["pts"], rec["in"]["tol"]):
                raise RuntimeError(f"matcher and Uniquify!Straddle disagree on {rec['in']}")
            ctx.extra["straddle_inputs"] = ctx.extra.get("straddle_inputs", 0) + (1 if straddle else 0)
        for cl in clauses:
            if cl == "Mechanism":
                ctx.drift(f"{c['fn']} left the algorithm model: in={c['in']} emb={c.get('emb')} out={c['out']}"
                          if len([d for d in ctx.drifts if d and d["what"]]) < 3 else "")
                continue
            known = any(k.get("status", "known") == "known" and k["matcher"] == "norm_straddle" for k in ctx.known) \
                and norm_straddle(dict(rec, clause=cl))
            if len(ctx.violations) >= 12 and not known:
                ctx.extra["violations_not_listed"] = ctx.extra.get("violations_not_listed", 0) + 1
                continue
            ctx.violation(cl, rec, f"{c['fn']} {c.get('emb') or c.get('var')} in={c['in']} out={c['out']} "
                          f"raised={c['raised']!r}")


def run(ctx):
    q = ctx.quick
    rng = ctx.rng
    ctx.rule = ("uniquify_point_set / fracs.utils.uniquify_points: every sequence of <= L points over pools of "
                "well-separated clusters with close norms (TLC-enumerated; 1-D, 2-D, 3-D on and off the axes) and seeded "
                "random cluster sets, realised in floats by three embeddings; ismember_columns (sorted / unsorted / 1-d) "
                "and intersect_sets (exact / three tolerances): every pair of column sequences over two sets of 4 columns "
                "(non-negative entries; entries of both signs; TLC-enumerated) and seeded random integer column sets "
                "(ranges with negative entries included); TLC judges every returned tuple; "
                "non-trivial classes = (function, embedding/variant, dimension, #points, #clusters or #members)")
    ctx.assumptions = ["well-separated clusters only: diameter <= tol/5, distance >= 10 tol (checked by TLC per input)",
                       "inexact embeddings (1e-3 scale, rotation) are not used for inputs with two norms exactly tol "
                       "apart; no pair of columns at distance exactly tol in intersect_sets"]
    plan = [("P3", 4), ("P2", 3)] if q else [("P3", 6), ("P2", 5), ("P1", 5), ("P3o", 5)]
    with ThreadPoolExecutor(6) as pool:
        fe = {n: pool.submit(enum_pool, ctx, n, L, 4 if q else 6) for n, L in plan}
        fm = [pool.submit(enum_member, ctx, w, 2 if q else 3, 2, 2) for w in ("pos", "neg")]
        rc = classify(ctx, "cls", random_clusters(rng, 250 if q else 4000))
        # (TLC prints in worker order: sort, so that the seeded choices below are reproducible)
        pools = {n: sorted(f.result(), key=lambda r: (len(r["ix"]), r["ix"])) for n, f in fe.items()}
        pairs = sorted([r for f in fm for r in f.result()], key=lambda r: (len(r["a"]), len(r["b"]), r["a"], r["b"]))
    cases = []
    # --- uniquification
    for name, recs in pools.items():
        nd = len(POOLS[name][0])
        for r in recs:
            lat = [POOLS[name][k - 1] for k in r["ix"]]
            embs = ["dy"] + ([] if r["tie"] else (["ms", "rot"] if nd > 1 else ["ms"]))
            if not q and name == "P3" and len(lat) == 6:
                embs = ["dy"]
            for e in embs:
                cases.append(u_case(lat, nd, e))
            if lat and (len(lat) <= 3 or rng.random() < (0.15 if q else 0.05)):
                cases.append(fu_case(lat, nd, "dy", random_edges(rng, len(lat), rng.randint(1, 4))))
    for i in rc:
        embs = ["dy"] + ([] if i["tie"] else (["ms", "rot"] if i["nd"] > 1 else ["ms"]))
        for e in embs:
            cases.append(u_case(i["pts"], i["nd"], e))
        cases.append(fu_case(i["pts"], i["nd"], embs[-1], random_edges(rng, len(i["pts"]), rng.randint(1, 5))))
    ctx.extra["random_cluster_inputs"] = len(rc)
    # --- membership / intersection
    for r in pairs:
        cases += m_cases(r["a"], r["b"], 2)
    for i in random_member(rng, 250 if q else 4000):
        cases += m_cases(i["a"], i["b"], i["nd"])
    for c in cases:
        if c["fn"] in ("uniquify", "uniquify_points"):
            ctx.case(key=(c["fn"], c["emb"], c["nd"], len(c["in"]["pts"]), len(c["out"]["n2o"]) if "n2o" in c["out"] else
                          len(c["out"]["pts"])), nontrivial=len(c["in"]["pts"]) >= 2)
        else:
            ctx.case(key=(c["fn"], c["var"], c["nd"], len(c["in"]["a"]), len(c["in"]["b"]), len(c["out"]["ia"])),
                     nontrivial=len(c["in"]["a"]) >= 1 and len(c["in"]["b"]) >= 1)
    size = 3600 if q else CHUNK
    chunks = [cases[i:i + size] for i in range(0, len(cases), size)]
    with ThreadPoolExecutor(3) as pool:
        futs = [pool.submit(judge_chunk, ctx, f"j{i}", ch) for i, ch in enumerate(chunks)]
        for ch, f in zip(chunks, futs):
            dispatch(ctx, ch, f.result())
    for c in (cases[7], cases[len(cases) // 2], cases[-1]):
        ctx.sample(_rec(c))
    ctx.exhaustive = False
    ctx.extra["cases_by_function"] = {f: sum(1 for c in cases if c["fn"] == f)
                                      for f in ("uniquify", "uniquify_points", "ismember", "intersect")}
    ctx.extra["pools"] = {n: len(r) for n, r in pools.items()}


def replay(ctx, body):
    rec = body["record"]
    fn, i = rec["fn"], rec["in"]
    if fn == "uniquify":
        c = u_case(i["pts"], rec["nd"], rec["emb"])
    elif fn == "uniquify_points":
        c = fu_case(i["pts"], rec["nd"], rec["emb"], i["edges"])
    else:
        allc = m_cases(i["a"], i["b"], rec["nd"]) if rec["var"] != "1d" else None
        if allc is None:
            r = run_ismember(i["a"], i["b"], 1, True, True)
            c = dict(fn="ismember", var="1d", nd=1, **{"in": i}, out=r["out"], raised=r["raised"])
        else:
            c = [x for x in allc if x["fn"] == fn and x["var"] == rec["var"]][0]
    ctx.case(key="replay")
    ctx.sample(_rec(c))
    dispatch(ctx, [c], judge_chunk(ctx, "replay", [c]))


# ----------------------------------------------------------------- known finding: norm pre-clustering split
def _gap_gt(n1, n2, t):
    """sqrt(n1) - sqrt(n2) > t, exactly, for squared norms n1 >= n2"""
    l = n1 - n2 - t * t
    return l > 0 and l * l > 4 * t * t * n2


def _straddles(pts, tol):
    """some cluster (points within tol/5 of each other) has members on both sides of
    (first norm of the running norm-cluster of the sorted sweep) + tol"""
    if not pts:
        return False
    sq = [sum(x * x for x in p) for p in pts]
    order = sorted(range(len(pts)), key=lambda i: (sq[i], i))
    ncl, first, cid = {}, sq[order[0]], 0
    for i in order:
        if _gap_gt(sq[i], first, tol):
            cid, first = cid + 1, sq[i]
        ncl[i] = cid
    for i in range(len(pts)):
        for j in range(i):
            d2 = sum((x - y) ** 2 for x, y in zip(pts[i], pts[j]))
            if 25 * d2 <= tol * tol and ncl[i] != ncl[j]:
                return True
    return False


def norm_straddle(rec):
    """the violation is the known split of uniquify_point_set: the input has a cluster straddling a norm-cluster
    boundary, the clause is one the split breaks, and the output is exactly what the modelled algorithm returns"""
    if rec.get("fn") not in ("uniquify", "uniquify_points"):
        return False
    if rec["clause"] not in ("Count", "Representative", "IndexMap", "FU_Points", "FU_Edges", "FU_Removed"):
        return False
    return bool(rec.get("conforms")) and _straddles(rec["in"]["pts"], rec["in"]["tol"])


MATCHERS = {"norm_straddle": norm_straddle}
