"""C40 Material tensors are symmetric and transform as tensors.

spec/ref/Tensor.tla (reference matrices, symmetry laws, rational rotations, invariants), spec/ref/TensorEnum.tla
(TLC enumerates parameter lattices, argument patterns, rotations, cell selections), spec/ref/TensorHeap.tla
(two-object heap: the copy-independence law on the model, for a deep and - as a sanity check - a shallow copy),
spec/trace/J_Tensor.tla (TLC judges what the real classes did).

Real code: porepy.params.tensor.SecondOrderTensor / FourthOrderTensor: constructors, rotate, restrict_to_cells,
copy.  Python builds the arrays, calls the methods, modifies arrays in place for the independence trials and
converts doubles to rationals."""
from __future__ import annotations

import numpy as np

from .. import codec, tlc

LEVEL = "translation_validation"
MAXDEN = 10 ** 4
LIMN = 10 ** 5  # keeps TLC's 32-bit cross-multiplications in range
CLAUSES = ["Symmetric", "MatchesRef", "Rotated", "EigenInvariants", "RestrictSelects", "RestrictKeepsOriginal",
           "CopyEqual", "CopyIndependent"]
# basis matrix of the additional constitutive parameter (= ExtraMat of Tensor.tla)
EXTRA = np.zeros((9, 9))
EXTRA[0, 4] = EXTRA[4, 0] = 1.0
BUMP = 16.0


def enc(x):
    """double -> [n, d]; [0, 0] = not within 1e-9 of a rational with denominator <= MAXDEN, or huge (no reference value
    is: entries are bounded by a few tens) - such a number fails every clause that mentions it"""
    try:
        if not np.isfinite(x):
            return [0, 0]
        r = codec.rat(float(x), MAXDEN)
    except codec.Inexact:
        return [0, 0]
    return r if abs(r[0]) <= LIMN else [0, 0]


def encvals(v):
    """(d, d, nc) -> per cell a d x d matrix of rationals"""
    v = np.asarray(v, dtype=float)
    if v.ndim != 3:
        return []
    return [[[enc(v[i, j, c]) for j in range(v.shape[1])] for i in range(v.shape[0])] for c in range(v.shape[2])]


def field_names(inp):
    if inp["kind"] == "second":
        return []
    return ["mu", "lmbda"] + (["phi"] if inp["extra"] else [])


def encflds(t, inp):
    return [[enc(x) for x in np.asarray(getattr(t, f), dtype=float).ravel()] for f in field_names(inp)]


def arrays(t, inp):
    return [("values", t.values)] + [(f, getattr(t, f)) for f in field_names(inp)]


def flat(t, inp):
    return [enc(x) for _, a in arrays(t, inp) for x in np.asarray(a, dtype=float).ravel()]


def build(inp):
    import porepy as pp

    cells = np.array(inp["cells"], dtype=float)
    if inp["kind"] == "second":
        names = ["kxx", "kyy", "kzz", "kxy", "kxz", "kyz"]
        kw = {nm: cells[:, i].copy() for i, nm in enumerate(names) if inp["giv"][i]}
        kxx = kw.pop("kxx")
        return pp.SecondOrderTensor(kxx, **kw)
    other = {"phi": (EXTRA.copy(), cells[:, 2].copy())} if inp["extra"] else None
    return pp.FourthOrderTensor(cells[:, 0].copy(), cells[:, 1].copy(), other_fields=other)


def execute(inp):
    """run one scenario on the real classes; an exception of the code under test gives ok = False"""
    try:
        return _execute(inp)
    except (RuntimeError, MemoryError):
        raise
    except Exception as e:  # noqa: BLE001
        return dict(ok=False, err=f"{type(e).__name__}: {e}"[:300])


def _execute(inp):
    t = build(inp)
    out = dict(ok=True, err="", vals=encvals(t.values), flds=encflds(t, inp))
    scen = inp["scen"]
    rotated = inp["kind"] == "second" and scen in ("rotate", "copy")
    if rotated:
        R = np.array(inp["rot"]["n"], dtype=float) / float(inp["rot"]["q"])
        t.rotate(R)
        out["rot"] = encvals(t.values)
    if scen == "restrict":
        r = t.restrict_to_cells(np.array(inp["sel"], dtype=int))
        out.update(nvals=encvals(r.values), nflds=encflds(r, inp), ovals=encvals(t.values), oflds=encflds(t, inp))
    if scen == "copy":
        c = t.copy()
        out.update(nvals=encvals(c.values), nflds=encflds(c, inp), ovals=encvals(t.values), oflds=encflds(t, inp))
        trials = []
        for who, obj, other in (("orig", t, c), ("new", c, t)):
            for fld, arr in arrays(obj, inp):
                before = flat(other, inp)
                old = np.array(arr, dtype=float, copy=True)
                arr += BUMP  # in-place write through one object
                trials.append(dict(who=who, fld=fld, changed=bool(np.all(arr == old + BUMP)), before=before,
                                   after=flat(other, inp)))
        out["trials"] = trials
    return out


# ---- TLC -----------------------------------------------------------------------------------------------------
def enumerate_kind(ctx, kind):
    q = ctx.quick
    consts = dict(Kind=kind, Diag={1, 2, 3} if q else {0, 1, 2, 3}, Off={-1, 0, 1}, PermMode="few" if q else "all",
                  MuVals={0, 1, 2, 3}, LaVals={-1, 0, 1, 2, 3}, PhiVals={0, 1, 2})
    m, cf = tlc.gen(ctx.work / f"enum_{kind}", "MC_TensorEnum", "TensorEnum", consts, invariants=["Emit", "Laws"])
    return ctx.tlc(m, cf, allow_violation=False).records


def heap_design(ctx):
    """copy independence on the model: holds for a deep copy, is violated by a shallow one"""
    out = {}
    for deep in (True, False):
        m, cf = tlc.gen(ctx.work / f"heap_{deep}", "MC_TensorHeap", "TensorHeap",
                        dict(Fields={"values", "mu", "lmbda"}, Deep=deep, MaxWrites=3), spec="HSpec", invariants=["Independent"])
        res = ctx.tlc(m, cf, workers=4, allow_violation=not deep)
        out[deep] = res
    if out[False].violated != "Independent":
        raise tlc.TLCError("TensorHeap: the shallow-copy model does not violate Independent - the law is vacuous")
    ctx.extra["heap_model"] = dict(deep_states=out[True].distinct, shallow_violates=out[False].violated)


def judge(ctx, cases):
    for v in ctx.judge("J_Tensor", cases, CLAUSES):
        c = cases[v["case"] - 1]
        inp = c["in"]
        ctx.violation(v["clause"], dict(inp=inp, err=c["out"].get("err", "")),
                      f"{inp['kind']} scen={inp['scen']} cells={len(inp['cells'])} giv={inp['giv']} rot={inp['rot']} "
                      f"sel={inp['sel']} extra={inp['extra']} err={c['out'].get('err', '')}")


def run(ctx):
    ctx.rule = ("TLC enumerates: every admissible parameter tuple (kxx,kyy,kzz in 1..3 (0..3 thorough), cross terms in -1..1) "
                "under 6 argument patterns - all tuples of a pattern are the cells of ONE real tensor; every rotation P*B "
                "(P signed permutation, B in {3-4-5 rotations about each axis, a /3 and a /7 rotation, identity}) applied to "
                "the tensor of all admissible cells, and to HOMOGENEOUS tensors (1 cell / 3 identical cells) for every diagonal tuple, "
                "three full tuples and the argument patterns kxx-only and kxx+kzz; every sequence of distinct cells of a 4-cell catalogue for "
                "restrict_to_cells; copy() after every signed permutation rotation with in-place writes through every array "
                "of either object; fourth order: all (mu, lambda[, phi]) cells, with and without an additional field. "
                "evaluations = cells x scenarios; case class = (kind, scenario, argument pattern / rotation denominator)")
    ctx.assumptions = ["copy / restrict after a rotation use signed-permutation rotations only (exact in floating point), so "
                       "the positive-definiteness re-check inside copy() is not at the mercy of rounding",
                       "independence is tested behaviourally (in-place += through every public array of one object, all "
                       "arrays of the other object compared), the private basis matrices of other_fields are not written"]
    heap_design(ctx)
    cases = []

    def add(inp):
        out = execute(inp)
        cases.append({"in": inp, "out": out})
        hom = len(inp["cells"]) <= 3 and inp["scen"] == "rotate"
        key = (inp["kind"], inp["scen"], tuple(inp["giv"]) if inp["scen"] == "build" or hom else inp["rot"]["q"], inp["extra"],
               len(inp["sel"]), hom)
        ctx.case(key=key, n=len(inp["cells"]))
        if len(ctx.samples) < 6 and inp["scen"] != "build" and len(cases) % 37 == 1:
            ctx.sample({"in": dict(inp, cells=inp["cells"][:2]),
                        "out": {k: (v[:1] if isinstance(v, list) else v) for k, v in out.items() if k != "trials"}})

    for kind in ("second", "fourth"):
        for r in enumerate_kind(ctx, kind):
            if r["scen"] == "rothom":
                # homogeneous tensors: one real tensor per (tuple, argument pattern, number of identical cells)
                for p, giv, nc in sorted(r["homs"], key=repr):
                    add(dict(kind=r["kind"], scen="rotate", cells=[p] * nc, extra=False, giv=giv, rot=r["rot"], sel=[]))
                continue
            add(dict(kind=r["kind"], scen=r["scen"], cells=sorted(r["cells"]) if r["scen"] in ("build", "rotate") else r["cells"],
                     extra=r["extra"], giv=r["giv"], rot=r["rot"], sel=r["sel"]))
    ctx.extra["objects"] = len(cases)
    slab, w = [], 0
    for c in cases:
        slab.append(c)
        w += len(c["in"]["cells"]) + 3
        if w >= 80000:
            judge(ctx, slab)
            slab, w = [], 0
    if slab:
        judge(ctx, slab)
    ctx.exhaustive = True


def replay(ctx, body):
    inp = body["record"]["inp"]
    out = execute(inp)
    ctx.case(key="replay")
    ctx.sample({"in": dict(inp, cells=inp["cells"][:2])})
    judge(ctx, [{"in": inp, "out": out}])
