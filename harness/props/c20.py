"""C20 Grid geometry is equivariant under rigid motions.

spec/trace/J_Equivariance.tla  TLC computes R x + t in exact rational arithmetic for every centre / normal of the
                               base grid and compares with what compute_geometry returned for the moved grid
spec/ref/GridFam.tla           TLC enumerates the tensor-product base grids
spec/lib/GridGeom.tla          validity of randomly perturbed base grids (family predicate)

Motions: the 24 proper signed permutation matrices, rotations from integer quaternions with |q|^2 in {9, 25, 49}
(rational matrices M / |q|^2), their products, and integer translations.  1D and 2D grids are thereby embedded in
arbitrary rational lines / planes of 3-space (compute_tangent, the plane-normal computation of
_compute_geometry_2d and - for grids with inconsistent face orientation - map_geometry.compute_normal)."""
from __future__ import annotations

import warnings
from types import SimpleNamespace

import numpy as np

from .. import tlc
from . import _grids as G
from . import c19

LEVEL = "translation_validation"
CLAUSES = ["JudgeAll"]
_ROT24 = None


def motions(rng, n):
    """n motions (M, q, t): always one signed permutation and one quaternion rotation, then random ones"""
    global _ROT24
    if _ROT24 is None:
        _ROT24 = G.rotations24()
    out = []
    for k in range(n):
        kind = k % 3 if k < 3 else rng.randrange(3)
        P = _ROT24[rng.randrange(24)]
        Mq, q = G.quat_rotation(rng.choice(G.QUATS))
        if kind == 0:
            M, q = P, 1
        elif kind == 1:
            M = Mq
        else:
            M = P @ Mq
        t = [rng.randint(-3, 3) for _ in range(3)]
        out.append(dict(M=[[int(x) for x in row] for row in M], q=int(q), t=t))
    # one FAR motion: a signed permutation followed by a translation by thousands of grid diameters (integers, so the
    # moved nodes are exact).  The harness subtracts the translation from the computed centres again (the rounding of
    # the far coordinates, ~1e-11, is absorbed by the conversion to the closest small rational) and hands TLC the
    # motion with t = 0: what is judged is the translation invariance of everything compute_geometry does, including
    # the tolerances of the plane-fitting path (map_geometry.compute_normal) far from the origin.
    P = _ROT24[rng.randrange(24)]
    far = [rng.choice([-1, 1]) * m for m in (8192, 4096, 2048)]
    out.append(dict(M=[[int(x) for x in row] for row in P], q=1, t=[0, 0, 0], far=far))
    return out


def geometry_of(recipe, motion=None):
    g, info = G.build(recipe)
    if motion is not None:
        M = np.asarray(motion["M"], dtype=float)
        g.nodes = (M @ g.nodes) / motion["q"] + np.asarray(motion["t"], dtype=float).reshape((3, 1))
    far = np.asarray((motion or {}).get("far") or [0, 0, 0], dtype=float).reshape((3, 1))
    g.nodes = g.nodes + far
    with warnings.catch_warnings():
        warnings.simplefilter("ignore")
        try:
            g.compute_geometry()
        except (ValueError, AssertionError, RuntimeError, FloatingPointError, ZeroDivisionError) as e:
            return g, info, None, dict(error=repr(e))
    h = g
    if np.any(far):
        h = SimpleNamespace(cell_volumes=g.cell_volumes, cell_centers=g.cell_centers - far, face_centers=g.face_centers - far,
                            face_normals=g.face_normals, face_areas=g.face_areas)
    return g, info, G.geometry(h), G.geometry_floats(h)


def make_cases(recipe, mots):
    g0, info, a, fa = geometry_of(recipe)
    if a is None:
        return []  # the base grid itself is rejected by compute_geometry: not a valid grid (C19's business)
    check = (not info["strict"]) or bool(recipe.get("nonstrict")) or info["convex"]
    gj = G.export(g0) if check else []
    out = []
    for m in mots:
        _, _, b, fb = geometry_of(recipe, m)
        raised = b is None
        case = dict(M=m["M"], q=m["q"], t=m["t"], a=a, b=(a if raised else b), raised=raised, check=check, convex=info["convex"], g=gj)
        out.append((dict(recipe=recipe, motion=m), case, dict(base=fa, moved=fb)))
    return out


def base_recipes(ctx, emitted):
    rng, q = ctx.rng, ctx.quick
    recipes = []
    count = {1: 0, 2: 0, 3: 0}
    for r in emitted:
        axes, dim = r["axes"], r["dim"]
        k = count[dim]
        count[dim] += 1
        if dim == 1:
            recipes += c19.line_recipes(rng, axes[0], 1)
            continue
        stride = (4 if dim == 2 else 12) if q else (2 if dim == 2 else 4)
        if k % stride != 1:
            continue
        base = dict(kind="tensor", axes=axes, cart=True)
        recipes += c19.variants(rng, base, 1)
        if r["cells"] * (2 if dim == 2 else 6) <= 12:
            recipes += c19.variants(rng, dict(kind="simplex", axes=axes), 1)
    fixed = c19.fixed_recipes(rng, True)
    recipes += fixed if not q else fixed[::4]
    return recipes


def judge(ctx, items, tag):
    cases = [c for _, c, _ in items]
    recs = ctx.judge("J_Equivariance", cases, CLAUSES, tag=tag)
    outside = {v["case"] for v in recs if v.get("tag") == "outside"}
    skipped = {v["case"] for v in recs if v.get("tag") == "skipped"}
    for i, (rec, c, _) in enumerate(items, 1):
        if i in outside:
            ctx.extra["outside_family"] = ctx.extra.get("outside_family", 0) + 1
            continue
        if i in skipped:
            ctx.inconclusive += 1
            continue
        r = rec["recipe"]
        ops = tuple(o["op"] + ("/swap" if o.get("swap") else "") for o in r.get("ops", []))
        m = rec["motion"]
        ctx.case(key=(r["base"]["kind"], r["base"].get("name", ""), len(c["a"]["vol"]), ops, m["q"]),
                 nontrivial=m["q"] > 1 or m["M"] != [[1, 0, 0], [0, 1, 0], [0, 0, 1]])
    for v in recs:
        if "clause" not in v:
            continue
        rec, c, fl = items[v["case"] - 1]
        ctx.violation(v["clause"], dict(recipe=rec["recipe"], motion=rec["motion"], case=c, computed=fl),
                      f"{rec['recipe']['base']} ops={[o['op'] for o in rec['recipe'].get('ops', [])]} motion={rec['motion']}")


def run(ctx):
    ctx.rule = ("base grids: the tensor grids enumerated by TLC (GridFam) as tensor / simplex grids with their variants "
                "(orientation conventions, inconsistent orientation, affine maps, lattice perturbations), 1D lines, "
                "hand-built polygonal / polyhedral grids; each is moved by signed permutations, quaternion rotations "
                "(|q|^2 in 9, 25, 49), products and integer translations, and once by a signed permutation with a translation "
                "by (8192, 4096, 2048) (far from the origin).  One evaluation = one (grid, motion) pair whose "
                "two geometries TLC compared; classes = (family, #cells, operations, |q|^2); non-trivial = not the identity rotation")
    ctx.assumptions = ["integer base coordinates, rational rotations: every compared value is an exact rational"]
    q = ctx.quick
    consts = dict(MaxCoord=[3, 2, 2] if q else [5, 3, 2], MaxCells=[3, 4, 2] if q else [5, 6, 4])
    res = ctx.tlc(*tlc.gen(ctx.work / "enum", "MC_GridFam", "GridFam", consts,
                           invariants=["Emit", "Increasing", "MeasurePositive"]), allow_violation=False)
    emitted = sorted(res.records, key=lambda r: (r["dim"], r["axes"]))
    ctx.extra["tensor_grids_emitted"] = len(emitted)
    recipes = base_recipes(ctx, emitted)
    ctx.extra["base_grids"] = len(recipes)
    nm = 3 if q else 8
    items = []
    for r in recipes:
        items += make_cases(r, motions(ctx.rng, nm))
    B = 600 if q else 1500
    for i in range(0, len(items), B):
        judge(ctx, items[i:i + B], f"j{i // B}")
    for rec, c, _ in items[:: max(1, len(items) // 5)]:
        ctx.sample(dict(recipe=rec["recipe"], motion=rec["motion"], vol=c["b"]["vol"][:2], cc=c["b"]["cc"][:1]))
    ctx.exhaustive = False


def replay(ctx, body):
    rec = body["record"]
    items = make_cases(rec["recipe"], [rec["motion"]])
    judge(ctx, items, "replay")
    ctx.sample(dict(recipe=rec["recipe"], motion=rec["motion"]))
