"""C22 Subgrid extraction and partitioning preserve the parent grid.

spec/ref/Partition.tla       reference predicates / functions (structured partition, overlap, extraction)
spec/ref/PartitionEnum.tla   TLC enumerates (fine, coarse) pairs and all cell subsets of small real grids and
                             checks the model laws of the reference on each
spec/trace/J_Partition.tla   TLC judges what porepy.grids.partition returned

Python builds the grids, calls partition_structured / partition_coordinates / overlap / extract_subgrid,
exports integers and exact rationals, and dispatches TLC's verdicts."""
from __future__ import annotations

import warnings

import numpy as np

from .. import codec, tlc
from .c21 import build, grid_to_inc

LEVEL = "model_checking"
CLAUSES = ["InFamily", "StructReturns", "StructRangeC", "StructBoxesC", "CoordVector", "CoordConnected",
           "OverlapReturns", "OverlapGrows", "OverlapNeighboursC", "OverlapExact",
           "ExtractReturns", "ExtractMaps", "ExtractIncidence", "ExtractGeometry"]
MACHINERY = {"InFamily"}
INFORMATIONAL = {"CoordConnected"}
CAP = 8


# ---------------------------------------------------------------------------------------------------
def _r3(m):
    m = np.asarray(m, dtype=float)
    return [[codec.rat(x) for x in m[:, j]] for j in range(m.shape[1])]


def geometry(g):
    """Computed geometry of g as exact rationals (raises codec.Inexact if a value is not rational-looking)."""
    return dict(cc=_r3(g.cell_centers), cv=[codec.rat(x) for x in g.cell_volumes], fc=_r3(g.face_centers),
                fnrm=_r3(g.face_normals), fa2=[codec.rat(float(a) * float(a)) for a in g.face_areas],
                nodes=_r3(g.nodes))


EMPTY_GEOM = dict(cc=[], cv=[], fc=[], fnrm=[], fa2=[], nodes=[])
EMPTY_H = dict(dim=0, nc=0, nf=0, nn=0, cf=[], fn=[])


def ints_exact(a):
    a = np.asarray(a)
    r = np.round(a).astype(np.int64)
    if a.size and not np.array_equal(r.astype(float), np.asarray(a, dtype=float)):
        raise RuntimeError(f"non-integer entries in a partition / index vector: {a}")
    return [int(x) for x in r.ravel()]


def parents(ctx):
    """Recipes of the parent grids for the subset enumeration (<= 9 cells)."""
    rc = [["cart", [3, 3]], ["cart", [2, 2]], ["cart", [4]], ["stri", [2, 1]], ["cart", [2, 2, 2]],
          ["frac", [[[1, 1], [0, 2]]], [2, 2], 0], ["cart", [1, 1]], ["extract", ["cart", [3, 1]], [0, 2]]]
    if not ctx.quick:
        rc += [["cart", [4, 2]], ["stri", [2, 2]], ["stet", [1, 1, 1]], ["cart", [3, 2]], ["cart", [3, 1, 2]],
               ["frac", [[[1, 2], [1, 1]]], [3, 3], 0], ["frac", [[[0, 2], [1, 1]]], [2, 3], 0]]
    return rc


# ---------------------------------------------------------------------------------------------------
def do_struct(fine, coarse):
    import porepy as pp

    g = pp.CartGrid(np.array(fine))
    try:
        p = pp.partition.partition_structured(g, coarse_dims=np.array(coarse))
        return dict(ok=True, p=ints_exact(p))
    except Exception as e:  # noqa: BLE001 - any exception is "did not return a partition"
        return dict(ok=False, p=[], error=type(e).__name__)


def do_coord(g, n, check):
    import porepy as pp

    try:
        p = pp.partition.partition_coordinates(g, n, check_connectivity=check)
        return dict(ok=True, raised=False, p=ints_exact(p))
    except Exception as e:  # noqa: BLE001
        return dict(ok=False, raised=True, p=[], error=type(e).__name__)


def do_sub(ctx, g, S, layers):
    import porepy as pp

    ov = []
    for crit in ("node", "face"):
        ls = []
        for j in range(1, layers + 1):
            try:
                cells = pp.partition.overlap(g, np.array(S, dtype=int), j, criterion=crit)
                ls.append(dict(ok=True, cells=ints_exact(np.atleast_1d(cells))))
            except Exception as e:  # noqa: BLE001
                ls.append(dict(ok=False, cells=[], error=type(e).__name__))
        ov.append(dict(crit=crit, layers=ls))
    try:
        h, fmap, nmap = pp.partition.extract_subgrid(g, np.array(S, dtype=int))
        h.compute_geometry()
        ext = dict(ok=True, H=grid_to_inc(h), fmap=ints_exact(fmap), nmap=ints_exact(nmap),
                   pci=ints_exact(h.parent_cell_ind))
        try:
            ext.update(geom_ok=True, geom=geometry(h))
        except codec.Inexact:
            ctx.inconclusive += 1
            ext.update(geom_ok=False, geom=EMPTY_GEOM)
    except Exception as e:  # noqa: BLE001
        ext = dict(ok=False, H=EMPTY_H, fmap=[], nmap=[], pci=[], geom_ok=False, geom=EMPTY_GEOM,
                   error=type(e).__name__)
    return dict(ext=ext, ov=ov)


def load_parents(recipes, broken=None):
    """Build the parent grids.  A recipe whose construction raises is dropped and noted in `broken` (the
    derived parents are made with extract_subgrid, which is under test)."""
    ok, gs, Gs, geoms = [], [], [], []
    for rc in recipes:
        try:
            g = build(rc)
            g.compute_geometry()
            G, gm = grid_to_inc(g), geometry(g)
        except Exception as e:  # noqa: BLE001
            if broken is None:
                raise
            broken.append(f"{rc}: {e!r}")
            continue
        ok.append(rc)
        gs.append(g)
        Gs.append(G)
        geoms.append(gm)
    return ok, gs, Gs, geoms


def judge_cases(ctx, cases, Gs, geoms, tag):
    recs = ctx.judge("J_Partition", cases, CLAUSES, consts=dict(Grids=Gs, Geoms=geoms), tag=tag, workers=8)
    seen = {}
    for v in sorted((r for r in recs if "clause" in r), key=lambda r: (r["clause"], r["case"])):
        case = cases[v["case"] - 1]
        cl = v["clause"]
        if cl in MACHINERY:
            raise RuntimeError(f"case outside the family handed to the judge: {case}")
        if cl in INFORMATIONAL:
            ctx.drift(f"partition_coordinates(check_connectivity=True) returned a part that is not connected: "
                      f"grid={case['recipe']} num_coarse={case['n']} partition={case['out']['p']}")
            continue
        seen[cl] = seen.get(cl, 0) + 1
        if seen[cl] > CAP:
            continue
        ctx.violation(cl, dict(case), _describe(case))
    if seen:
        ctx.extra["failing_cases_per_clause"] = seen


def _describe(rec):
    if rec["kind"] == "struct":
        return f"partition_structured fine={rec['fine']} coarse={rec['coarse']} -> {rec['out'].get('p')}"
    if rec["kind"] == "coord":
        return f"partition_coordinates grid={rec['recipe']} n={rec['n']} -> {rec['out']}"
    return f"grid={rec['recipe']} cells={rec['S']}"


def run(ctx):
    warnings.filterwarnings("ignore")
    ctx.rule = ("TLC enumerates (a) every (fine, coarse_dims) with coarse <= fine per direction (2D fine <= 7, 3D sample) "
                "for partition_structured and (b) every non-empty cell subset of small real grids (Cartesian 1D-3D, "
                "simplex, fractured; <= 9 cells) for overlap (node / face criterion, 1..L layers) and extract_subgrid "
                "(+ compute_geometry on the child); partition_coordinates for every target count on the same grids; "
                "all outputs are judged by TLC; keys = (kind, grid/fine, coarse or subset size)")
    layers = 2 if ctx.quick else 3
    broken = []
    recipes, gs, Gs, geoms = load_parents(parents(ctx), broken)
    consts = dict(MaxFine2=7, MaxFine3=(3 if ctx.quick else 5), Grids=Gs, MaxLayers=layers)
    res = ctx.tlc(*tlc.gen(ctx.work / "enum", "MC_PartitionEnum", "PartitionEnum", consts,
                           invariants=["Laws", "Emit"]), allow_violation=False, workers=8)
    cases = []
    for r in res.records:
        if r["kind"] == "struct":
            cases.append(dict(kind="struct", fine=r["fine"], coarse=r["coarse"], out=do_struct(r["fine"], r["coarse"])))
        else:
            gi = r["gi"]
            cases.append(dict(kind="sub", gi=gi, recipe=recipes[gi - 1], S=r["S"], layers=layers,
                              out=do_sub(ctx, gs[gi - 1], r["S"], layers)))
    # partition_coordinates: every target count on every parent grid and on a U-shaped extracted grid
    u = ["extract", ["cart", [3, 3]], [0, 2, 3, 5, 6, 7, 8]]
    ur, ug, uG, ugeom = load_parents([u], broken)
    crecipes, cgs, cGs, cgeoms = recipes + ur, gs + ug, Gs + uG, geoms + ugeom
    for gi, g in enumerate(cgs, 1):
        for n in range(1, g.num_cells + 1):
            for kind, check in (("coord", False), ("coordc", True)):
                cases.append(dict(kind=kind, gi=gi, recipe=crecipes[gi - 1], n=n, out=do_coord(g, n, check)))
    try:
        import pymetis  # noqa: F401

        ctx.assumptions.append("pymetis is installed but partition_metis is not exercised (non-deterministic library)")
    except ImportError:
        ctx.assumptions.append("pymetis is not installed: partition_metis / partition() via metis are not exercised")
    judge_cases(ctx, cases, cGs, cgeoms, "judge")
    if broken and not ctx.violations:
        raise RuntimeError(f"parent grid could not be built: {broken[0]}")
    for b in broken:
        ctx.drift(f"parent grid could not be built: {b}"[:300])
    for c in cases:
        if c["kind"] == "struct":
            ctx.case(key=("struct", tuple(c["fine"]), tuple(c["coarse"])),
                     nontrivial=any(f % k for f, k in zip(c["fine"], c["coarse"])))
        elif c["kind"] == "sub":
            ctx.case(key=("sub", c["gi"], len(c["S"])), nontrivial=1 < len(c["S"]) < Gs[c["gi"] - 1]["nc"])
        else:
            ctx.case(key=(c["kind"], c["gi"], c["n"]), nontrivial=c["n"] > 1)
    ctx.sample(next(c for c in cases if c["kind"] == "struct" and c["fine"] == [5, 5] and c["coarse"] == [3, 3]))
    s = next(c for c in cases if c["kind"] == "sub" and len(c["S"]) == 3)
    ctx.sample(dict(kind="sub", recipe=s["recipe"], S=s["S"], ov=s["out"]["ov"], fmap=s["out"]["ext"]["fmap"],
                    nmap=s["out"]["ext"]["nmap"]))
    ctx.sample(next(c for c in cases if c["kind"] == "coord" and c["n"] == 3))
    ctx.exhaustive = True
    ctx.extra["enumerated_inputs"] = len(res.records)


def replay(ctx, body):
    warnings.filterwarnings("ignore")
    rec = body["record"]
    if rec["kind"] == "struct":
        case = dict(kind="struct", fine=rec["fine"], coarse=rec["coarse"], out=do_struct(rec["fine"], rec["coarse"]))
        Gs, geoms = [], []
    else:
        _, gs, Gs, geoms = load_parents([rec["recipe"]])
        if rec["kind"] == "sub":
            case = dict(kind="sub", gi=1, recipe=rec["recipe"], S=rec["S"], layers=rec["layers"],
                        out=do_sub(ctx, gs[0], rec["S"], rec["layers"]))
        else:
            case = dict(kind=rec["kind"], gi=1, recipe=rec["recipe"], n=rec["n"],
                        out=do_coord(gs[0], rec["n"], rec["kind"] == "coordc"))
    ctx.case(key="replay")
    ctx.sample(dict(kind=case["kind"], out=str(case["out"])[:400]))
    judge_cases(ctx, [case], Gs, geoms, "replay")
