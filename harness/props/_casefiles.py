"""Judging recorded cases with one JSON file per case.

spec/lib/Judge.tla reads the whole batch with JsonDeserialize(IOEnv.VERIF_CASES); TLC does not cache that value (IOEnv is not
constant-level) and parses the batch again at every reference - quadratic in the batch size.  Judge modules that define
    CONSTANTS CaseDir, NumCases     Case == JsonDeserialize(CaseDir \\o "/" \\o ToString(ci) \\o ".json")     FSpec
(the Judge idiom on blk / ci, see J_OrthoMaps.tla / J_FileRoundTrip.tla) read exactly the file of the case they judge.
judge_files() is ctx.judge() for such modules: same verdict / Tell records, statistics booked on ctx."""
from __future__ import annotations

import json

from .. import tlc
from ..core import _jsonable


def judge_files(ctx, client, cases, invariants, workers=8, timeout=1800, tag=None):
    tag = tag or f"jf{len(ctx.tlc_runs)}"
    d = ctx.work / tag / "cases"
    d.mkdir(parents=True, exist_ok=True)
    for i, c in enumerate(cases, 1):
        with open(d / f"{i}.json", "w") as f:
            json.dump(_jsonable(c), f)
    empty = ctx.datafile(f"empty_{tag}.json", [])
    m, cf = tlc.gen(ctx.work / tag, f"MC_{client}", client, dict(CaseDir=str(d), NumCases=len(cases)), spec="FSpec",
                    invariants=list(invariants))
    res = ctx.tlc(m, cf, workers=workers, env={"VERIF_CASES": empty}, allow_violation=False, timeout=timeout)
    return res.records
