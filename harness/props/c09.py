"""C09 Adaptive time stepping hits every scheduled time.

spec/sys/TimeStepper.tla (mechanism + property), spec/trace/T_TimeStepper.tla (conformance of the
recorded real transition graph), spec/trace/M_TimeStepper.tla (TLC model-checks the property on the
recorded real transition graph -> verdict)."""
from __future__ import annotations

import copy
import warnings
from concurrent.futures import ThreadPoolExecutor
from fractions import Fraction as Fr

from .. import explore as ex
from .. import tlc

LEVEL = "model_checking"
U = 4096  # dyadic unit 2^-12
INVS = ["NoOvershoot", "NoSkippedSchedule", "HitsAll", "DtBounds", "FailureRewinds",
        "RaiseOnlyWhenExhausted", "NoCrash"]
PROPS = ["Mono", "MonoStrict", "Termination"]

PARAMS = [  # over, under, recomp as fractions
    dict(over=(3, 2), under=(1, 2), recomp=(1, 2)),
    dict(over=(5, 4), under=(3, 4), recomp=(1, 2)),
    dict(over=(2, 1), under=(1, 2), recomp=(3, 4)),
]

CATALOGUE = [
    # (schedule in units of 1/8, dt_init, dt_min, dt_max) -- all in eighths
    ([0, 16, 20], 8, 1, 8),        # the shape of the original finding: lands exactly on 2, next at 2.5
    ([0, 8, 12, 32], 8, 1, 8),     # lands on 1, next 1.5
    ([0, 8, 16], 8, 2, 8),         # dt_init equals every interval
    ([4, 12, 13, 20], 4, 1, 16),   # arbitrary start, a scheduled time one dt_min before the next
    ([0, 6, 7, 8, 24], 3, 1, 12),  # three scheduled times in a row closer than dt
    ([24, 40], 16, 2, 16),         # two points only
    ([0, 5, 11, 16, 17, 40], 2, 1, 16),  # six points
    ([0, 3, 6], 3, 3, 6),          # dt_min = dt_init: first failure raises
]


def make_configs(ctx):
    cfgs = []
    for i, (s, di, dmin, dmax) in enumerate(CATALOGUE):
        for j, p in enumerate(PARAMS):
            if ctx.quick and (i + j) % 3 != 0 and i > 1:
                continue
            cfgs.append(dict(sched=s, dt_init=di, dt_min=dmin, dt_max=dmax, recomp_max=1 + (i + j) % 3,
                             budget=2 if ctx.quick else 3, **p))
    n_rand = 4 if ctx.quick else 40
    r = ctx.rng
    while n_rand > 0:
        k = r.randint(2, 6)
        t = r.choice([0, 4, 24])
        s = [t]
        for _ in range(k - 1):
            t += r.choice([1, 2, 4, 6, 8, 12, 16])
            s.append(t)
        dmin = r.choice([1, 2])
        dmax = r.choice([8, 16])
        di = r.choice([d for d in (1, 2, 3, 4, 6, 8, 12, 16) if dmin <= d <= dmax and d <= s[1] - s[0]] or [0])
        if di == 0:
            continue
        p = r.choice(PARAMS)
        cfgs.append(dict(sched=s, dt_init=di, dt_min=dmin, dt_max=dmax, recomp_max=r.randint(1, 3),
                         budget=r.randint(1, 3), random=True, **p))
        n_rand -= 1
    # constructor constraints of TimeManager
    out = []
    for c in cfgs:
        if Fr(c["dt_min"]) * Fr(*c["over"]) > c["dt_max"] or Fr(c["dt_max"]) * Fr(*c["under"]) < c["dt_min"]:
            continue
        out.append(c)
    return out


E8 = U // 8


def consts_of(c, fix=True):
    return dict(Schedule=[x * E8 for x in c["sched"]], DtInit=c["dt_init"] * E8, DtMin=c["dt_min"] * E8,
                DtMax=c["dt_max"] * E8, IterLow=4, IterHigh=7, ItChoices={4, 5, 6, 7},
                OverN=c["over"][0], OverD=c["over"][1], UnderN=c["under"][0], UnderD=c["under"][1],
                RecompN=c["recomp"][0], RecompD=c["recomp"][1], RecompMax=c["recomp_max"],
                LandingFix=fix, FaultBudget=c["budget"])


# ----------------------------------------------------------------- real-code driver (the loop of run_models)
class Drv:
    def __init__(self, c):
        import porepy as pp

        self.tm = pp.TimeManager(
            schedule=[x / 8 for x in c["sched"]], dt_init=c["dt_init"] / 8,
            dt_min_max=(c["dt_min"] / 8, c["dt_max"] / 8), iter_max=15, iter_optimal_range=(4, 7),
            iter_relax_factors=(c["under"][0] / c["under"][1], c["over"][0] / c["over"][1]),
            recomp_factor=c["recomp"][0] / c["recomp"][1], recomp_max=c["recomp_max"], print_info=False)
        self.phase = "ready"
        self.nfail = 0
        self.budget = c["budget"]


def _scaled(x):
    v = float(x) * U
    return int(v) if v == int(v) and abs(v) < 2 ** 30 else None


def project(d: Drv):
    tm = d.tm
    t, dt = _scaled(tm.time), _scaled(tm.dt)
    exact = t is not None and dt is not None
    return dict(exact=exact, time=t if exact else 0, dt=dt if exact else 0, sidx=int(tm._scheduled_idx) + 1,
                recomp=int(tm._recomp_num), about=bool(tm._is_about_to_hit_schedule),
                tindex=int(tm.time_index), phase=d.phase, nfail=d.nfail)


def actions_for(budget):
    def actions(p):
        if p["phase"] == "ready":
            return [dict(ev="inc")]
        if p["phase"] == "solving":
            a = [dict(ev="conv", it=i) for i in (4, 5, 6, 7)]
            if p["nfail"] < budget:
                a.append(dict(ev="fail"))
            return a
        return []

    return actions


def apply(d: Drv, act):
    tm = d.tm
    with warnings.catch_warnings():
        warnings.simplefilter("ignore")
        if act["ev"] == "inc":
            # body of time_step() in run_time_dependent_model
            tm.increase_time()
            tm.increase_time_index()
            d.phase = "solving"
            return {}
        if act["ev"] == "conv":
            # SolutionStrategy.after_nonlinear_convergence
            try:
                tm.compute_time_step(iterations=act["it"])
            except Exception as e:  # noqa
                d.phase = "crashed"
                return {"exc": type(e).__name__}
            # loop guard of run_time_dependent_model
            d.phase = "done" if tm.final_time_reached() else "ready"
            return {}
        if act["ev"] == "fail":
            d.nfail += 1
            # SolutionStrategy.after_nonlinear_failure
            try:
                tm.compute_time_step(recompute_solution=True)
            except ValueError:
                d.phase = "raised"
                return {"exc": "ValueError"}
            except Exception as e:  # noqa
                d.phase = "crashed"
                return {"exc": type(e).__name__}
            d.phase = "done" if tm.final_time_reached() else "ready"
            return {}
    raise ValueError(act)


def real_graph(c, max_nodes=60000):
    return ex.explore(Drv(c), actions=actions_for(c["budget"]), apply=apply, project=project, clone=copy.deepcopy,
                      expand=lambda p: p["exact"], max_nodes=max_nodes)


# ----------------------------------------------------------------- one configuration
def check_config(ctx, idx, c, workers):
    wd = ctx.work / f"cfg{idx}"
    out = dict(cfg=c, idx=idx)
    # (1) design verdict on the mechanism model (must hold: the spec does not change with the code)
    #     quick tier: bounded to the first LEVEL calls (safety clauses only, a depth bound hides liveness)
    #     thorough tier: complete (with the liveness clauses) for the catalogue; the random configurations, whose state
    #     spaces are not known in advance, are bounded to the first 40 calls (a complete liveness run of one of them
    #     exceeded the time limit on a loaded machine - a machinery failure that says nothing about the property)
    if ctx.quick or c.get("random"):
        m, cf = tlc.gen(wd, "MC_TimeStepper", "TimeStepper", consts_of(c), invariants=["TypeOK"] + INVS,
                        properties=["Mono", "MonoStrict"], constraint="Bounded",
                        extra_defs="Bounded == exact /\\ TLCGet(\"level\") <= %d" % (24 if ctx.quick else 40))
    else:
        m, cf = tlc.gen(wd, "MC_TimeStepper", "TimeStepper", consts_of(c), invariants=["TypeOK"] + INVS,
                        properties=PROPS, constraint="ExactOnly")
    # quick tier: the design verdict (a self-check of the model, not the property verdict) for the first four
    # configurations only
    out["design"] = ctx.tlc(m, cf, workers=workers, allow_violation=False, timeout=3000) if (not ctx.quick or idx < 4) else None
    # (2) the real transition system
    g = real_graph(c, 5000 if ctx.quick else 25000)
    out["graph"] = g
    gfile = ctx.datafile(f"graph{idx}.json", g)
    # (3) verdict: TLC model-checks the property on the recorded real graph
    mc = {k: v for k, v in consts_of(c).items() if k in ("Schedule", "DtMin", "DtMax", "RecompMax")}
    mc["Eps"] = 0
    m, cf = tlc.gen(wd, "MC_M_TimeStepper", "M_TimeStepper", mc, spec="MSpec", invariants=INVS, properties=PROPS)
    out["monitor"] = ctx.tlc(m, cf, workers=workers, env={"VERIF_GRAPH": gfile})
    # (4) conformance: every recorded edge is a step of the specification
    m, cf = tlc.gen(wd, "MC_T_TimeStepper", "T_TimeStepper", consts_of(c), spec="TSpec", invariants=["EmitVia"])
    out["trace"] = ctx.tlc(m, cf, workers=workers, env={"VERIF_GRAPH": gfile})
    return out


def _violating_path(res):
    """Event path of the monitor's counterexample: sequence of node ids."""
    import re

    ids = []
    for blk in tlc.counterexample(res):
        mm = re.search(r"/\\ node = (\d+)", blk)
        if mm:
            ids.append(int(mm.group(1)))
    return ids


def judge(ctx, o):
    c, g = o["cfg"], o["graph"]
    ne = ex.n_edges(g)
    ctx.traces += ne
    nfail_edges = sum(1 for es in g["edges"] for e in es if e["ev"] == "fail")
    corrected = sum(1 for p in g["nodes"] if p["about"])
    ctx.case(key=("cfg", tuple(c["sched"]), c["dt_init"], c["dt_min"], c["dt_max"], c["over"], c["recomp_max"], c["budget"]),
             nontrivial=nfail_edges > 0 and corrected > 0, n=ne)
    ctx.extra.setdefault("real_nodes", 0)
    ctx.extra["real_nodes"] += len(g["nodes"])
    if g["truncated"]:
        ctx.extra["truncated_graphs"] = ctx.extra.get("truncated_graphs", 0) + 1
    mon = o["monitor"]
    if mon.violated:
        ids = _violating_path(mon)
        events = []
        for a, b in zip(ids, ids[1:]):
            for e in g["edges"][a - 1]:
                if e["dst"] == b:
                    events.append({k: v for k, v in e.items() if k != "dst"})
                    break
        rec = dict(config=c, events=events, states=[g["nodes"][i - 1] for i in ids])
        ctx.violation(mon.violated, rec, f"schedule={c['sched']}/8 after {len(events)} calls")
    # conformance
    taken = {tuple(r) for r in o["trace"].records}
    missing = []
    for n, es in enumerate(g["edges"], start=1):
        for i, e in enumerate(es, start=1):
            if (n, i) not in taken:
                missing.append((n, i, e))
    for n, i, e in missing[:3]:
        ctx.drift(f"edge rejected by TimeStepper: cfg#{o['idx']} from={g['nodes'][n-1]} ev={e} to={g['nodes'][e['dst']-1]}")
    if len(missing) > 3:
        for _ in missing[3:]:
            ctx.drift("", None)
    # spec/real reachable sizes (informational)
    ctx.extra.setdefault("spec_vs_real", []).append(
        [o["design"].distinct if o["design"] else None, len(g["nodes"]), ne, len(missing)]) if len(ctx.extra.get("spec_vs_real", [])) < 12 else None



# ----------------------------------------------------------------- arbitrary float parameters (isclose paths)
FS = 1 << 18   # integer units per unit of time for the float family; Eps units of slack


def float_family(ctx, n_cfg, n_scripts, presets=None):
    """Random NON-dyadic parameters (incl. the defaults 0.7 / 1.3): random outcome scripts are run through the real
    loop; the runs are merged into a prefix tree with values rounded to 1/FS; M_TimeStepper judges the clauses with
    equalities read as 'within Eps'."""
    import porepy as pp

    r = ctx.rng
    jobs = []
    presets = list(presets or [])
    for ci in range(n_cfg + len(presets)):
        if ci >= n_cfg:
            cfg = presets[ci - n_cfg]
            jobs.append((cfg, _float_runs(r, cfg, n_scripts)))
            continue
        k = r.randint(2, 6)
        t = r.choice([0.0, 0.3, 2.5])
        sched = [t]
        for _ in range(k - 1):
            t += r.choice([0.1, 0.25, 0.37, 0.5, 1.0, 1.3, 2.0])
            sched.append(round(t, 10))
        dt_min = r.choice([0.01, 0.05, 0.1])
        dt_max = r.choice([0.5, 1.0, 2.0])
        under, over = r.choice([(0.7, 1.3), (0.5, 1.5), (0.3, 1.1), (0.9, 2.0)])
        if dt_min * over > dt_max or dt_max * under < dt_min:
            continue
        cand = [d for d in (0.05, 0.1, 0.13, 0.25, 0.3, 0.5, 1.0) if dt_min <= d <= dt_max and d <= sched[1] - sched[0] + 1e-12]
        if not cand:
            continue
        cfg = dict(sched=sched, dt_init=r.choice(cand), dt_min=dt_min, dt_max=dt_max, under=under, over=over,
                   recomp=r.choice([0.5, 0.3, 0.75]), recomp_max=r.randint(1, 4))
        jobs.append((cfg, _float_runs(r, cfg, n_scripts)))
    return jobs


def near_miss_configs(r, n):
    """Schedules with LARGE times and a constant step that lands a hair short of every scheduled time: relative gap
    between 2e-7 and 4e-6, far above the manager's own tolerance (rtol 1e-10) and far below numpy's default (1e-5).
    The code must then take one tiny extra step onto the scheduled time.  Times stay below 3400 so that FS * time fits
    TLC's 32-bit integers."""
    out = []
    for _ in range(n):
        L = r.choice([1000.0, 512.0, 100.0, 730.0])
        k = r.choice([2, 3])
        m = r.choice([1, 2, 3, 4, 5])
        g = r.choice([4e-6, 1e-6, 2e-7])
        if g * L < 1e-4:   # keep the absolute gap far above the monitor's Eps (4 / FS = 1.5e-5)
            g = 4e-6
        dt = L / m * (1 - g)
        under, over = r.choice([(0.7, 1.3), (0.5, 1.5), (0.9, 2.0)])
        out.append(dict(sched=[j * L for j in range(k + 1)], dt_init=dt, dt_min=L / 1000, dt_max=dt, under=under, over=over,
                        recomp=r.choice([0.5, 0.3, 0.75]), recomp_max=r.randint(1, 4), near_miss=True))
    return out


def _float_runs(r, cfg, n_scripts):
    import porepy as pp

    if True:
        nodes, edges, index = [], [], {}

        def proj(tm, phase):
            return dict(exact=True, time=int(round(tm.time * FS)), dt=int(round(tm.dt * FS)), sidx=int(tm._scheduled_idx) + 1,
                        recomp=int(tm._recomp_num), about=bool(tm._is_about_to_hit_schedule), tindex=int(tm.time_index),
                        phase=phase, nfail=0)

        def mk():
            return pp.TimeManager(schedule=cfg["sched"], dt_init=cfg["dt_init"], dt_min_max=(cfg["dt_min"], cfg["dt_max"]),
                                  iter_max=15, iter_optimal_range=(4, 7), iter_relax_factors=(cfg["under"], cfg["over"]),
                                  recomp_factor=cfg["recomp"], recomp_max=cfg["recomp_max"])

        nodes.append(proj(mk(), "ready"))
        edges.append([])
        for _ in range(n_scripts):
            d = Drv.__new__(Drv)
            d.tm, d.phase, d.nfail, d.budget = mk(), "ready", 0, 10 ** 9
            n, steps = 1, 0
            while d.phase in ("ready", "solving") and steps < 400:
                steps += 1
                if d.phase == "ready":
                    act = dict(ev="inc")
                elif r.random() < 0.25:
                    act = dict(ev="fail")
                else:
                    act = dict(ev="conv", it=r.choice([1, 4, 5, 6, 7, 12]))
                res = apply(d, act) or {}
                p = proj(d.tm, d.phase)
                key = (n, tuple(sorted(act.items())))
                m = index.get(key)
                if m is None:
                    m = len(nodes) + 1
                    index[key] = m
                    nodes.append(p)
                    edges.append([])
                    edges[n - 1].append(dict(act, **res, dst=m))
                n = m
        return dict(nodes=nodes, edges=edges, truncated=False, cut=[p["phase"] in ("ready", "solving") for p in nodes])


def judge_float(ctx, idx, cfg, g):
    eps = 4
    mc = dict(Schedule=[int(round(x * FS)) for x in cfg["sched"]], DtMin=int(round(cfg["dt_min"] * FS)),
              DtMax=int(round(cfg["dt_max"] * FS)), RecompMax=cfg["recomp_max"], Eps=eps)
    gfile = ctx.datafile(f"fgraph{idx}.json", g)
    m, cf = tlc.gen(ctx.work / f"fcfg{idx}", "MC_M_TimeStepper", "M_TimeStepper", mc, spec="MSpec", invariants=INVS,
                    properties=["Mono", "MonoStrict"])
    mon = ctx.tlc(m, cf, workers=4, env={"VERIF_GRAPH": gfile})
    ne = ex.n_edges(g)
    ctx.traces += ne
    ctx.case(key=("float", idx), nontrivial=any(e["ev"] == "fail" for es in g["edges"] for e in es), n=ne)
    if mon.violated:
        ids = _violating_path(mon)
        events = []
        for a, b in zip(ids, ids[1:]):
            for e in g["edges"][a - 1]:
                if e["dst"] == b:
                    events.append({k: v for k, v in e.items() if k != "dst"})
                    break
        ctx.violation(mon.violated, dict(float_config=cfg, events=events, states=[g["nodes"][i - 1] for i in ids]),
                      f"float parameters schedule={cfg['sched']} relax=({cfg['under']},{cfg['over']}) after {len(events)} calls")


def run(ctx):
    ctx.rule = ("per configuration (schedule, dt bounds, relaxation/recomputation parameters, fault budget) the real "
                "TimeManager is explored breadth-first under the loop of run_time_dependent_model with every outcome "
                "(converged with 4,5,6,7 iterations / failed) at every solve; evaluations = recorded real transitions; a "
                "configuration is non-trivial when its graph contains at least one failed solve and one schedule correction")
    ctx.assumptions = ["dyadic parameters (unit 2^-12): double arithmetic is exact, np.isclose degenerates to equality; "
                       "behaviours needing finer resolution are pruned (marked inexact)",
                       "the driver transcribes the time loop of run_time_dependent_model and the two callbacks of "
                       "SolutionStrategy that call compute_time_step"]
    cfgs = make_configs(ctx)
    par = 4
    with ThreadPoolExecutor(par) as pool:
        futs = [pool.submit(check_config, ctx, i, c, 4) for i, c in enumerate(cfgs)]
        outs = [f.result() for f in futs]
    for o in outs:
        judge(ctx, o)
    g0 = outs[0]["graph"]
    ctx.sample(dict(config=outs[0]["cfg"], path=ex.path_to(g0, len(g0["nodes"])), final_state=g0["nodes"][-1]))
    ctx.sample(dict(config=outs[-1]["cfg"], nodes=len(outs[-1]["graph"]["nodes"])))
    ctx.exhaustive = not any(o["graph"]["truncated"] for o in outs)
    ctx.extra["configurations"] = len(cfgs)
    # second family: arbitrary (non-dyadic) float parameters, random scripts, clauses judged within a tolerance
    fj = float_family(ctx, 12 if ctx.quick else 100, 40 if ctx.quick else 120,
                      presets=near_miss_configs(ctx.rng, 6 if ctx.quick else 30))
    with ThreadPoolExecutor(4) as pool:
        list(pool.map(lambda t: judge_float(ctx, t[0], t[1][0], t[1][1]), enumerate(fj)))
    ctx.extra["float_configurations"] = len(fj)
    if fj:
        ctx.sample(dict(float_config=fj[0][0], path=ex.path_to(fj[0][1], len(fj[0][1]["nodes"]))[:10]))


def replay(ctx, body):
    """Re-execute one recorded violating event path on the real TimeManager and re-judge it."""
    rec = body["record"]
    if "float_config" in rec:
        return replay_float(ctx, rec)
    c = rec["config"]
    c["over"], c["under"], c["recomp"] = tuple(c["over"]), tuple(c["under"]), tuple(c["recomp"])
    d = Drv(c)
    nodes, edges = [project(d)], []
    for i, e in enumerate(rec["events"], start=1):
        res = apply(d, e) or {}
        nodes.append(project(d))
        edges.append([dict(e, **res, dst=i + 1)])
    edges.append([])
    g = dict(nodes=nodes, edges=edges, truncated=False)
    gfile = ctx.datafile("graph_replay.json", g)
    mc = {k: v for k, v in consts_of(c).items() if k in ("Schedule", "DtMin", "DtMax", "RecompMax")}
    mc["Eps"] = 0
    m, cf = tlc.gen(ctx.work / "replay", "MC_M_TimeStepper", "M_TimeStepper", mc, spec="MSpec", invariants=INVS,
                    properties=["Mono", "MonoStrict"])
    mon = ctx.tlc(m, cf, workers=1, env={"VERIF_GRAPH": gfile})
    ctx.case(key="replay", n=len(edges))
    ctx.sample(rec["events"])
    if mon.violated:
        ctx.violation(mon.violated, rec, "replayed")


def replay_float(ctx, rec):
    import porepy as pp

    cfg = rec["float_config"]
    d = Drv.__new__(Drv)
    d.tm = pp.TimeManager(schedule=cfg["sched"], dt_init=cfg["dt_init"], dt_min_max=(cfg["dt_min"], cfg["dt_max"]), iter_max=15,
                          iter_optimal_range=(4, 7), iter_relax_factors=(cfg["under"], cfg["over"]),
                          recomp_factor=cfg["recomp"], recomp_max=cfg["recomp_max"])
    d.phase, d.nfail, d.budget = "ready", 0, 10 ** 9

    def proj():
        tm = d.tm
        return dict(exact=True, time=int(round(tm.time * FS)), dt=int(round(tm.dt * FS)), sidx=int(tm._scheduled_idx) + 1,
                    recomp=int(tm._recomp_num), about=bool(tm._is_about_to_hit_schedule), tindex=int(tm.time_index),
                    phase=d.phase, nfail=0)

    nodes, edges = [proj()], []
    for i, e in enumerate(rec["events"], start=1):
        res = apply(d, e) or {}
        nodes.append(proj())
        edges.append([dict(e, **res, dst=i + 1)])
    edges.append([])
    g = dict(nodes=nodes, edges=edges, truncated=False, cut=[True] * len(nodes))
    ctx.sample(rec["events"][:10])
    judge_float(ctx, 0, cfg, g)
