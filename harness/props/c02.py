"""C02 Operator-tree evaluation matches direct forward-mode evaluation.

spec/ref/OperatorTree.tla      the typed expression language: PyDispatch (Python's binary operator protocol), Build
                               (the tree the overloads produce), Parse (AdParser._evaluate_single as a case analysis),
                               Direct / DirectProg (the reference semantics on forward-mode arrays), typing rules
spec/ref/OperatorTreeEnum.tla  TLC grows all well-typed expressions within the depth bound and checks the design
                               laws (Parse o Build agrees with Direct, value mode = derivative mode, previous-time
                               sub-trees carry no derivative, numpy never captures an AdArray) on every one
spec/trace/J_OperatorTree.tla  TLC judges what the real code returned for every executed expression

Binding: every emitted expression is built with the REAL overloads (operator.add ... on Operators and raw floats /
ndarrays / scipy matrices, pp.ad.Function, previous_timestep / previous_iteration) on a real md-grid
(harness/eqsys_fixture.py) and evaluated through EquationSystem.evaluate / Operator.value / value_and_jacobian with and
without derivatives; the oracle is the interpretation of TLC's DirectProg on AdArrays from initAdArrays([state]),
without Operator / AdParser.  Python only drives the code and converts numbers."""
from __future__ import annotations

import operator as _op
import json
import warnings
from fractions import Fraction
from functools import partial

import numpy as np
import scipy.sparse as sps

from .. import codec
from .. import eqsys_fixture as fx
from .. import tlc

LEVEL = "model_checking"
MATCHERS = {}     # no known finding: the check is silent on the current tree
# J_OperatorTree.Verdict judges the property clauses Evaluates, ValueAgrees, JacobianAgrees, ValueOnlyAgrees,
# PrevTimeNoDerivative (-> ctx.violation), TreeConforms (-> ctx.drift), OracleSane (-> machinery) and tells the band;
# OperatorTreeEnum.DesignLaws = TypeOK, BuildDefined, ParseAgreesDirect, ValueModeConsistent, PrevNoDerivative, NoNumpyCapture
TOL_PASS, TOL_FAIL = 1000, 1000000          # units of 1e-12: 1e-9 passes, > 1e-6 fails (DESIGN 8)
QCAP = 2 ** 30 - 1
LATTICE = [Fraction(1, 2), Fraction(1), Fraction(3, 2), Fraction(2), Fraction(5, 2), Fraction(3)]
OPS = {"+": _op.add, "-": _op.sub, "*": _op.mul, "/": _op.truediv, "**": _op.pow, "@": _op.matmul}
REFL = {"+": "__radd__", "-": "__rsub__", "*": "__rmul__", "/": "__rtruediv__", "**": "__rpow__", "@": "__rmatmul__"}
CUR = [-1, -1]


def _vec(rng, n):
    return np.array([float(rng.choice(LATTICE)) for _ in range(n)])


class Fixture:
    """The leaf table on a real md-grid: operators, raw values, stored time-step / iterate values, and the plain
    values the direct evaluation uses."""

    def __init__(self, seed):
        import porepy as pp
        import random

        self.pp = pp
        self.seed = seed
        rng = random.Random(1000003 * seed + 17)
        self.mdg = fx.mdg()
        sds = self.mdg.subdomains()
        host = sds[0]
        for g in sds:       # start from clean data dictionaries (the md-grid is shared between fixtures)
            d = self.mdg.subdomain_data(g)
            for k in (pp.TIME_STEP_SOLUTIONS, pp.ITERATE_SOLUTIONS):
                d.pop(k, None)
        for g in self.mdg.interfaces():
            d = self.mdg.interface_data(g)
            for k in (pp.TIME_STEP_SOLUTIONS, pp.ITERATE_SOLUTIONS):
                d.pop(k, None)
        intfs = self.mdg.interfaces()
        self.es = pp.ad.EquationSystem(self.mdg)
        mda = self.es.create_variables("a", {"cells": 1}, subdomains=sds)
        mdb = self.es.create_variables("b", {"cells": 1}, subdomains=sds)
        # md-variables whose sub-variables are NOT in md-grid order: created on the reversed list of subdomains /
        # interfaces, and (below) hand-built from two atomic variables of "a" in swapped order
        mdc = self.es.create_variables("c", {"cells": 1}, subdomains=sds[::-1])
        mdd = self.es.create_variables("d", {"cells": 1}, interfaces=intfs[::-1])
        self.ndof = int(self.es.num_dofs())
        # stored values: (variable name, grid id, "t"/"i", index) -> array; all on the lattice, all positive; the four
        # stored vectors of a variable and its slice of the state are pairwise different (a wrong index is visible)
        self.stored, self.atom = {}, {}
        self.state = np.zeros(self.ndof)
        for md in (mda, mdb, mdc, mdd):
            for v in md.sub_vars:
                self.atom[(md.name, v.domain.id)] = v
                taken = []

                def fresh(n=int(v.size)):
                    while True:
                        x = _vec(rng, n)
                        if not any(np.array_equal(x, y) for y in taken):
                            taken.append(x)
                            return x

                for k in (0, 1):
                    for loc in ("t", "i"):
                        x = fresh()
                        self.stored[(md.name, v.domain.id, loc, k)] = x
                        kw = {"time_step_index": k} if loc == "t" else {"iterate_index": k}
                        self.es.set_variable_values(x.copy(), [v], **kw)
                self.state[self.es.dofs_of([v])] = fresh()
        self.state0 = np.asarray(self.es.get_variable_values(iterate_index=0), dtype=float).copy()
        nh = int(host.num_cells)
        n9 = int(mda.size)
        self.tvals = {("t", 0): _vec(rng, nh), ("t", 1): _vec(rng, nh), ("i", 0): _vec(rng, nh)}
        hd = self.mdg.subdomain_data(host)
        pp.set_solution_values("T4", self.tvals[("i", 0)].copy(), hd, iterate_index=0)
        pp.set_solution_values("T4", self.tvals[("t", 0)].copy(), hd, time_step_index=0)
        pp.set_solution_values("T4", self.tvals[("t", 1)].copy(), hd, time_step_index=1)

        def mat(m, n):
            a = np.zeros((m, n))
            for i in range(m):
                for j in range(n):
                    if (i + 2 * j) % 3 != 1:
                        a[i, j] = float(rng.choice(LATTICE))
            return a

        self.base = {}     # name -> python object handed to the real overloads
        self.plain = {}    # name -> plain value used by the direct evaluation (never an Operator)
        self.leaves = []   # the table given to TLC

        def add(name, cls, obj, plain, n=0, m=0, states=(CUR,), cstates=()):
            self.base[name] = obj
            self.plain[name] = plain
            self.leaves.append(dict(name=name, cls=cls, n=int(n), m=int(m), states=[list(s) for s in states],
                                    cstates=[list(s) for s in cstates]))

        var_states = ([-1, -1], [0, -1], [1, -1], [-1, 0], [-1, 1])
        gids = lambda md: [v.domain.id for v in md.sub_vars]  # noqa
        add("a0", "Variable", mda.sub_vars[0], ("var", "a", [host.id]), n=nh, states=var_states, cstates=([-1, -1], [0, -1]))
        add("b0", "Variable", mdb.sub_vars[0], ("var", "b", [host.id]), n=nh, states=([-1, -1], [0, -1]), cstates=([-1, -1],))
        add("A", "MixedDimensionalVariable", mda, ("var", "a", gids(mda)), n=n9,
            states=([-1, -1], [0, -1], [1, -1], [-1, 0]), cstates=([-1, -1],))
        add("B", "MixedDimensionalVariable", mdb, ("var", "b", gids(mdb)), n=n9, states=([-1, -1], [-1, 0]))
        # sub-variables in an order different from the md-grid's (and from the global dof order)
        add("C", "MixedDimensionalVariable", mdc, ("var", "c", gids(mdc)), n=int(mdc.size), states=var_states,
            cstates=([-1, -1],))
        hand = pp.ad.MixedDimensionalVariable([mda.sub_vars[1], mda.sub_vars[0]])      # fracture before host
        add("Ah", "MixedDimensionalVariable", hand, ("var", "a", gids(hand)), n=int(hand.size), states=var_states)
        add("Dv", "MixedDimensionalVariable", mdd, ("var", "d", gids(mdd)), n=int(mdd.size), states=var_states)
        add("S", "Scalar", pp.ad.Scalar(2.0), 2.0, cstates=(CUR,))
        d4, d9 = _vec(rng, nh), _vec(rng, n9)
        add("D4", "DenseArray", pp.ad.DenseArray(d4.copy()), d4, n=nh, cstates=(CUR,))
        add("D9", "DenseArray", pp.ad.DenseArray(d9.copy()), d9, n=n9)
        add("T4", "TimeDependentDenseArray", pp.ad.TimeDependentDenseArray("T4", [host]), ("tdda",), n=nh,
            states=([-1, -1], [0, -1], [1, -1]))
        m44, m49, m94 = mat(nh, nh), mat(nh, n9), mat(n9, nh)
        add("M44", "SparseArray", pp.ad.SparseArray(sps.csr_matrix(m44)), sps.csr_matrix(m44), n=nh, m=nh, cstates=(CUR,))
        add("M49", "SparseArray", pp.ad.SparseArray(sps.csr_matrix(m49)), sps.csr_matrix(m49), n=nh, m=n9)
        add("M94", "SparseArray", pp.ad.SparseArray(sps.csc_matrix(m94)), sps.csc_matrix(m94), n=n9, m=nh)
        S = pp.matrix_operations.ArraySlicer
        dom = np.arange(n9)[::2][:nh] if (n9 + 1) // 2 >= nh else np.arange(nh)
        p49 = dict(domain_indices=dom, range_indices=np.arange(nh)[::-1].copy(), domain_size=n9, range_size=nh)
        p94a = dict(domain_indices=np.arange(nh), range_indices=np.arange(nh), domain_size=nh, range_size=n9)
        p94b = dict(domain_indices=np.arange(nh), range_indices=np.arange(n9 - nh, n9), domain_size=nh, range_size=n9)
        cp = lambda kw: {k: (v.copy() if isinstance(v, np.ndarray) else v) for k, v in kw.items()}  # noqa
        add("P49", "Projection", pp.ad.Projection(**cp(p49)), S(**cp(p49)), n=nh, m=n9, cstates=(CUR,))
        add("P94", "Projection", pp.ad.Projection(**cp(p94b)), S(**cp(p94b)), n=n9, m=nh)
        pl = pp.ad.sum_projection_list([pp.ad.Projection(**cp(p94a)), pp.ad.Projection(**cp(p94b))])
        add("PL94", "ProjectionList", pl, [S(**cp(p94a)), S(**cp(p94b))], n=n9, m=nh)
        add("rf", "float", 3.0, 3.0, cstates=(CUR,))
        add("ri", "int", 2, 2)
        add("rnf", "npfloat", np.float64(1.5), np.float64(1.5))
        r4, r9 = _vec(rng, nh), _vec(rng, n9)
        add("r4", "ndarray", r4.copy(), r4, n=nh, cstates=(CUR,))
        add("r9", "ndarray", r9.copy(), r9, n=n9)
        add("ri4", "ndarray", np.arange(1, nh + 1), np.arange(1, nh + 1), n=nh)      # integer dtype
        rm44, rm49 = mat(nh, nh), mat(nh, n9)
        add("rm44", "spmatrix", sps.csr_matrix(rm44), sps.csr_matrix(rm44), n=nh, m=nh, cstates=(CUR,))
        add("rm49", "spmatrix", sps.csr_matrix(rm49), sps.csr_matrix(rm49), n=nh, m=n9)
        add("rma44", "sparray", sps.csr_array(rm44.T.copy()), sps.csr_array(rm44.T.copy()), n=nh, m=nh)
        self.funcs = {"exp": pp.ad.functions.exp, "abs": pp.ad.functions.abs,
                      "l2": partial(pp.ad.functions.l2_norm, 2), "max": pp.ad.functions.maximum}
        self._ids = {}

    # ---- building with the real overloads -----------------------------------------------------------------------
    def leaf_obj(self, name, tsi, iti):
        o = self.base[name]
        if tsi >= 0:
            o = o.previous_timestep(steps=tsi + 1)
        if iti >= 0:
            o = o.previous_iteration(steps=iti + 1)
        return o

    def build(self, e):
        pp = self.pp
        t = e[0]
        if t == "leaf":
            o = self.leaf_obj(e[1], e[2], e[3])
            self._ids[id(o)] = e[1]
            return o
        if t == "bin":
            return OPS[e[1]](self.build(e[2]), self.build(e[3]))
        if t == "fn":
            return pp.ad.Function(self.funcs[e[1]], e[1])(*[self.build(a) for a in e[2]])
        if t == "shift":
            o = self.build(e[2])
            k = 2 if e[1].endswith("2") else 1
            return o.previous_timestep(steps=k) if e[1].startswith("time") else o.previous_iteration(steps=k)
        raise ValueError(e)

    def project(self, o):
        """Built tree -> nested lists in the vocabulary of OperatorTree.Build."""
        pp = self.pp
        if not isinstance(o, pp.ad.Operator):
            return ["raw", type(o).__name__, "?"]
        if o.is_leaf() or isinstance(o, pp.ad.ProjectionList):
            return ["leaf", type(o).__name__, self.leaf_name(o), int(getattr(o, "_time_step_index", -1)),
                    int(getattr(o, "_iterate_index", -1))]
        if o.operation == pp.ad.operators.Operations.evaluate:
            f = getattr(getattr(o, "func", None), "__self__", None)
            return ["eval", str(getattr(f, "_name", "?")), [self.project(c) for c in o.children]]
        cs = [self.project(c) for c in o.children]
        return ["node", str(o.operation.value)] + cs

    def leaf_name(self, o):
        pp = self.pp
        for nm, b in self.base.items():
            if o is b:
                return nm
            if isinstance(b, pp.ad.Operator):
                if isinstance(o, pp.ad.ProjectionList) and isinstance(b, pp.ad.ProjectionList) and \
                        len(o.children) == len(b.children) and all(x is y for x, y in zip(o.children, b.children)):
                    return nm
                if isinstance(o, pp.ad.Variable) and isinstance(b, pp.ad.Variable) and type(o) is type(b) and o.id == b.id:
                    return nm
                if isinstance(o, pp.ad.TimeDependentDenseArray) and isinstance(b, pp.ad.TimeDependentDenseArray) and o.name == b.name:
                    return nm
                continue
            # wrappers of raw values
            if isinstance(o, pp.ad.DenseArray) and isinstance(b, np.ndarray):
                if np.shares_memory(o._values, b) or (b.dtype != float and o._values.shape == b.shape and np.array_equal(o._values, b)):
                    return nm
            if isinstance(o, pp.ad.SparseArray) and sps.issparse(b) and o._mat is b:
                return nm
            if isinstance(o, pp.ad.Scalar) and isinstance(b, (int, float)) and not isinstance(b, np.ndarray):
                if o._value == float(b) and type(o._value) is float:
                    return nm
        return "?"

    # ---- the oracle: TLC's DirectProg on forward-mode arrays ---------------------------------------------------------
    def dofs(self, var, grids):
        return np.hstack([self.es.dofs_of([self.atom[(var, g)]]) for g in grids]).astype(int)

    def leaf_value(self, name, tsi, iti, ad):
        p = self.plain[name]
        if isinstance(p, tuple) and p[0] == "var":
            _, var, grids = p          # grids: the domains of the sub-variables, in the order of the sub-variables
            if tsi < 0 and iti < 0:
                return ad[self.dofs(var, grids)]
            loc, k = ("t", tsi) if tsi >= 0 else ("i", iti)
            return np.hstack([self.stored[(var, g, loc, k)] for g in grids]).copy()
        if isinstance(p, tuple) and p[0] == "tdda":
            return (self.tvals[("t", tsi)] if tsi >= 0 else self.tvals[("i", 0)]).copy()
        if isinstance(p, list):
            return [s.copy() for s in p]
        return p.copy() if hasattr(p, "copy") else p

    def direct(self, prog, ad):
        """Interpret TLC's DirectProg; self.all_finite records whether EVERY intermediate value was finite."""
        r = self._direct(prog, ad)
        pp = self.pp
        if isinstance(r, pp.ad.AdArray):
            ok = np.all(np.isfinite(r.val)) and np.all(np.isfinite(r.jac.data))
        elif isinstance(r, (np.ndarray, float, int)):
            ok = np.all(np.isfinite(r))
        else:
            ok = True
        if not ok:
            self.all_finite = False
        return r

    def _direct(self, prog, ad):
        t = prog[0]
        if t == "leaf":
            return self.leaf_value(prog[1], prog[2], prog[3], ad)
        if t == "bin":
            sym, how = prog[1], prog[2]
            x, y = self.direct(prog[3], ad), self.direct(prog[4], ad)
            if how == "reflected":
                return getattr(y, REFL[sym])(x)
            if how == "sumlist":
                return sum(s @ y for s in x)
            return OPS[sym](x, y)
        if t == "call":
            return self.funcs[prog[1]](*[self.direct(a, ad) for a in prog[2]])
        raise ValueError(prog)


# ---- number conversion ------------------------------------------------------------------------------------------------
MAXDEN = 1000     # any double is within 1e-9 of SOME fraction with a denominator up to 1e6; up to 1e3 only exact ones are


def _rat(x):
    r = codec.rat(x, maxden=MAXDEN)
    return [int(r[0]), int(r[1])]


def _as_vec(x):
    if isinstance(x, (int, float)) and not isinstance(x, np.ndarray):
        return np.array([float(x)])
    return np.asarray(x, dtype=float)


def _dense(j):
    return np.asarray(j.todense()) if sps.issparse(j) else np.asarray(j, dtype=float)


def _dev(x, ref):
    """largest |x - ref| / max(1, |ref|) in units of 1e-12 (an integer TLC can compare)"""
    x, ref = np.asarray(x, dtype=float).ravel(), np.asarray(ref, dtype=float).ravel()
    if x.shape != ref.shape:
        return QCAP
    if x.size == 0:
        return 0
    with np.errstate(all="ignore"):
        q = np.abs(x - ref) / np.maximum(1.0, np.abs(ref))
    if not np.all(np.isfinite(q)):
        return QCAP
    return int(min(QCAP, np.ceil(float(q.max()) * 1e12)))


def _kind(x):
    import porepy as pp

    if isinstance(x, pp.ad.AdArray):
        return "AdArray"
    if isinstance(x, np.ndarray):
        return "ndarray" if x.ndim == 1 else f"ndarray{x.ndim}d"
    if isinstance(x, (float, int)):
        return "float"
    return type(x).__name__


def _jtriples(J):
    out = []
    for i in range(J.shape[0]):
        for j in range(J.shape[1]):
            if J[i, j] != 0.0:
                out.append([i, j] + _rat(J[i, j]))
    return out


def _err(e):
    return f"{type(e).__name__}: {e}"[:160].replace("\n", " ")


def _evaluate(fix, o, deriv, entry):
    es = fix.es
    if entry == 1:
        return o.value_and_jacobian(es, fix.state) if deriv else o.value(es, fix.state)
    if entry == 2:
        return es.evaluate(o, derivative=deriv)        # state = None: the stored current iterate
    return es.evaluate(o, derivative=deriv, state=fix.state)


def execute(fix, rec, entry):
    """Build rec['expr'] with the real overloads, evaluate it both ways, evaluate the oracle program."""
    pp = fix.pp
    expr = rec["expr"]
    out = dict(expr=expr, entry=entry, seed=fix.seed, berr="", built=["error"],
               d=dict(err="", kind="", n=0, val=[], jshape=[0, 0], jac=[]),
               v=dict(err="", kind="", n=0, val=[]),
               r=dict(err="", kind="", n=0, val=[], jac=[], finite=True), exact=True, q=dict(dv=0, dj=0, vv=0), prev=[])
    state = fix.state0 if entry == 2 else fix.state
    ad = pp.ad.initAdArrays([state.copy()])[0]
    with warnings.catch_warnings(), np.errstate(all="ignore"):
        warnings.simplefilter("ignore")
        fix.all_finite = True
        try:
            ref = fix.direct(rec["prog"], ad)      # any other exception here is a defect of the typing rules: machinery
        except ArithmeticError as e:               # division by zero / overflow: the expression is undefined at this state
            ref = None
            out["r"]["err"] = _err(e)
        if ref is None:
            rk, rval, rjac, finite = "", np.zeros(0), np.zeros((0, fix.ndof)), False
        else:
            rk = _kind(ref)
            rval = ref.val if rk == "AdArray" else _as_vec(ref)
            rjac = _dense(ref.jac) if rk == "AdArray" else np.zeros((rval.size, fix.ndof))
            finite = bool(fix.all_finite and np.all(np.isfinite(rval)) and np.all(np.isfinite(rjac)))
        out["r"].update(kind=rk, n=int(rval.size), finite=finite)
        o = None
        try:
            o = fix.build(expr)
            if not isinstance(o, pp.ad.Operator):
                out["berr"] = f"not an Operator: {type(o).__name__}"
            else:
                out["built"] = fix.project(o)
        except Exception as e:  # observation
            out["berr"] = _err(e)
        dres = vres = None
        if not out["berr"]:
            try:
                dres = _evaluate(fix, o, True, entry)
                out["d"].update(kind=_kind(dres))
                if out["d"]["kind"] == "AdArray":
                    out["d"].update(n=int(dres.val.size), jshape=[int(s) for s in dres.jac.shape])
            except Exception as e:
                out["d"]["err"] = _err(e)
            try:
                vres = _evaluate(fix, o, False, entry)
                out["v"].update(kind=_kind(vres))
                if out["v"]["kind"] in ("ndarray", "float"):
                    out["v"]["n"] = int(_as_vec(vres).size)
            except Exception as e:
                out["v"]["err"] = _err(e)
        # the same operator evaluated again after Scalar.set_value (the way a model changes its time step): the value of the
        # Scalar leaf S becomes 3, the tree is multiplied by a new Scalar(2) (S's old value); the oracle is 2 * direct(S = 3)
        out["again"] = dict(done=False, err="", qv=0, qj=0)
        if dres is not None and out["d"]["kind"] == "AdArray" and finite and rk == "AdArray" and '"S"' in json.dumps(expr):
            S, keep = fix.base["S"], fix.plain["S"]
            try:
                S.set_value(3.0)
                fix.plain["S"] = 3.0
                fix.all_finite = True
                ref2 = fix.direct(rec["prog"], ad)
                if fix.all_finite and np.all(np.isfinite(ref2.val)) and np.all(np.isfinite(_dense(ref2.jac))):
                    try:
                        d2 = _evaluate(fix, o * pp.ad.Scalar(2.0), True, entry)
                        out["again"].update(done=True, qv=_dev(d2.val, 2.0 * ref2.val), qj=_dev(_dense(d2.jac), 2.0 * _dense(ref2.jac)))
                    except Exception as e:  # observation
                        out["again"].update(done=True, err=_err(e))
            except ArithmeticError:
                pass
            finally:
                S.set_value(keep)
                fix.plain["S"] = keep
        dval = dres.val if out["d"]["kind"] == "AdArray" else None
        djac = _dense(dres.jac) if out["d"]["kind"] == "AdArray" else None
        vval = _as_vec(vres) if out["v"]["kind"] in ("ndarray", "float") else None
        if finite:
            try:
                enc = dict(r=([_rat(x) for x in rval], _jtriples(rjac)))
                if dval is not None:
                    enc["d"] = ([_rat(x) for x in dval], _jtriples(djac))
                if vval is not None:
                    enc["v"] = [_rat(x) for x in vval]
                out["r"].update(val=enc["r"][0], jac=enc["r"][1])
                if "d" in enc:
                    out["d"].update(val=enc["d"][0], jac=enc["d"][1])
                if "v" in enc:
                    out["v"].update(val=enc["v"])
            except (codec.Inexact, OverflowError, ValueError):
                out["exact"] = False
                if dval is not None:
                    out["q"]["dv"] = _dev(dval, rval)
                    out["q"]["dj"] = _dev(djac, rjac)
                    if vval is not None:
                        out["q"]["vv"] = _dev(vval, dval)
        # sub-expressions at a previous time step / iterate, evaluated alone
        for p in rec["prev"]:
            pr = dict(expr=p["expr"], err="", n=0, val=[], jnnz=0, ref=[], exact=True, q=0, finite=True)
            try:
                fix.all_finite = True
                pref = _as_vec(fix.direct(p["prog"], ad))
                pr["finite"] = bool(fix.all_finite and np.all(np.isfinite(pref)))
            except ArithmeticError:
                pref, pr["finite"] = np.zeros(0), False
            try:
                po = fix.build(p["expr"])
                pres = _evaluate(fix, po, True, entry)
                if _kind(pres) != "AdArray":
                    pr["err"] = f"not an AdArray: {_kind(pres)}"
                else:
                    pr["n"] = int(pres.val.size)
                    pr["jnnz"] = int(np.count_nonzero(_dense(pres.jac)))
                    if pr["finite"]:
                        try:
                            pr["val"] = [_rat(x) for x in pres.val]
                            pr["ref"] = [_rat(x) for x in pref]
                        except (codec.Inexact, OverflowError, ValueError):
                            pr["exact"], pr["val"], pr["ref"] = False, [], []
                            pr["q"] = _dev(pres.val, pref)
            except Exception as e:
                pr["err"] = _err(e)
            out["prev"].append(pr)
    return out


# ---- TLC runs -------------------------------------------------------------------------------------------------------------
def spec_consts(fix, style="swap", optout=True):
    return dict(Leaves=fix.leaves, LeafTab={lf["name"]: lf for lf in fix.leaves}, ReflectedStyle=style, UfuncOptOut=optout,
                MaxIndex=1)


def enumerate_exprs(ctx, fix, max_depth, two_sided, emit_from=0, simulate=None, tag="enum", timeout=1500, sample=(1, 0),
                    pair_all=True):
    consts = dict(spec_consts(fix), MaxDepth=max_depth, TwoSided=two_sided, EmitFrom=emit_from, CoreStart=bool(simulate),
                  SampleMod=sample[0], SampleRes=sample[1], PairAll=pair_all)
    m, cf = tlc.gen(ctx.work / tag, "MC_OperatorTreeEnum", "OperatorTreeEnum", consts, invariants=["Emit", "DesignLaws"])
    kw = dict(workers=8, allow_violation=False, timeout=timeout)
    if simulate:
        kw.update(simulate=simulate, depth=max_depth + 1, workers=1)
    res = ctx.tlc(m, cf, **kw)
    seen, out = set(), []
    for r in res.records:
        k = repr(r["expr"])
        if k not in seen:
            seen.add(k)
            out.append(r)
    return out


def depth(e):
    if e[0] == "leaf":
        return 0
    if e[0] == "bin":
        return 1 + max(depth(e[2]), depth(e[3]))
    if e[0] == "fn":
        return 1 + max(depth(a) for a in e[2])
    return 1 + depth(e[2])


def shape_key(e):
    """class of a case for the coverage count: operations and leaf classes, values forgotten"""
    if e[0] == "leaf":
        return f"{e[1]}{'t' if e[2] >= 0 else ''}{'i' if e[3] >= 0 else ''}"
    if e[0] == "bin":
        return f"({shape_key(e[2])}{e[1]}{shape_key(e[3])})"
    if e[0] == "fn":
        return f"{e[1]}({','.join(shape_key(a) for a in e[2])})"
    return f"{e[1]}[{shape_key(e[2])}]"


RAW_LEAVES = ("rf", "ri", "rnf", "r4", "r9", "ri4", "rm44", "rm49", "rma44")


def raw_left(e):
    """a plain number / numpy array / scipy matrix is the left operand somewhere in e"""
    if e[0] == "leaf":
        return False
    if e[0] == "bin":
        return (e[2][0] == "leaf" and e[2][1] in RAW_LEAVES) or raw_left(e[2]) or raw_left(e[3])
    if e[0] == "fn":
        return any(raw_left(a) for a in e[2])
    return raw_left(e[2])


def has_prev(e):
    if e[0] == "leaf":
        return e[2] >= 0 or e[3] >= 0
    if e[0] == "bin":
        return has_prev(e[2]) or has_prev(e[3])
    if e[0] == "fn":
        return any(has_prev(a) for a in e[2])
    return True


def judge(ctx, fix, outs, prefix=""):
    jc = dict(spec_consts(fix), NDOF=fix.ndof, TolPass=TOL_PASS, TolFail=TOL_FAIL)
    for lo in range(0, len(outs), 5000):
        batch = outs[lo:lo + 5000]
        cases = [{k: o[k] for k in ("expr", "berr", "built", "d", "v", "r", "exact", "q", "prev", "again")} for o in batch]
        for v in ctx.judge("J_OperatorTree", cases, ["Verdict"], consts=jc, workers=8):
            o = batch[v["case"] - 1]
            rec = dict(expr=o["expr"], prog=o["prog"], prevprogs=o["prevprogs"], entry=o["entry"], seed=o["seed"],
                       observed={k: o[k] for k in ("berr", "built", "d", "v", "r", "exact", "q", "prev", "again")})
            if v.get("tag") == "inconclusive":
                ctx.inconclusive += 1
            elif v["clause"] == "OracleSane":
                raise RuntimeError(f"the oracle does not have the kind the typing rules predict: {o['expr']} {o['r']['kind']} n={o['r']['n']}")
            elif v["clause"] == "TreeConforms":
                ctx.drift(f"built tree differs from Build: {shape_key(o['expr'])} built={o['built']}", rec)
            else:
                what = o["berr"] or o["d"]["err"] or o["v"]["err"] or (v["clause"] == "AfterSetValueAgrees" and o["again"]["err"]) or "results differ"
                ctx.violation(v["clause"], rec, f"{prefix}{shape_key(o['expr'])} entry={o['entry']}: {what}")


def run_cases(ctx, fix, recs):
    outs = []
    for i, r in enumerate(recs):
        o = execute(fix, r, i % 3)
        o["prog"] = r["prog"]
        o["prevprogs"] = r["prev"]
        outs.append(o)
        e = r["expr"]
        ctx.case(key=shape_key(e), nontrivial=depth(e) >= 1)
    return outs


def run(ctx):
    ctx.rule = ("TLC grows every well-typed expression (typing rules of OperatorTree.tla) over a table of 30 leaves (atomic / md (also with sub-variables not in md-grid order: reversed creation, hand-built, on interfaces) / "
                "previous-time (1-2 steps) / previous-iterate variables, Scalar, DenseArray, SparseArray, Projection, "
                "ProjectionList, TimeDependentDenseArray, raw float / int / numpy scalar / ndarray / scipy matrix) x "
                "{+,-,*,/,**,@} x operand order x pp.ad.Function(exp, abs, l2_norm, maximum) x previous_timestep / "
                "previous_iteration (steps 1 and 2) of composites: depth <= 1 complete, depth 2 over 12 core leaves (quick: a hashed subset; "
                "thorough: all with a leaf operand + sampled composite op composite + sampled depth 3); a case is one "
                "expression built with the real overloads and evaluated with and without derivatives; distinct = "
                "expression shapes (operations and leaf classes)")
    ctx.assumptions = [
        "stored values, state, arrays and matrices are drawn (seeded) from the lattice {1/2,1,3/2,2,5/2,3}: all positive",
        "numbers are compared as exact rationals when every number of the case is within 1e-9 of a rational with "
        "denominator <= 1000; otherwise by the largest deviation |x-ref|/max(1,|ref|): <= 1e-9 passes, > 1e-6 fails, the "
        "band in between is inconclusive (DESIGN 8)",
        "expressions whose direct evaluation is not finite at the state in some sub-expression (division by zero, overflow, "
        "negative base with a fractional power) are outside the family",
        "well-typed = the typing rules of the forward-mode arrays (OperatorTree.DirectK): scalars / equally sized arrays / "
        "AdArrays with every operation except @; sparse matrices only as M@x, M+-M, c*M, M/c; projections only as P@x",
        "entry points alternate: EquationSystem.evaluate(state), Operator.value / value_and_jacobian(state), "
        "EquationSystem.evaluate(state=None)",
    ]
    fix = Fixture(ctx.seed)
    if ctx.quick:
        # depth <= 1 (every leaf with every core leaf, both orders): exhaustive; depth 2: the composites of depth 1 over
        # the core leaves whose structural hash = seed mod 59 are extended in every way, the others only shifted (one TLC run)
        recs = enumerate_exprs(ctx, fix, 2, False, sample=(59, ctx.seed % 59), pair_all=False)
        chosen = recs
        ctx.extra["depth2_sampled"] = sum(1 for r in recs if depth(r["expr"]) == 2)
    else:
        # depth <= 2 (one operand of a composite is a core leaf): exhaustive; composite op composite and depth 3: sampled
        recs = enumerate_exprs(ctx, fix, 2, False, timeout=3000)
        d2 = enumerate_exprs(ctx, fix, 2, True, emit_from=2, simulate="num=2", tag="enum2", timeout=3000)
        d3 = enumerate_exprs(ctx, fix, 3, False, emit_from=3, simulate="num=30", tag="enum3", timeout=3000)
        seen = {repr(r["expr"]) for r in recs}
        d2 = [r for r in d2 if repr(r["expr"]) not in seen]
        chosen = recs + d2 + d3
        ctx.extra["depth2_two_sided_sampled"] = len(d2)
        ctx.extra["depth3_sampled"] = len(d3)
    ctx.exhaustive = False
    ctx.extra["enumerated_exhaustively"] = len(recs)
    outs = run_cases(ctx, fix, chosen)
    ctx.extra["executed"] = len(outs)
    ctx.extra["executed_raw_left_operand"] = sum(1 for o in outs if raw_left(o["expr"]))
    ctx.extra["executed_with_previous_time_or_iterate"] = sum(1 for o in outs if o["prev"])
    ctx.extra["executed_inexact_float_compared"] = sum(1 for o in outs if not o["exact"])
    ctx.extra["executed_not_finite_excluded"] = sum(1 for o in outs if not o["r"]["finite"])
    judge(ctx, fix, outs)
    shown = 0
    for o in outs:
        if depth(o["expr"]) == 2 and raw_left(o["expr"]) and o["exact"] and shown < 3:
            ctx.sample(dict(expr=o["expr"], built=o["built"], value=o["d"]["val"], jac_nonzeros=len(o["d"]["jac"])))
            shown += 1
    for o in outs:
        if o["prev"] and o["exact"] and o["prev"][0]["expr"] != o["expr"] and o["d"]["jac"]:
            ctx.sample(dict(expr=o["expr"], value=o["d"]["val"], prev=[dict(expr=p["expr"], val=p["val"], jnnz=p["jnnz"]) for p in o["prev"]]))
            break


def replay(ctx, body):
    rec = body["record"]
    fix = Fixture(int(rec["seed"]))
    r = dict(expr=rec["expr"], prog=rec["prog"], prev=rec["prevprogs"])
    o = execute(fix, r, int(rec["entry"]))
    o["prog"], o["prevprogs"] = r["prog"], r["prev"]
    ctx.case(key=shape_key(rec["expr"]))
    ctx.sample(dict(expr=rec["expr"], observed={k: o[k] for k in ("berr", "d", "v")}))
    judge(ctx, fix, [o], prefix="replayed: ")
