"""C05 Degree-of-freedom layout is a bijection under any variable history.

spec/ref/DofLayoutRef.tla (the required layout), spec/sys/DofLayout.tla (mechanism, design check Impl = Ref),
spec/trace/T_DofLayout.tla (conformance of recorded create/remove histories), spec/trace/J_DofLayout.tla (TLC
judges every recorded state of the real EquationSystem: ranges, owner lookup, projections, value round trips)."""
from __future__ import annotations

import itertools

import numpy as np

from .. import eqsys_fixture as fx
from .. import explore as ex
from .. import tlc

LEVEL = "model_checking"
NAMES = ["a", "b"]
CLAUSES = ["Total", "Ranges", "Owner", "Projection", "RoundTrip", "Dissect"]


class Sys:
    def __init__(self):
        import porepy as pp

        self.mdg = fx.mdg()
        self.es = pp.ad.EquationSystem(self.mdg)
        self.created = {}  # Variable.id -> (canonical vid, d)
        self.last = "init"
        self.n = 0


def apply(s: Sys, e):
    gs = fx.grids()
    try:
        if e["ev"] == "create":
            dom = fx.domains()[e["dom"] - 1]
            objs = [gs[i - 1][1] for i in dom]
            kw = dict(subdomains=objs) if gs[dom[0] - 1][0] == "sd" else dict(interfaces=objs)
            md = s.es.create_variables(e["name"], fx.dof_info(e["d"]), **kw)
            for v in md.sub_vars:
                s.n += 1
                s.created[v.id] = (s.n, e["d"])
        elif e["ev"] == "remove":
            s.es.remove_variables([e["name"]])
        s.last = "ok"
    except KeyError:
        s.last = "KeyError"
    except ValueError:
        s.last = "ValueError"
    return {}


def _gi(s, grid):
    for i, (_, g) in enumerate(fx.grids(), 1):
        if g is grid:
            return i
    raise RuntimeError("unknown grid")


def project(s: Sys):
    """Cheap projection used as node identity and for conformance."""
    es = s.es
    reg = [dict(vid=s.created[v.id][0], name=v.name, g=_gi(s, v.domain), d=s.created[v.id][1]) for v in es.variables]
    numb = [s.created[i][0] for i, _ in sorted(es._variable_numbers.items(), key=lambda kv: kv[1])]
    return dict(reg=reg, numb=numb, sizes=[int(x) for x in es._variable_num_dofs], last=s.last)


def observe(s: Sys, rng):
    """Full observation of the public API in the current state (one judged case)."""
    import porepy as pp

    es = s.es
    vs = es.variables
    reg = [dict(vid=s.created[v.id][0], name=v.name, g=_gi(s, v.domain), d=s.created[v.id][1]) for v in vs]
    errors = []

    def guarded(what, fn, default):
        # an exception raised by the code under test on a valid call is an observation (the clause that
        # needs the value then fails in TLC), never a harness failure
        try:
            return fn()
        except Exception as e:  # noqa
            errors.append(f"{what}: {type(e).__name__}: {e}"[:200])
            return default

    total = guarded("num_dofs", lambda: int(es.num_dofs()), -1)
    dofs = [guarded("dofs_of", lambda v=v: [int(i) for i in es.dofs_of([v])], [-1]) for v in vs]
    owner = [guarded("identify_dof", lambda i=i: s.created[es.identify_dof(i).id][0], -1) for i in range(max(total, 0))]
    # subsets: by name, md-variable, atomic variables, random mixed subsets (order of the argument shuffled)
    subsets = []
    for nm in sorted({v.name for v in vs}):
        subsets.append(([nm], [v for v in vs if v.name == nm]))
        try:  # a name living on subdomains and on interfaces has no md-variable (documented ValueError)
            subsets.append(([es.md_variable(nm)], [v for v in vs if v.name == nm]))
        except ValueError:
            pass
    for v in vs[:3]:
        subsets.append(([v], [v]))
    for _ in range(3):
        if len(vs) >= 2:
            k = rng.randint(1, len(vs))
            pick = rng.sample(list(vs), k)
            subsets.append((list(pick), list(pick)))
    if vs:
        subsets.append((None, list(vs)))
    proj, rt = [], []
    def one_proj(arg):
        P = es.projection_to(arg).tocsr()
        return [int(P.indices[P.indptr[r]]) if P.indptr[r + 1] - P.indptr[r] == 1 and P.data[P.indptr[r]] == 1 else -1
                for r in range(P.shape[0])]

    def one_rt(arg, members, S):
        n = sum(len(es.dofs_of([v])) for v in members)
        written = np.arange(1, n + 1, dtype=float) + 100.0
        es.set_variable_values(written, arg, iterate_index=0)
        read = es.get_variable_values(arg, iterate_index=0)
        pervar = []
        for v in members:
            data = es._get_data(v.domain)
            stored = pp.get_solution_values(v.name, data, iterate_index=0)
            pervar.append(dict(vid=s.created[v.id][0], vals=[int(x) for x in stored]))
        es.set_variable_values(written, arg, iterate_index=0, additive=True)
        readadd = es.get_variable_values(arg, iterate_index=0)
        return dict(S=S, written=[int(x) for x in written], read=[int(x) for x in read],
                    readadd=[int(x) for x in readadd], pervar=pervar)

    for arg, members in subsets:
        S = [s.created[v.id][0] for v in members]
        if arg is not None:
            proj.append(dict(S=S, cols=guarded("projection_to", lambda: one_proj(arg), [-1])))
        rt.append(guarded("set/get_variable_values", lambda: one_rt(arg, members, S),
                          dict(S=S, written=[0], read=[-1], readadd=[-1], pervar=[])))
    return dict(reg=reg, total=total, dofs=dofs, owner=owner, proj=proj, rt=rt, errors=errors)


def touch(s: Sys):
    """Read-only lookups, as user code would do between create/remove calls; results are not judged here (the
    final observation is), exceptions are ignored here and show up in the final observation if they persist."""
    es = s.es
    try:
        vs = es.variables
        if vs:
            es.dofs_of(vs)
            es.identify_dof(es.num_dofs() - 1) if es.num_dofs() > 0 else None
            es.projection_to(vs[:1])
    except Exception:  # noqa
        pass


def actions_for(ndt, ndom, max_vars):
    doms = fx.domains()

    def actions(p):
        acts = []
        full = getattr(actions, "depth", 0) < getattr(actions, "full_depth", 10 ** 9)
        for nm in NAMES:
            for d in range(1, ndt + 1):
                for dom in range(1, ndom + 1):
                    # beyond full_depth only removals are offered (histories ending in a removal at low cost)
                    if full and len(p["reg"]) + len(doms[dom - 1]) <= max_vars:
                        acts.append(dict(ev="create", name=nm, d=d, dom=dom))
            if any(r["name"] == nm for r in p["reg"]):
                acts.append(dict(ev="remove", name=nm))
        return acts

    return actions


def consts(ndt, ndom, max_vars):
    return dict(Grids=fx.grid_consts(), DofTypes=fx.DOF_TYPES[:ndt], Names=set(NAMES), Domains=fx.domains()[:ndom],
                MaxVars=max_vars)


def run(ctx):
    ctx.rule = ("every history of create_variables (2 names x dof types x domain choices on a 4-subdomain/4-interface md-grid) and "
                "remove_variables up to length L is executed on a real EquationSystem; every distinct reached state is observed through "
                "dofs_of, identify_dof (every index), projection_to, set/get_variable_values (plain and additive; by name, md-variable, "
                "atomic variables, shuffled subsets) and judged by TLC; a state is non-trivial when it holds >= 2 variables")
    ctx.assumptions = ["values written are distinct integers (exact comparison)", "subset arguments are sampled per state (seeded)"]
    ndt, ndom = (3, 6) if ctx.quick else (4, 6)
    L = 2        # all histories of length <= L (+ one level of removals); longer ones are sampled below
    max_vars = 10
    # design: mechanism realises the reference order
    m, cf = tlc.gen(ctx.work / "design", "MC_DofLayout", "DofLayout", consts(ndt, ndom, max_vars),
                    invariants=["ImplIsRef", "TypeOK"], constraint="Lim", extra_defs=f'Lim == TLCGet("level") <= {L + 1}')
    ctx.tlc(m, cf, workers=8, allow_violation=False)
    # real histories
    acts = actions_for(ndt, ndom, max_vars)
    acts.full_depth = L          # all calls up to length L, then one more level of removals only
    g = ex.explore_paths(Sys, actions=acts, apply=apply, project=project, max_depth=L + 1,
                         max_nodes=6000 if ctx.quick else 40000)
    ctx.traces += ex.n_edges(g)
    # observe every distinct state through the public API (re-execute its shortest history)
    cases, paths = [], []
    ids = list(range(1, len(g["nodes"]) + 1))
    if not ctx.quick and len(ids) > 1600:   # thorough: a larger seeded sample of the reached states
        n_l = sum(1 for n in ids if len(ex.path_to(g, n)) <= L)
        tail = ids[n_l:]
        ids = ids[:200] + sorted(ctx.rng.sample(ids[200:n_l], min(1000, max(0, n_l - 200)))) + sorted(ctx.rng.sample(tail, min(400, len(tail))))
        ctx.extra["states_observed"] = f"{len(ids)} of {len(g['nodes'])} (seeded sample)"
    if ctx.quick and len(ids) > 260:   # quick tier: the 60 shallowest states + a seeded sample of the rest
        n_l = sum(1 for n in ids if len(ex.path_to(g, n)) <= L)     # states of the full-alphabet levels come first (BFS)
        tail = ids[n_l:]
        ids = ids[:60] + sorted(ctx.rng.sample(ids[60:n_l], min(150, max(0, n_l - 60)))) + sorted(ctx.rng.sample(tail, min(70, len(tail))))
        ctx.extra["states_observed"] = f"{len(ids)} of {len(g['nodes'])} (seeded sample)"
    for n in ids:
        path = ex.path_to(g, n)
        s = Sys()
        for e in path:
            apply(s, e)
            touch(s)   # lookups between the mutations are part of the history (a stale lookup cache must show)
        cases.append(observe(s, ctx.rng))
        paths.append(path)
        ctx.case(key=("state", n), nontrivial=len(g["nodes"][n - 1]["reg"]) >= 2)
    # seeded longer histories (length 3..6) over the same alphabet, lookups after every call, observed at the end
    alphabet = [dict(ev="create", name=nm, d=d, dom=dom) for nm in NAMES for d in range(1, ndt + 1) for dom in range(1, ndom + 1)]
    for k in range(40 if ctx.quick else 400):
        hist, s = [], Sys()
        for _ in range(ctx.rng.randint(3, 6)):
            e = dict(ev="remove", name=ctx.rng.choice(NAMES)) if (ctx.rng.random() < 0.3 and s.es.variables) else dict(ctx.rng.choice(alphabet))
            if e["ev"] == "create" and len(s.es.variables) + len(fx.domains()[e["dom"] - 1]) > max_vars:
                continue
            hist.append(e)
            apply(s, e)
            touch(s)
        cases.append(observe(s, ctx.rng))
        paths.append(hist)
        ctx.case(key=("long", k), nontrivial=len(s.es.variables) >= 2)
    B = 400   # judge in batches: every case holds the full owner table, projections and round trips
    for b0 in range(0, len(cases), B):
        for v in ctx.judge("J_DofLayout", cases[b0:b0 + B], CLAUSES, consts=dict(Grids=fx.grid_consts(), DofTypes=fx.DOF_TYPES),
                           tag=f"judge{b0}", timeout=1800):
            i = b0 + v["case"] - 1
            ctx.violation(v["clause"], dict(history=paths[i], observed=cases[i]), f"after history {paths[i]}")
    # conformance of the histories with the mechanism model
    gfile = ctx.datafile("graph.json", g)
    m, cf = tlc.gen(ctx.work / "trace", "MC_T_DofLayout", "T_DofLayout", consts(ndt, ndom, max_vars), spec="TSpec",
                    invariants=["EmitVia"])
    tr = ctx.tlc(m, cf, workers=8, env={"VERIF_GRAPH": gfile})
    taken = {tuple(r) for r in tr.records}
    missing = [(n, i, e) for n, es in enumerate(g["edges"], 1) for i, e in enumerate(es, 1) if (n, i) not in taken]
    for n, i, e in missing[:3]:
        ctx.drift(f"edge rejected by DofLayout: from={g['nodes'][n-1]} ev={e} to={g['nodes'][e['dst']-1]}")
    for _ in missing[3:]:
        ctx.drift("")
    ctx.sample(dict(history=paths[-1], observed={k: cases[-1][k] for k in ("reg", "total", "dofs", "owner")}))
    ctx.extra["real_nodes"] = len(g["nodes"])
    ctx.exhaustive = (not g["truncated"]) and len(ids) == len(g["nodes"])


def replay(ctx, body):
    rec = body["record"]
    s = Sys()
    for e in rec["history"]:
        apply(s, e)
        touch(s)
    case = observe(s, ctx.rng)
    ctx.case(key="replay")
    ctx.sample(rec["history"])
    for v in ctx.judge("J_DofLayout", [case], CLAUSES, consts=dict(Grids=fx.grid_consts(), DofTypes=fx.DOF_TYPES)):
        ctx.violation(v["clause"], dict(history=rec["history"], observed=case), "replayed")
