"""C42 Phase saturations and fraction derivatives are thermodynamically consistent.

spec/ref/Saturation.tla (closed forms + laws), spec/ref/SaturationEnum.tla (TLC enumerates the input lattices:
fractions k/N on the simplex x integer densities; fraction vectors x gradients; integer rows),
spec/trace/J_Saturation.tla (TLC judges what the real code returned).

Real code: porepy.compositional.utils.compute_saturations / chainrule_fractional_derivatives (vectorised 2-D
path and scalar 1-D path) and normalize_rows.  Python only builds the arrays, calls the code and converts the
doubles to rationals."""
from __future__ import annotations

import numpy as np

from .. import codec, tlc

LEVEL = "exploration"
MAXDEN = 10 ** 4
LIMN = 10 ** 5  # keeps TLC's 32-bit cross-multiplications in range
CHUNK = 256
SLAB = 150
CLAUSES = ["SatClosedForm", "SatNonNeg", "SatSumOne", "SatReproduce", "ChainRule", "NormRatio", "NormRowSum"]


def enc(x):
    """double -> [n, d]; [0, 0] marks 'not within 1e-9 of a rational with denominator <= MAXDEN' (or nan/inf)."""
    try:
        if not np.isfinite(x):
            return [0, 0]
        r = codec.rat(float(x), MAXDEN)
    except codec.Inexact:
        return [0, 0]
    return r if abs(r[0]) <= LIMN else [0, 0]  # huge numbers: no reference value is (they are bounded by ~30)


def encmat(a):
    """(n, M) array -> M x n list of rationals (column-major: one vector per column)."""
    a = np.asarray(a, dtype=float)
    return [[enc(v) for v in a[:, c]] for c in range(a.shape[1])]


# ---- calling the real code -------------------------------------------------------------------------------
def call_sat(inp):
    from porepy.compositional.utils import compute_saturations

    y = np.array(inp["ks"], dtype=float).T / float(inp["N"])
    rho = np.array(inp["rhos"], dtype=float).T
    vec = compute_saturations(y.copy(), rho.copy())
    sca = np.stack([compute_saturations(y[:, c].copy(), rho[:, c].copy()) for c in range(y.shape[1])], axis=1)
    return dict(vec=encmat(vec), sca=encmat(sca)), dict(vec=vec.T.tolist(), sca=sca.T.tolist())


def call_chain(inp):
    from porepy.compositional.utils import chainrule_fractional_derivatives

    x = np.array(inp["ks"], dtype=float).T / float(inp["N"])
    df = np.array(inp["dfs"], dtype=float).T
    df0 = df.copy()
    vec = chainrule_fractional_derivatives(df, x)
    if not np.array_equal(df, df0):
        raise RuntimeError("chainrule_fractional_derivatives modified its argument")  # not a property clause
    sca = np.stack([chainrule_fractional_derivatives(df[:, c].copy(), x[:, c].copy()) for c in range(x.shape[1])], axis=1)
    return dict(vec=encmat(vec), sca=encmat(sca)), dict(vec=vec.T.tolist(), sca=sca.T.tolist())


def call_norm(inp):
    from porepy.compositional.utils import normalize_rows

    x = np.array(inp["rows"], dtype=float)
    out = normalize_rows(x.copy())
    return dict(vec=encmat(out.T)), dict(vec=out.tolist())


_CALL = dict(sat=call_sat, chain=call_chain, norm=call_norm)


def call(inp):
    """Run the real code on one case; an exception of the code under test becomes an all-invalid output
    (the clauses then fail in TLC) instead of a harness failure."""
    try:
        return _CALL[inp["t"]](inp)
    except (RuntimeError, MemoryError):
        raise
    except Exception as e:  # noqa: BLE001
        M = len(inp["rows"] if inp["t"] == "norm" else inp["ks"])
        w = inp["n"] + inp.get("e", 0)
        paths = ["vec"] if inp["t"] == "norm" else ["vec", "sca"]
        return ({p: [[[0, 0]] * w for _ in range(M)] for p in paths},
                {p: [f"{type(e).__name__}: {e}"[:200]] * M for p in paths})


# ---- TLC enumeration -------------------------------------------------------------------------------------
def enumerate_part(ctx, part, consts, laws):
    c = dict(Part=part, NPh=set(), NTot=0, RhoVals=set(), KMax=0, Extra=set(), MaxDen=MAXDEN)
    c.update(consts)
    m, cf = tlc.gen(ctx.work / f"enum_{part}_{len(ctx.tlc_runs)}", "MC_SaturationEnum", "SaturationEnum", c, invariants=["Emit"] + laws)
    return ctx.tlc(m, cf, allow_violation=False).records


def chunks(cols, size):
    for i in range(0, len(cols), size):
        yield cols[i:i + size]


def build_cases(ctx):
    q = ctx.quick
    cases = []
    # saturations: one column per (k, rho); columns of equal n are interleaved over rho and cut into vectorised calls
    N = 4 if q else 6
    if q:
        recs = enumerate_part(ctx, "sat", dict(NPh={2, 3, 4, 5}, NTot=N, RhoVals={1, 2, 5}), ["LawSat"])
    else:
        recs = (enumerate_part(ctx, "sat", dict(NPh={2, 3, 4}, NTot=N, RhoVals={1, 2, 3, 5}), ["LawSat"])
                + enumerate_part(ctx, "sat", dict(NPh={5}, NTot=N, RhoVals={1, 2, 5}), ["LawSat"]))
    bycount = {}
    for r in recs:
        for k in r["ks"]:
            bycount.setdefault(r["n"], []).append((k, r["rho"]))
    for n, cols in sorted(bycount.items()):
        cols.sort(key=lambda kr: (kr[0], kr[1]))  # k-major: neighbouring columns differ in rho
        for ch in chunks(cols, CHUNK):
            cases.append(dict(t="sat", n=n, N=N, ks=[k for k, _ in ch], rhos=[r for _, r in ch]))
    # chain rule
    recs = enumerate_part(ctx, "chain", dict(NPh={2, 3} if q else {2, 3, 4}, NTot={1, 3} if q else {1, 3, 4},
                                             RhoVals={-1, 0, 2}, KMax=2, Extra={0, 2} if q else {0, 1, 2}),
                          ["LawChain"])
    if not q:
        recs += enumerate_part(ctx, "chain", dict(NPh={2, 3}, NTot={2, 5}, RhoVals={-2, 1, 3}, KMax=3, Extra={1}), ["LawChain"])
    by = {}
    for r in recs:
        for df in r["dfs"]:
            by.setdefault((r["n"], r["N"], r["e"]), []).append((r["k"], df))
    for (n, Nc, e), cols in sorted(by.items()):
        cols.sort(key=lambda kd: (kd[1], kd[0]))
        for ch in chunks(cols, CHUNK):
            cases.append(dict(t="chain", n=n, N=Nc, e=e, ks=[k for k, _ in ch], dfs=[d for _, d in ch]))
    # row normalisation
    recs = enumerate_part(ctx, "norm", dict(NPh={2, 3, 4} if q else {2, 3, 4, 5}, KMax=3), ["LawNorm"])
    for r in recs:
        rows = sorted(r["rows"])
        for ch in chunks(rows, CHUNK):
            cases.append(dict(t="norm", n=r["n"], rows=ch))
    return cases


def classify(inp, col):
    """coverage key of one column"""
    if inp["t"] == "sat":
        k = inp["ks"][col]
        nz = sum(1 for v in k if v > 0)
        return ("sat", inp["n"], nz, len(set(inp["rhos"][col])) > 1), nz >= 2
    if inp["t"] == "chain":
        return ("chain", inp["n"], inp["N"], inp["e"], sum(inp["ks"][col])), True
    return ("norm", inp["n"], sum(inp["rows"][col])), True


def judge(ctx, cases, raws):
    nviol = 0
    for v in ctx.judge("J_Saturation", cases, CLAUSES, consts=dict(MaxDen=MAXDEN)):
        c = cases[v["case"] - 1]
        raw = raws[v["case"] - 1]
        bad = [[p, int(i)] for p, i in v["bad"]]
        p, i = bad[0]
        ctx.violation(v["clause"], dict(inp=c["in"], bad=bad, first_raw=raw[p][i - 1]),
                      f"{c['in']['t']} n={c['in']['n']} {len(bad)} bad (path, column) pairs, first: path={p} column={i} "
                      f"returned {raw[p][i - 1]}")
        nviol += 1
    return nviol


def run(ctx):
    ctx.rule = ("TLC enumerates (a) all fraction vectors k/N on the simplex (N=4 quick / 6 thorough, 2-5 phases, vanishing and "
                "saturated phases included) x all density tuples over {1,2,5} (thorough: {1,2,3,5} up to 4 phases), (b) fraction vectors k/N' x integer gradients with 0-2 leading "
                "entries, (c) integer rows; every lattice point is one column of a vectorised call and one scalar call of the "
                "real code; evaluations = columns x paths; a saturation column is non-trivial when >= 2 phases are present")
    ctx.assumptions = ["doubles are converted with codec.rat(maxden=1e4, tol 1e-9): every reference value has a denominator "
                       "<= 1e4 (LawDen checked by TLC), so a result within 1e-9 of the reference converts to it"]
    inputs = build_cases(ctx)
    sampled = set()
    ncalls = 0
    # judged in slabs: TLC holds the whole batch of cases in memory
    for lo in range(0, len(inputs), SLAB):
        cases, raws = [], []
        for inp in inputs[lo:lo + SLAB]:
            out, raw = call(inp)
            cases.append({"in": inp, "out": out})
            raws.append(raw)
            M = len(inp["rows"] if inp["t"] == "norm" else inp["ks"])
            paths = 1 if inp["t"] == "norm" else 2
            for c in range(M):
                key, nontriv = classify(inp, c)
                ctx.case(key=key, nontrivial=nontriv, n=paths)
            if inp["t"] not in sampled:
                sampled.add(inp["t"])
                small = {k: (v[:2] if isinstance(v, list) else v) for k, v in inp.items()}
                ctx.sample({"in": small, "out": {k: v[:2] for k, v in raw.items()}})
        ncalls += len(cases)
        judge(ctx, cases, raws)
    ctx.extra["vectorised_calls"] = ncalls
    ctx.exhaustive = True


def replay(ctx, body):
    inp = body["record"]["inp"]
    out, raw = call(inp)
    cases, raws = [{"in": inp, "out": out}], [raw]
    ctx.case(key="replay")
    ctx.sample({"in": {k: (v[:2] if isinstance(v, list) else v) for k, v in inp.items()}})
    judge(ctx, cases, raws)
