"""C23 Refinement and extrusion preserve measure and nesting.

spec/ref/Refine.tla      exact measures, closed point-in-cell tests, Refine1dRef, the clauses as predicates
spec/trace/J_Refine.tla  TLC judges what refine_grid_1d / remesh_1d / refine_triangle_grid / extrude_grid /
                         extrude_mdg / structured_refinement returned
spec/ref/GridFam.tla     TLC enumerates the tensor-product base grids (non-uniform integer coordinates)

Python builds the base grids (1D lines in 3-space with arbitrary node numbering, lattice triangle grids incl.
perturbed ones, 0D/1D/2D bases for extrusion, a fractured 2D md-grid), calls porepy, scales parent and child by the
same integer so that all node coordinates are integers, and exports topology + maps."""
from __future__ import annotations

import warnings

import numpy as np

from .. import tlc
from . import _grids as G
from . import c19

LEVEL = "translation_validation"
CLAUSES = ["JudgeAll"]
ERRORS = (ValueError, AssertionError, RuntimeError, IndexError, KeyError, FloatingPointError, ZeroDivisionError)


def _quiet(fn, *a, **k):
    with warnings.catch_warnings():
        warnings.simplefilter("ignore")
        return fn(*a, **k)


def _export(g, scale=1):
    if g.dim == 0:
        cc = np.asarray(g.cell_centers, dtype=float) * scale
        return dict(dim=0, nodes=[[int(round(v)) for v in cc[:, j]] for j in range(cc.shape[1])], fn=[],
                    cf=[[] for _ in range(cc.shape[1])])
    return G.export(g, scale)


def export(g, scale=1):
    return _export(g, scale)


def _nodes_of(g):
    return np.asarray(g.cell_centers if g.dim == 0 else g.nodes, dtype=float)


def export_pair(gp, gc, z=None):
    """parent and child in units of 1/S for the smallest S in 1, 2, 3, 4, 6, 12 that makes all coordinates (and z)
    integers.  For the families used here S = 1 whenever porepy is right; if no S works the child is rounded to the
    1/12 lattice and the case is flagged inexact (clause OnLattice)."""
    arrs = [_nodes_of(gp), _nodes_of(gc)] + ([np.asarray(z, dtype=float)] if z is not None else [])
    for S in (1, 2, 3, 4, 6, 12):
        if all(np.all(np.abs(a * S - np.round(a * S)) < 1e-9) for a in arrs):
            return _snap(gp, S), _snap(gc, S), S, False
    return _snap(gp, 12), _snap(gc, 12), 12, True


def _snap(g, S):
    import copy

    h = copy.copy(g)
    if g.dim == 0:
        h.cell_centers = np.round(np.asarray(g.cell_centers, dtype=float) * S) / S
    else:
        h.nodes = np.round(np.asarray(g.nodes, dtype=float) * S) / S
    return _export(h, S)


# ---------------------------------------------------------------------------------------------------
# one function per porepy entry point: record -> list of cases for TLC
def case_refine1d(rec):
    import porepy as pp

    g, _ = G.build(rec["parent"])
    parent = export(g)
    try:
        child = _quiet(pp.refinement.refine_grid_1d, g, rec["ratio"])
        pj, cj, S, inexact = export_pair(g, child)
        return [dict(kind="refine1d", parent=pj, child=cj, raised=False, ratio=rec["ratio"], inexact=inexact)]
    except ERRORS as e:
        return [dict(kind="refine1d", parent=parent, child=parent, raised=True, ratio=rec["ratio"], error=repr(e))]


def case_remesh1d(rec):
    import porepy as pp

    g, _ = G.build(rec["parent"])
    _quiet(g.compute_geometry)
    parent = export(g)
    try:
        child = _quiet(pp.refinement.remesh_1d, g, rec["nnodes"])
        pj, cj, S, inexact = export_pair(g, child)
        return [dict(kind="remesh1d", parent=pj, child=cj, raised=False, nnodes=rec["nnodes"], inexact=inexact)]
    except ERRORS as e:
        return [dict(kind="remesh1d", parent=parent, child=parent, raised=True, nnodes=rec["nnodes"], error=repr(e))]


def case_refinetri(rec):
    import porepy as pp

    g, _ = G.build(rec["parent"])
    parent = export(g)
    try:
        child, pmap = _quiet(pp.refinement.refine_triangle_grid, g)
        pj, cj, S, inexact = export_pair(g, child)
        return [dict(kind="refinetri", parent=pj, child=cj, raised=False, inexact=inexact,
                     map=[int(p) + 1 for p in pmap])]
    except ERRORS as e:
        return [dict(kind="refinetri", parent=parent, child=parent, raised=True, map=[], error=repr(e))]


def _extrude_case(g, z, result):
    parent = export(g)
    zi = [int(round(v)) for v in z]
    if isinstance(result, Exception):
        return dict(kind="extrude", parent=parent, child=parent, raised=True, z=zi, cellmap=[], error=repr(result))
    child, cmap, _ = result
    pj, cj, S, inexact = export_pair(g, child, z)
    return dict(kind="extrude", parent=pj, child=cj, raised=False, z=[S * v for v in zi], inexact=inexact,
                cellmap=[[int(k) + 1 for k in row] for row in cmap])


def case_extrude(rec):
    import porepy as pp

    if rec["parent"]["base"]["kind"] == "point":
        g = pp.PointGrid(np.asarray(rec["parent"]["base"]["pt"], dtype=float))
    else:
        g, _ = G.build(rec["parent"])
    z = np.asarray(rec["z"], dtype=float)
    try:
        res = _quiet(pp.grid_extrusion.extrude_grid, g, z)
    except ERRORS as e:
        res = e
    return [_extrude_case(g, z, res)]


def case_extrude_mdg(rec):
    import porepy as pp

    fracs = [np.asarray(f, dtype=float) for f in rec["fracs"]]
    mdg = _quiet(pp.meshing.cart_grid, fracs, rec["nx"])
    z = np.asarray(rec["z"], dtype=float)
    sds = list(mdg.subdomains())
    try:
        new, gmap = _quiet(pp.grid_extrusion.extrude_mdg, mdg, z)
    except ERRORS as e:
        return [_extrude_case(sds[0], z, e)]
    out = []
    for sd in sds:
        m = gmap[sd]
        out.append(_extrude_case(sd, z, (m.grid, m.cell_map, m.face_map)))
    return out


def case_structured(rec):
    import porepy as pp

    g, _ = G.build(rec["parent"])
    if rec["fine"]["how"] == "build":
        gf, _ = G.build(rec["fine"]["recipe"])
    elif rec["fine"]["how"] == "refine1d":
        gf = _quiet(pp.refinement.refine_grid_1d, g, rec["fine"]["ratio"])
    else:
        gf, _ = _quiet(pp.refinement.refine_triangle_grid, g)
    _quiet(g.compute_geometry)
    _quiet(gf.compute_geometry)
    parent, child, S, inexact = export_pair(g, gf)
    try:
        m = _quiet(pp.refinement.structured_refinement, g, gf).tocsr()
        rows = [[int(c) + 1 for c in m.indices[m.indptr[k]:m.indptr[k + 1]]] for k in range(m.shape[0])]
        rows += [[] for _ in range(gf.num_cells - len(rows))]
        return [dict(kind="structured", parent=parent, child=child, raised=False, rows=rows, inexact=inexact)]
    except ERRORS as e:
        return [dict(kind="structured", parent=parent, child=child, raised=True, rows=[], error=repr(e))]


RUNNERS = dict(refine1d=case_refine1d, remesh1d=case_remesh1d, refinetri=case_refinetri, extrude=case_extrude,
               extrude_mdg=case_extrude_mdg, structured=case_structured)


# ---------------------------------------------------------------------------------------------------
# input families
def line(rng, axis, mult, dirs=None, planar=False):
    d = rng.choice(dirs or c19.LINE_DIRS)
    n = len(axis)
    order = list(range(n))
    rng.shuffle(order)
    o = [rng.randint(-2, 2), rng.randint(-2, 2), 0 if planar else rng.randint(-2, 2)]
    return dict(base=dict(kind="line", axis=[mult * a for a in axis], dir=d, origin=o, order=order,
                          flip=rng.random() < 0.5))


Z_SEQS = [[0, 1], [0, 2, 3], [1, 2, 4, 5], [0, 1, 4], [0, -1], [0, -2, -3], [-1, -2, -4, -5], [2, 5], [0, -3, -4, -6]]
PLANAR_DIRS = [[1, 0, 0], [0, 1, 0], [-1, 0, 0], [0, -1, 0]]


def records(ctx, emitted):
    rng, q = ctx.rng, ctx.quick
    recs = []
    one = [r["axes"][0] for r in emitted if r["dim"] == 1]
    two = [r["axes"] for r in emitted if r["dim"] == 2]
    for k, ax in enumerate(one):
        # refine_grid_1d: ratios 2-4 on lines in 3-space, node numbering shuffled
        for ratio in ([2 + k % 3] if q else [2, 3, 4]):
            short = [d for d in c19.LINE_DIRS if max(abs(x) for x in d) * ax[-1] * ratio <= 20]
            recs.append(dict(kind="refine1d", parent=line(rng, ax, ratio, short), ratio=ratio))
            recs.append(dict(kind="refine1d", parent=dict(base=dict(kind="tensor", axes=[[ratio * a for a in ax]])), ratio=ratio))
        # remesh_1d: node counts 2..5
        for nn in ([2 + k % 4] if q else [2, 3, 4, 5]):
            short = [d for d in c19.LINE_DIRS if max(abs(x) for x in d) * ax[-1] * (nn - 1) <= 20]
            recs.append(dict(kind="remesh1d", parent=line(rng, ax, nn - 1, short), nnodes=nn))
        # structured_refinement in 1D: (grid, refine_grid_1d(grid)) and nested tensor grids
        ratio = 2 + k % 3
        short = [d for d in c19.LINE_DIRS if max(abs(x) for x in d) * ax[-1] * ratio <= 20]
        recs.append(dict(kind="structured", parent=line(rng, ax, ratio, short), fine=dict(how="refine1d", ratio=ratio)))
        fine_ax = sorted(set(2 * a for a in ax) | set(range(2 * ax[0], 2 * ax[-1] + 1, 2 + k % 2)))
        if len(fine_ax) > len(ax):
            recs.append(dict(kind="structured", parent=dict(base=dict(kind="tensor", axes=[[2 * a for a in ax]])),
                             fine=dict(how="build", recipe=dict(base=dict(kind="tensor", axes=[fine_ax])))))
        # extrusion of 1D grids lying in the x-y plane along a coordinate axis
        for z in ([Z_SEQS[k % len(Z_SEQS)]] if q else rng.sample(Z_SEQS, 3)):
            recs.append(dict(kind="extrude", parent=line(rng, ax, 1, PLANAR_DIRS, planar=True), z=z))
            recs.append(dict(kind="extrude", parent=dict(base=dict(kind="tensor", axes=[ax])), z=z))
    for k, axes in enumerate(two):
        ncell = (len(axes[0]) - 1) * (len(axes[1]) - 1)
        sb = dict(kind="simplex", axes=axes)
        tri = [dict(base=sb, ops=[dict(op="scale", k=2)])]
        g0, _ = G.build(dict(base=sb))
        vperm = [rng.sample(range(3), 3) for _ in range(2 * ncell)]
        tri.append(dict(base=dict(kind="rawsimplex", axes=axes, vperm=vperm), ops=[dict(op="scale", k=2)]))
        if 6 * max(axes[0][-1], axes[1][-1]) + 2 <= 20:
            tri.append(dict(base=sb, ops=[dict(op="scale", k=3), dict(op="perturb", d=c19.perturbation(rng, g0)),
                                          dict(op="scale", k=2)]))
        if q and k % 2 == 0:
            tri = tri[:1]
        for t in tri:
            if 2 * ncell * 4 > (32 if q else 48):
                continue
            recs.append(dict(kind="refinetri", parent=t))
            if (not q) or k % 3 == 0:
                recs.append(dict(kind="structured", parent=t, fine=dict(how="refinetri")))
        # structured_refinement: structured triangle grids on the doubled tensor grid
        if 2 * ncell * 4 <= 32 and ((not q) or k % 2 == 1):
            # fine axes: the doubled coarse coordinates plus the midpoints
            fine_axes = [sorted(set(2 * a for a in ax) | {ax[i] + ax[i + 1] for i in range(len(ax) - 1)}) for ax in axes]
            recs.append(dict(kind="structured", parent=dict(base=sb, ops=[dict(op="scale", k=2)]),
                             fine=dict(how="build", recipe=dict(base=dict(kind="simplex", axes=fine_axes)))))
        # extrusion of 2D grids
        bases = [dict(base=dict(kind="tensor", axes=axes, cart=True)), dict(base=sb)]
        if 3 * max(axes[0][-1], axes[1][-1]) + 1 <= 12:
            gt, _ = G.build(dict(base=dict(kind="tensor", axes=axes)))
            bases.append(dict(base=dict(kind="tensor", axes=axes),
                              ops=[dict(op="scale", k=3), dict(op="perturb", d=c19.perturbation(rng, gt))]))
        if q:
            bases = [bases[k % len(bases)]]
        for b in bases:
            for z in ([Z_SEQS[(k + 3) % len(Z_SEQS)]] if q else rng.sample(Z_SEQS, 2)):
                if len(z) - 1 > 3:
                    continue
                recs.append(dict(kind="extrude", parent=b, z=z))
    # fixed inputs
    recs.append(dict(kind="refinetri", parent=dict(base=dict(kind="simplex", axes=[[0, 1, 2], [0, 1]]), ops=[dict(op="scale", k=2)])))
    for name in ("hanging", "mixed", "tri5", "lshape"):
        for z in (Z_SEQS[1], Z_SEQS[5]) if not q else (Z_SEQS[1],):
            recs.append(dict(kind="extrude", parent=dict(base=dict(kind="patch", name=name, z=0)), z=z))
    # structured_refinement in 3D: structured tetrahedral grids on a box and on the box with halved spacing
    for axes in ([[0, 1], [0, 1], [0, 1]], [[0, 1], [0, 2], [1, 2]]) if q else ([[0, 1], [0, 1], [0, 1]], [[0, 1], [0, 2], [1, 2]], [[0, 1, 2], [0, 1], [0, 1]]):
        fine = [sorted(set(2 * a for a in ax) | {ax[i] + ax[i + 1] for i in range(len(ax) - 1)}) for ax in axes]
        recs.append(dict(kind="structured", parent=dict(base=dict(kind="simplex", axes=axes), ops=[dict(op="scale", k=2)]),
                         fine=dict(how="build", recipe=dict(base=dict(kind="simplex", axes=fine)))))
    # 1D bases whose node numbering is not monotone along the line (every numbering of 3 nodes, some of 4)
    for order in ([0, 2, 1], [1, 0, 2], [1, 2, 0], [2, 0, 1], [2, 1, 0], [3, 1, 0, 2], [0, 3, 1, 2]):
        ax = [0, 1, 3] if len(order) == 3 else [0, 2, 3, 4]
        for d, z in (([1, 0, 0], Z_SEQS[3]), ([0, -1, 0], Z_SEQS[5])):
            recs.append(dict(kind="extrude", z=z, parent=dict(base=dict(kind="line", axis=ax, dir=d, origin=[1, -1, 0],
                                                                         order=order, flip=False))))
        recs.append(dict(kind="refine1d", ratio=2, parent=dict(base=dict(kind="line", axis=[2 * a for a in ax], dir=[1, 2, 2],
                                                                          origin=[0, 0, 0], order=order, flip=True))))
    for pt in ([1, 2, 0], [-2, 0, 0]):
        for z in (Z_SEQS[2], Z_SEQS[6], Z_SEQS[0]):
            recs.append(dict(kind="extrude", parent=dict(base=dict(kind="point", pt=pt)), z=z))
    mdgs = [dict(fracs=[[[1, 3], [1, 1]]], nx=[4, 2]), dict(fracs=[[[1, 3], [1, 1]], [[2, 2], [0, 2]]], nx=[4, 2]),
            dict(fracs=[[[1, 1], [0, 2]]], nx=[2, 3])]
    for k, m in enumerate(mdgs if not q else mdgs[1:2]):
        for z in ((Z_SEQS[1], Z_SEQS[5]) if not q else (Z_SEQS[1],)):
            recs.append(dict(kind="extrude_mdg", z=z, **m))
    return recs


def judge(ctx, recs, tag):
    items = []
    for r in recs:
        for c in RUNNERS[r["kind"]](r):
            items.append((r, c))
    cases = [dict({k: v for k, v in c.items() if k != "error"}, inexact=bool(c.get("inexact", False))) for _, c in items]
    out = ctx.judge("J_Refine", cases, CLAUSES, tag=tag)
    outside = {v["case"] for v in out if v.get("tag") == "outside"}
    for i, (r, c) in enumerate(items, 1):
        if i in outside:
            ctx.extra["outside_family"] = ctx.extra.get("outside_family", 0) + 1
            continue
        ctx.case(key=(r["kind"], c["parent"]["dim"], len(c["parent"]["cf"]), len(c["child"]["cf"]),
                      r.get("ratio", 0), r.get("nnodes", 0), len(r.get("z", []))),
                 nontrivial=len(c["child"]["cf"]) > 1)
    for v in out:
        if "clause" not in v:
            continue
        r, c = items[v["case"] - 1]
        ctx.violation(v["clause"], dict(call=r, case=c), f"{r['kind']} {r.get('parent', r.get('fracs'))}")
    return items


def run(ctx):
    ctx.rule = ("TLC enumerates the 1D and 2D tensor base grids (GridFam); per base grid: refine_grid_1d with ratios 2-4 and "
                "remesh_1d with 2-5 nodes on lines in 3-space (shuffled node numbering), refine_triangle_grid on structured / "
                "general / perturbed lattice triangle grids, extrude_grid on 0D/1D/2D bases with non-uniform layer sequences of "
                "either sign, extrude_mdg on fractured Cartesian md-grids, structured_refinement on nested pairs in 1D and 2D.  "
                "One evaluation = one (parent, child, map) triple judged by TLC; classes = (function, dim, #parent cells, "
                "#child cells, parameter)")
    ctx.assumptions = ["integer coordinates after scaling; 2D grids in axis-aligned planes; extrusion bases with convex cells "
                       "in the plane z = 0 (documented assumptions of extrude_grid)"]
    q = ctx.quick
    consts = dict(MaxCoord=[3, 2, 1] if q else [5, 3, 1], MaxCells=[3, 4, 0] if q else [5, 6, 0])
    res = ctx.tlc(*tlc.gen(ctx.work / "enum", "MC_GridFam", "GridFam", consts,
                           invariants=["Emit", "Increasing", "MeasurePositive"]), allow_violation=False)
    emitted = sorted(res.records, key=lambda r: (r["dim"], r["axes"]))
    ctx.extra["tensor_grids_emitted"] = len(emitted)
    recs = records(ctx, emitted)
    ctx.extra["calls"] = len(recs)
    B = 500 if q else 1200
    items = []
    for i in range(0, len(recs), B):
        items += judge(ctx, recs[i:i + B], f"j{i // B}")
    seen = set()
    for r, c in items:
        if r["kind"] not in seen and len(c["child"]["cf"]) > 1:
            seen.add(r["kind"])
            ctx.sample(dict(call=r, parent_cells=len(c["parent"]["cf"]), child_cells=len(c["child"]["cf"])), cap=8)
    ctx.exhaustive = False


def replay(ctx, body):
    judge(ctx, [body["record"]["call"]], "replay")
    ctx.sample(body["record"]["call"])
