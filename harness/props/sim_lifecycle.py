"""Lifecycle of a PorePy model run (spec/sys/Simulation.tla) bound to the real code by trace validation.

Not a registered property: `run(ctx)` is meant to be called from a check (C10 thorough tier).  It

1. model-checks Simulation.tla exhaustively on a small configuration (design verdict: the order of the calls of
   prepare_simulation satisfies every data-flow precondition, cross-component invariants, termination);
2. lets the spec generate convergence scripts (outcome of every check_convergence call), builds real models
   (pp.SinglePhaseFlow on the 2x2 Cartesian grid with / without a fracture, pp.MomentumBalance with a fracture
   for run_stationary_model), wraps - in a subclass, no source hooks - every method prepare_simulation calls and
   the solver callbacks so that (event, cheap projected state) is logged AFTER the real method returned (also on the
   error path), and runs every script through the REAL pp.run_time_dependent_model / pp.run_stationary_model;
3. merges the recorded runs into a prefix tree and gives it to TLC twice: spec/trace/T_Simulation.tla (every event
   must be the corresponding action of Simulation.tla with the logged fields bound, unlogged variables inferred ->
   a rejected step is DRIFT) and spec/trace/M_Simulation.tla (the cross-component invariants model-checked on the
   recorded runs -> VIOLATION with the real call history).

Stand-alone: `cd /verif && /venv/bin/python -m harness.props.sim_lifecycle [--corrupt FIELD | --drop METHOD | --strict]`."""
from __future__ import annotations

import logging
import re
import warnings
from concurrent.futures import ProcessPoolExecutor

import numpy as np

from .. import tlc

LEVEL = "model_checking"
U = 4096
E8 = U // 8

# the calls of SolutionStrategy.prepare_simulation, in the order of the code
PREP = ["set_materials", "set_geometry", "initialize_data_saving", "set_equation_system_manager", "create_variables",
        "assign_thermodynamic_properties_to_phases", "initial_condition",
        "initialize_previous_iterate_and_time_step_values", "update_time_dependent_ad_arrays", "reset_state_from_file",
        "set_equations", "update_discretization_parameters", "discretize", "_initialize_linear_solver",
        "set_nonlinear_discretizations", "save_data_time_step"]
CALLBACKS = ["prepare_simulation", "before_nonlinear_loop", "after_nonlinear_convergence", "after_nonlinear_failure",
             "after_simulation"]

M_INVS = ["LoopAfterPrepare", "VariablesBeforeInitialCondition", "ValuesEverywhereAfterInit",
          "EquationsAfterValues", "DiscretizeAfterEquations", "WellPosed", "NewtonNeedsEverything", "GridFromGeometry",
          "ExportCounterIsTimes", "ExportedAreSaveTimes", "AcceptedAreExported", "InitialStateExported",
          "AfterSimulationOnce", "RunEnds", "EndsAtFinal", "AdTimeStepIsDt", "HistoryIsAccepted", "NoOvershoot",
          "FailureRewinds"]
M_PROPS = ["ShapeIsStable", "DiscretizationPersists", "PrepareKeepsClock", "ExportsConvergedIterate",
           "FailureSaveKeepsState", "ConvReturnKeepsStorage", "IterateResetOnFailure", "IterateWindow",
           "SaveOnlyExports", "AfterSimulationKeepsState", "Mono"]
M_STRICT = ["ExportsAreAccepted"]
D_INVS = ["LcTypeOK", "PrepareNeverBlocks", "VariablesBeforeInitialCondition", "ValuesEverywhereAfterInit",
          "InitialValuesEqual", "EquationsAfterValues", "DiscretizeAfterEquations", "WellPosed", "LoopAfterPrepare",
          "NewtonNeedsEverything", "ExportCounterIsTimes", "ExportedAreSaveTimes", "AcceptedAreExported",
          "AfterSimulationOnce", "AdTimeStepIsDt", "HistoryIsAccepted", "NewtonBounded", "NoOvershoot",
          "NoSkippedSchedule", "FailureRewinds", "RaiseOnlyWhenExhausted", "NoCrash"]
D_PROPS = ["ShapeIsStable", "TsIsConvergedIterate", "IterateResetOnFailure", "IterateWindow", "Mono", "SimTermination"]

# what set_geometry / create_variables / set_equations must produce for the models below (2x2 Cartesian grid):
# flow: 4 cells -> 1 pressure variable with 4 dofs, 3 registered equations (2 of them without rows);
# with the fracture: + 2 fracture cells, 1 interface with 4 mortar cells -> 3 variables, 10 dofs;
# mech: displacement 2x4, interface displacement 2x4, contact traction 2x2 -> 20 dofs, 4 equations
FLOW = dict(nsd=1, nintf=0, nvar=1, ndof=4, neq=3)
FLOW_FRAC = dict(nsd=2, nintf=1, nvar=3, ndof=10, neq=3)
MECH_FRAC = dict(nsd=2, nintf=1, nvar=3, ndof=20, neq=4)

CONFIGS = {
    # clock parameters in eighths (as c10.py); export: "all" (times_to_export=None) or a list of eighths
    "flow": dict(model="flow", mode="time", frac=False, sched=[0, 8, 16], dt_init=8, dt_min=2, dt_max=8, over=(3, 2),
                 under=(1, 2), recomp=(1, 2), recomp_max=2, budget=2, max_it=1, ts_depth=2, it_depth=2, export="all",
                 shape=FLOW),
    "flow_frac": dict(model="flow", mode="time", frac=True, sched=[0, 4, 12], dt_init=4, dt_min=1, dt_max=8,
                      over=(2, 1), under=(1, 2), recomp=(1, 2), recomp_max=1, budget=2, max_it=2, ts_depth=2,
                      it_depth=1, export="all", shape=FLOW_FRAC),
    "flow_sel": dict(model="flow", mode="time", frac=False, sched=[0, 8, 16], dt_init=8, dt_min=2, dt_max=8,
                     over=(3, 2), under=(1, 2), recomp=(1, 2), recomp_max=2, budget=1, max_it=1, ts_depth=1,
                     it_depth=1, export=[8, 12], enum=True, shape=FLOW),
    "flow_noexp": dict(model="flow", mode="time", frac=True, sched=[0, 8, 16], dt_init=8, dt_min=2, dt_max=8,
                       over=(3, 2), under=(1, 2), recomp=(1, 2), recomp_max=2, budget=1, max_it=1, ts_depth=1,
                       it_depth=1, export=[], enum=True, shape=FLOW_FRAC),
    "mech_stat": dict(model="mech", mode="stationary", frac=True, sched=[0, 8], dt_init=8, dt_min=8, dt_max=8,
                      over=(1, 1), under=(1, 1), recomp=(1, 2), recomp_max=1, budget=1, max_it=2, ts_depth=1,
                      it_depth=1, export="all", enum=True, shape=MECH_FRAC),
}


def clock_consts(c, track):
    it_max = c["max_it"] + 1
    return dict(Schedule=[x * E8 for x in c["sched"]], DtInit=c["dt_init"] * E8, DtMin=c["dt_min"] * E8,
                DtMax=c["dt_max"] * E8, IterLow=1, IterHigh=it_max, ItChoices=set(range(1, it_max + 1)),
                OverN=c["over"][0], OverD=c["over"][1], UnderN=c["under"][0], UnderD=c["under"][1],
                RecompN=c["recomp"][0], RecompD=c["recomp"][1], RecompMax=c["recomp_max"], LandingFix=True,
                FaultBudget=c["budget"], MaxIt=c["max_it"], TsDepth=c["ts_depth"], ItDepth=c["it_depth"],
                TrackHist=track)


def export_consts(c):
    return dict(ExportAll=c["export"] == "all",
                ExportAt=set() if c["export"] == "all" else {x * E8 for x in c["export"]})


def sim_consts(c, shape, track):
    """Constants of Simulation.tla: the clock, the shape of the model (configuration constants), the mode."""
    return dict(clock_consts(c, track), Mode=c["mode"], NSd=shape["nsd"], NIntf=shape["nintf"], NVar=shape["nvar"],
                NDof=shape["ndof"], NEq=shape["neq"], **export_consts(c))


# ------------------------------------------------------------------------------------------ real model
def _scaled(x):
    v = float(x) * U
    return int(v) if v == int(v) and abs(v) < 2 ** 30 else None


def build_model(c, script, folder, drop=()):
    """The real model with logging wrappers around the lifecycle methods (subclass, super() first)."""
    import porepy as pp

    class Geo(pp.ModelGeometry):
        def set_domain(self):
            self._domain = pp.Domain({"xmin": 0, "xmax": 2, "ymin": 0, "ymax": 2})

        def grid_type(self):
            return "cartesian"

        def meshing_arguments(self):
            return {"cell_size": 1.0}

        def set_fractures(self):
            self._fractures = [pp.LineFracture(np.array([[0.0, 2.0], [1.0, 1.0]]))] if c["frac"] else []

    class FlowBC:
        # a non-trivial nonlinear problem: pressure 1 on the west boundary, compressible fluid
        def bc_values_pressure(self, bg):
            vals = np.zeros(bg.num_cells)
            vals[self.domain_boundary_sides(bg).west] = 1.0
            return vals

        def _is_nonlinear_problem(self):
            return True

    class MechBC:
        def bc_values_displacement(self, bg):
            vals = np.zeros((self.nd, bg.num_cells))
            vals[1, self.domain_boundary_sides(bg).north] = -0.01
            return vals.ravel("F")

    base = {"flow": (FlowBC, Geo, pp.SinglePhaseFlow), "mech": (MechBC, Geo, pp.MomentumBalance)}[c["model"]]

    class Recorder(*base):
        def __init__(self, params):
            super().__init__(params)
            self._script = list(script)
            self.trace = []
            self._tokens = {}
            self._stack = []
            self._nested = []
            self._nafter = 0
            self._snap("constructed")

        @property
        def time_step_indices(self):
            return np.arange(c["ts_depth"])

        @property
        def iterate_indices(self):
            return np.arange(c["it_depth"])

        # --- projection -----------------------------------------------------------------------------------
        def _tok(self, **kw):
            es = getattr(self, "equation_system", None)
            if es is None or len(es.variables) == 0:
                return -1
            try:
                v = es.get_variable_values(**kw)
            except KeyError:
                return -1          # some variable has no value at this index
            k = v.tobytes()
            if k not in self._tokens:
                self._tokens[k] = len(self._tokens)
            return self._tokens[k]

        def _project(self):
            tm = self.time_manager
            t, d, a = _scaled(tm.time), _scaled(tm.dt), _scaled(self.ad_time_step._value)
            et = [_scaled(x) for x in tm.exported_times]
            p = dict(exact=None not in (t, d, a) and None not in et, time=t or 0, dt=d or 0, adt=a or 0,
                     sidx=int(tm._scheduled_idx) + 1, recomp=int(tm._recomp_num),
                     about=bool(tm._is_about_to_hit_schedule), tindex=int(tm.time_index),
                     newton=int(self.nonlinear_solver_statistics.num_iteration),
                     itv=[self._tok(iterate_index=int(i)) for i in self.iterate_indices],
                     tsv=[self._tok(time_step_index=int(i)) for i in self.time_step_indices])
            mdg = getattr(self, "mdg", None)
            es = getattr(self, "equation_system", None)
            p["fluid"] = hasattr(self, "fluid")
            p["props"] = p["fluid"] and all(hasattr(ph, "density") for ph in self.fluid.phases)
            p["nsd"] = len(mdg.subdomains()) if mdg is not None else 0
            p["nintf"] = len(mdg.interfaces()) if mdg is not None else 0
            p["exporter"] = hasattr(self, "exporter")
            p["es"] = es is not None
            p["nvar"] = len(es.variables) if es is not None else 0
            p["ndof"] = int(es.num_dofs()) if es is not None else 0
            p["neq"] = len(es.equations) if es is not None else 0
            p["nrows"] = (sum(len(rows) for blocks in es._equation_image_space_composition.values()
                              for rows in blocks.values()) if es is not None else 0)
            bgs = list(mdg.boundaries(return_data=True)) if mdg is not None else []
            p["tda"] = bool(bgs) and all(len(d_.get(pp.ITERATE_SOLUTIONS, {})) > 0 and
                                         len(d_.get(pp.TIME_STEP_SOLUTIONS, {})) > 0 for _, d_ in bgs)
            datas = ([d_ for _, d_ in mdg.subdomains(return_data=True)] +
                     [d_ for _, d_ in mdg.interfaces(return_data=True)]) if mdg is not None else []
            p["disc"] = any(len(mats) > 0 for d_ in datas for mats in d_.get(pp.DISCRETIZATION_MATRICES, {}).values())
            p["lsolver"] = hasattr(self, "linear_solver")
            p["nexp"] = int(self.exporter._time_step_counter) if p["exporter"] else 0
            p["exptimes"] = [x or 0 for x in et]
            p["nafter"] = self._nafter
            return p

        def _snap(self, ev, **extra):
            self.trace.append((dict(ev=ev, **extra), self._project()))

        # --- scripted convergence -------------------------------------------------------------------------
        def check_convergence(self, nonlinear_increment, residual, reference_residual, nl_params):
            o = self._script.pop(0) if self._script else "converge"
            self._snap("check_convergence", o=o, within="", raised=False)
            return (o == "converge", o == "diverge")

    def wrap(name):
        def method(self, *a, **kw):
            parent = self._stack[-1] if self._stack else ""
            self._stack.append(name)
            mark = len(self._nested)
            raised = False
            try:
                return getattr(super(Recorder, self), name)(*a, **kw)
            except Exception:
                raised = True
                raise
            finally:
                self._stack.pop()
                if name == "after_simulation" and not raised:
                    self._nafter += 1
                # events are logged at the grain of the spec: the calls of prepare_simulation, the solver
                # callbacks and every save_data_time_step; other nested calls become the field `calls`
                if ((name in PREP and parent == "prepare_simulation") or (name in CALLBACKS and parent == "")
                        or name == "save_data_time_step"):
                    calls = self._nested[mark:]
                    del self._nested[mark:]
                    extra = dict(within=parent, raised=raised)
                    if name == "before_nonlinear_loop":
                        extra["tda"] = "update_time_dependent_ad_arrays" in calls
                    self._snap(name, **extra)
                else:
                    self._nested.append(name)
        method.__name__ = name
        return method

    for name in dict.fromkeys(PREP + CALLBACKS):
        if name not in drop:
            setattr(Recorder, name, wrap(name))

    it_max = c["max_it"] + 1
    params = {"folder_name": str(folder), "max_iterations": c["max_it"], "nl_convergence_tol": 1e-12,
              "times_to_export": None if c["export"] == "all" else [x / 8 for x in c["export"]]}
    if c["mode"] == "time":
        params["time_manager"] = pp.TimeManager(
            schedule=[x / 8 for x in c["sched"]], dt_init=c["dt_init"] / 8,
            dt_min_max=(c["dt_min"] / 8, c["dt_max"] / 8), iter_max=it_max, iter_optimal_range=(1, it_max),
            iter_relax_factors=(c["under"][0] / c["under"][1], c["over"][0] / c["over"][1]),
            recomp_factor=c["recomp"][0] / c["recomp"][1], recomp_max=c["recomp_max"])
        params["material_constants"] = {"fluid": pp.FluidComponent(compressibility=0.2, density=1.0, viscosity=1.0)}
    return Recorder(params)


def run_script(args):
    """Run one scripted simulation through the real driver; returns the list of (event, projection)."""
    c, script, drop = args
    import os
    import tempfile

    base = os.environ.get("VERIF_WORK") or tempfile.gettempdir()
    folder = tempfile.mkdtemp(prefix="simlc_run_", dir=base)
    os.chdir(folder)
    warnings.filterwarnings("ignore")
    logging.disable(logging.CRITICAL)
    import porepy as pp

    m = build_model(c, script, os.path.join(folder, "viz"), drop)
    err = None
    sp = {"max_iterations": c["max_it"], "nl_convergence_tol": 1e-12}
    try:
        if c["mode"] == "time":
            pp.run_time_dependent_model(m, sp)
        else:
            pp.run_stationary_model(m, sp)
    except Exception as e:  # any exception ends the run: the trace shows where
        err = type(e).__name__
    out = []
    for (e, p) in m.trace:
        if e["ev"] == "check_convergence":
            e = dict(e, tok=p["itv"][0])     # the token of the freshly computed iterate is what the spec calls t
        out.append((e, p))
    return dict(script=list(script), trace=out, err=err)


def build_tree(runs):
    """Prefix tree of the runs: nodes = projections, edges = events (root = the constructed model)."""
    nodes, edges, index = [], [], {}
    root = runs[0]["trace"][0][1]
    nodes.append(root)
    edges.append([])
    inexact = 0
    for r in runs:
        tr = r["trace"]
        if tr[0][1] != root:
            raise RuntimeError("runs do not share the initial state")
        if not all(p["exact"] for _, p in tr):
            inexact += 1
            continue
        n = 1
        for e, p in tr[1:]:
            key = (n, tuple(sorted(e.items())))
            m = index.get(key)
            if m is None:
                m = len(nodes) + 1
                index[key] = m
                nodes.append(p)
                edges.append([])
                edges[n - 1].append(dict(e, dst=m))
            elif nodes[m - 1] != p:
                raise RuntimeError(f"non-deterministic real run: same prefix, different state ({e})")
            n = m
    return dict(nodes=nodes, edges=edges), inexact


# ------------------------------------------------------------------------------------------ TLC
def design(ctx, name, c, shape):
    """Exhaustive check of Simulation.tla itself (the spec does not change with the code: a failure here is a
    machinery failure)."""
    invs = D_INVS + (["EndsAtFinal", "HitsAll", "DtBounds"] if c["mode"] == "time" else [])   # clock clauses of C09/C10
    m, cf = tlc.gen(ctx.work / f"sim_design_{name}", "MC_Simulation", "Simulation", sim_consts(c, shape, False),
                    spec="SimSpec", invariants=invs, properties=D_PROPS, constraint="ExactOnly")
    return ctx.tlc(m, cf, workers=8, allow_violation=False, timeout=1500, coverage=True)


def scripts_from_spec(ctx, name, c, shape, cap):
    """Convergence scripts = the outcome histories of terminal behaviours of Simulation.tla (TrackHist on): all of
    them when the configuration is small (c["enum"]), simulated behaviours otherwise."""
    m, cf = tlc.gen(ctx.work / f"sim_scripts_{name}", "MC_SimScripts", "Simulation", sim_consts(c, shape, True),
                    spec="SimSpec", invariants=["EmitScript"], constraint="ExactOnly",
                    extra_defs="EmitScript == SimTerminal => PrintT(ToJson(hist))")
    if c.get("enum"):
        res = ctx.tlc(m, cf, workers=8, timeout=1500)
    else:
        res = ctx.tlc(m, cf, workers=1, simulate=f"num={6 * cap}", depth=200, timeout=600)
    seen, out = set(), []
    for r in res.records:
        t = tuple(r)
        if t not in seen:
            seen.add(t)
            out.append(list(r))
    out.sort(key=lambda s: (len(s), s))
    total = len(out)
    if len(out) > cap:   # deterministic thinning: an even spread over the scripts ordered by length
        step = len(out) / cap
        out = [out[int(i * step)] for i in range(cap - 1)] + [out[-1]]
    return out, total


def monitor_consts(c):
    return dict(Schedule=[x * E8 for x in c["sched"]], TsDepth=c["ts_depth"], ItDepth=c["it_depth"], Mode=c["mode"],
                **export_consts(c))


def check_tree(ctx, tag, c, shape, g, strict=True):
    """T_Simulation (conformance) and M_Simulation (invariants) on a recorded tree."""
    gfile = ctx.datafile(f"simtree_{tag}.json", g)
    wd = ctx.work / f"sim_{tag}"
    m, cf = tlc.gen(wd, "MC_M_Simulation", "M_Simulation", monitor_consts(c), spec="MSpec", invariants=M_INVS,
                    properties=M_PROPS)
    mon = ctx.tlc(m, cf, workers=4, env={"VERIF_GRAPH": gfile})
    st = None
    if strict:
        m, cf = tlc.gen(wd, "MC_MS_Simulation", "M_Simulation", monitor_consts(c), spec="MSpec", invariants=M_STRICT)
        st = ctx.tlc(m, cf, workers=4, env={"VERIF_GRAPH": gfile})
    m, cf = tlc.gen(wd, "MC_T_Simulation", "T_Simulation", sim_consts(c, shape, False), spec="TSpec",
                    invariants=["EmitVia"])
    tr = ctx.tlc(m, cf, workers=4, env={"VERIF_GRAPH": gfile})
    return mon, st, tr


def path_events(res, g):
    ids = [int(x) for blk in tlc.counterexample(res) for x in re.findall(r"/\\ node = (\d+)", blk)]
    events = []
    for a, b in zip(ids, ids[1:]):
        for e in g["edges"][a - 1]:
            if e["dst"] == b:
                events.append({k: v for k, v in e.items() if k != "dst"})
                break
    return ids, events


def rejected_edges(tr, g):
    """Edges of the tree that TLC could not take as a step of Simulation.tla; only the first one on each branch
    is informative (its descendants are unreachable)."""
    taken = {tuple(r) for r in tr.records}
    reach = {1} | {e["dst"] for n, es in enumerate(g["edges"], 1) for i, e in enumerate(es, 1) if (n, i) in taken}
    return [(n, i, e) for n, es in enumerate(g["edges"], 1) for i, e in enumerate(es, 1)
            if (n, i) not in taken and n in reach]


def corrupt_tree(g, field):
    """Self-test of the binding: falsify one logged field in one node of the tree (the last node that has it)."""
    import copy

    g = copy.deepcopy(g)
    for p in reversed(g["nodes"][1:]):
        v = p[field]
        if isinstance(v, bool):
            p[field] = not v
        elif isinstance(v, int):
            p[field] = v + 1
        elif isinstance(v, list) and v:
            p[field] = v[:-1] + [v[-1] + 1]
        else:
            continue
        return g
    raise RuntimeError(f"no node to corrupt for field {field}")


def check_config(ctx, name, c, pool, cap, drop=(), corrupt=None, do_design=True):
    shape = c["shape"]
    des = design(ctx, name, c, shape) if do_design else None
    scripts, total = scripts_from_spec(ctx, name, c, shape, cap)
    runs = list(pool.map(run_script, [(c, s, tuple(drop)) for s in scripts], chunksize=2))
    g, inexact = build_tree(runs)
    if corrupt:
        g = corrupt_tree(g, corrupt)
    mon, st, tr = check_tree(ctx, name, c, shape, g)
    return dict(name=name, cfg=c, shape=shape, scripts=scripts, scripts_total=total, runs=runs, graph=g,
                inexact=inexact, design=des, monitor=mon, strict=st, trace=tr)


def judge(ctx, o, strict=False):
    """Verdicts: a violated invariant of M_Simulation on real runs is a VIOLATION (with the real call history);
    a step rejected by T_Simulation is DRIFT (the code left the mechanism model)."""
    g, c = o["graph"], o["cfg"]
    ctx.traces += len(o["runs"]) - o["inexact"]
    for r in o["runs"]:
        s = tuple(r["script"])
        ctx.case(key=("sim", o["name"], s), nontrivial=("diverge" in s or s.count("continue") > 0))
    out = dict(config=o["name"], mode=c["mode"], shape=o["shape"], scripts=len(o["scripts"]),
               scripts_in_spec=o["scripts_total"], runs=len(o["runs"]), inexact_runs=o["inexact"],
               raised_runs=sum(1 for r in o["runs"] if r["err"] == "ValueError"),
               other_errors=sorted({r["err"] for r in o["runs"] if r["err"] not in (None, "ValueError")}),
               events=sum(len(r["trace"]) - 1 for r in o["runs"]), tree_nodes=len(g["nodes"]),
               tree_edges=sum(len(es) for es in g["edges"]),
               design_states=o["design"].distinct if o["design"] else None,
               vacuous_design_actions=sorted(a for a, (d, t) in (o["design"].coverage.items() if o["design"] else [])
                                             if t == 0 and a[0].isupper()) if o["design"] else [],
               monitor_states=o["monitor"].distinct, trace_states=o["trace"].distinct)
    mon = o["monitor"]
    out["violated"] = mon.violated
    if mon.violated:
        ids, events = path_events(mon, g)
        script = [e["o"] for e in events if e["ev"] == "check_convergence"]
        ctx.violation(mon.violated, dict(kind="sim_lifecycle", config_name=o["name"], config=c, script=script,
                                         events=events, last_state=g["nodes"][ids[-1] - 1] if ids else None),
                      f"lifecycle config={o['name']} script={script} last_event={events[-1] if events else None}")
    rej = rejected_edges(o["trace"], g)
    out["rejected_steps"] = len(rej)
    out["rejected_samples"] = [dict(ev=e, frm={k: v for k, v in g["nodes"][n - 1].items()
                                                if v != g["nodes"][e["dst"] - 1][k]},
                                    to={k: v for k, v in g["nodes"][e["dst"] - 1].items() if v != g["nodes"][n - 1][k]})
                               for n, i, e in rej[:3]]
    for n, i, e in rej[:3]:
        ctx.drift(f"step rejected by Simulation.tla ({o['name']}): ev={e} from={g['nodes'][n-1]} "
                  f"to={g['nodes'][e['dst']-1]}")
    for _ in rej[3:]:
        ctx.drift("")
    st = o["strict"]
    if st is not None:
        out["strict_violated"] = st.violated
        if st.violated:
            ids, events = path_events(st, g)
            script = [e["o"] for e in events if e["ev"] == "check_convergence"]
            rec = dict(kind="sim_lifecycle", config_name=o["name"], config=c, script=script, events=events,
                       last_state=g["nodes"][ids[-1] - 1] if ids else None)
            out["strict_counterexample"] = dict(script=script, exported_times=rec["last_state"]["exptimes"],
                                                last_event=events[-1] if events else None)
            if strict:
                ctx.violation(st.violated, rec, f"lifecycle config={o['name']} script={script}: exported times "
                              f"{rec['last_state']['exptimes']} contain a failed attempt")
    return out


def _failed_attempt_exported(rec):
    """Structural matcher for the finding 'after_nonlinear_failure exports the failed attempt': the strict export
    clause fails on a history that contains a save_data_time_step made from after_nonlinear_failure at a selected
    time."""
    if rec.get("clause") != "ExportsAreAccepted" or rec.get("kind") != "sim_lifecycle":
        return False
    return any(e.get("ev") == "save_data_time_step" and e.get("within") == "after_nonlinear_failure"
               for e in rec.get("events", []))


MATCHERS = {"sim_failed_attempt_exported": _failed_attempt_exported}


def run(ctx, strict=False, configs=None, drop=(), corrupt=None):
    """Entry point for a check (C10 thorough tier).  Returns the per-configuration summaries."""
    names = configs or (["flow", "mech_stat"] if ctx.quick else list(CONFIGS))
    cap = 10 if ctx.quick else 40
    outs = []
    with ProcessPoolExecutor(8) as pool:
        for name in names:
            outs.append(check_config(ctx, name, CONFIGS[name], pool, cap, drop=drop, corrupt=corrupt,
                                     do_design=name in ("flow", "flow_sel", "mech_stat") or not ctx.quick))
    summ = [judge(ctx, o, strict) for o in outs]
    ctx.extra["sim_lifecycle"] = summ
    ctx.extra["sim_lifecycle_tlc"] = [(r["module"].split("/")[-1], r["distinct"], r["wall_s"]) for r in ctx.tlc_runs]
    ctx.assumptions.append("lifecycle (Simulation.tla): no restart from file; time-dependent runs use a non-constant "
                           "time manager, the stationary run the default constant one; events are logged by subclass "
                           "wrappers after the real method returned")
    r0 = outs[0]["runs"][-1]
    ctx.sample(dict(lifecycle_config=outs[0]["name"], script=r0["script"],
                    events=[e["ev"] for e, _ in r0["trace"]][:24], ended=r0["err"] or "after_simulation"))
    return summ


def replay(ctx, body):
    rec = body["record"]
    c = dict(rec["config"])
    for k in ("over", "under", "recomp"):
        c[k] = tuple(c[k])
    r = run_script((c, rec["script"], ()))
    g, _ = build_tree([r])
    mon, st, tr = check_tree(ctx, "replay", c, c["shape"], g)
    ctx.case(key="replay", n=1)
    ctx.traces += 1
    ctx.sample(rec["script"])
    for res in (mon, st):
        if res is not None and res.violated and res.violated == body.get("clause", res.violated):
            ctx.violation(res.violated, rec, "replayed")


def main(argv=None):
    import argparse
    import json
    import os
    import shutil

    from ..core import Ctx

    ap = argparse.ArgumentParser()
    ap.add_argument("--tier", default="thorough", choices=["quick", "thorough"])
    ap.add_argument("--configs", default=None, help="comma separated subset of " + ",".join(CONFIGS))
    ap.add_argument("--corrupt", default=None, help="self-test: falsify this logged field in one node")
    ap.add_argument("--drop", default=None, help="self-test: do not wrap (log) this method")
    ap.add_argument("--strict", action="store_true", help="report the strict export clause as a violation")
    a = ap.parse_args(argv)
    os.environ.setdefault("PYTHONHASHSEED", "0")
    ctx = Ctx("C10", a.tier, 0, "model_checking")      # NOT finished: no evidence file is written
    ctx.matchers = dict(MATCHERS)
    cwd = ctx.work / "cwd"
    cwd.mkdir()
    os.chdir(cwd)
    try:
        summ = run(ctx, strict=a.strict, configs=a.configs.split(",") if a.configs else None,
                   drop=(a.drop,) if a.drop else (), corrupt=a.corrupt)
    finally:
        os.chdir("/")
    for s in summ:
        print(json.dumps(s))
    print(ctx.extra["sim_lifecycle_tlc"])
    tot = lambda k: sum(s[k] or 0 for s in summ)
    for d in [d for d in ctx.drifts if d][:4]:
        print("DRIFT", d["what"][:700])
    for clause, rec, path, detail in ctx.violations:
        print(f"VIOLATION clause={clause} {detail}"[:700])
        os.remove(path)                                   # stand-alone runs leave no replay files behind
    print(f"[sim_lifecycle] tier={a.tier} configs={len(summ)} runs={tot('runs')} events={tot('events')} "
          f"tree_nodes={tot('tree_nodes')} design_states={tot('design_states')} tlc_states={ctx.states} "
          f"rejected_steps={tot('rejected_steps')} violated={[s['violated'] for s in summ if s['violated']]} "
          f"strict_finding={[s['config'] for s in summ if s.get('strict_violated')]} "
          f"known={sum(ctx.known_hits.values())} wall={__import__('time').time() - ctx.t0:.1f}s")
    shutil.rmtree(ctx.work, ignore_errors=True)
    return 1 if ctx.violations else 0


if __name__ == "__main__":
    import sys

    sys.exit(main())
