"""C24 Mixed-dimensional grid container stays consistent under any history.

spec/ref/MdGridRef.tla     reference container state, reference effect of every public mutator (RefApply) and the
                           C24 clauses as predicates over (reference state, what the public API answered);
spec/sys/MdGrid.tla        mechanism of pp.MixedDimensionalGrid (the five dictionaries, argsort_grids, sub-steps of every
                           mutator in the code's order); TLC checks exhaustively that the mechanism's answers satisfy
                           every clause (Design) and that the mechanisms before fixes 5d1eabcd5 / 3b4bfadde break it (vacuity);
spec/trace/M_MdGrid.tla    verdict: TLC model-checks the clauses on the transition graphs recorded from the REAL class;
spec/trace/T_MdGrid.tla    conformance: every recorded transition is a step of sys/MdGrid (-> drift).

Two bindings, both by path re-execution (harness/explore.explore_paths) on a real MixedDimensionalGrid:
  pool       histories of add_subdomains / add_interface / remove_subdomain / replace_subdomains_and_interfaces over a pool
             of tiny real grids (PointGrid, CartGrid([1]^d), d = 1..3) and mock MortarGrids between them (as in
             tests/grids/test_md_grid.py);
  fractured  histories of replacements (copies, refined grids, refined mortar side grids) and removals on real fractured
             md-grids from pp.meshing.cart_grid, so that update_mortar / update_primary / update_secondary run for real.
A node of a recorded graph is everything the public API answers (observe); objects are named by the rank of their real
creation id inside the pool."""
from __future__ import annotations

import copy

import numpy as np

from .. import explore as ex
from .. import tlc

LEVEL = "model_checking"
STATE_CLAUSES = ["ListingSorted", "InterfaceListing", "PairRoundTrip", "OneBoundaryGrid", "DataCarriedOver", "NoDangling"]
CLAUSES = ["Accepted", "RemoveExact"] + STATE_CLAUSES
MAX_REPORTED = 12
# calls that the container must reject (re-adding a present subdomain / interface, co-dimension 3) are part of the
# histories: the reference says they leave the container unchanged (repaired for co-dimension 3 by 3b4bfadde)
INCLUDE_REJECTED_CALLS = True
# replacing the 2-d host along a fracture that carries an intersection is not supported by
# match_grids_along_1d_mortar (ValueError from the mortar update, also for an identical copy): outside the family
INCLUDE_UNSUPPORTED_HOST_REPLACEMENT = False


# ===================================================================== pools
def _mk_grid(dim):
    import porepy as pp

    g = pp.PointGrid(np.zeros(3)) if dim == 0 else pp.CartGrid(np.array([1] * dim))
    g.compute_geometry()
    return g


def _mock_mortar(hi, lo, codim):
    """Mock interface between two pool grids (cf. tests/grids/test_md_grid.py:mock_mortar_grid): the mortar grid is a
    one-sided copy of the lower-dimensional grid, the face-cell map pairs its cells with boundary faces of the other."""
    import porepy as pp
    import scipy.sparse as sps
    from porepy.grids.mortar_grid import MortarSides

    if codim == 1:
        n0, ind = hi.num_faces, hi.get_boundary_faces()[: lo.num_cells]
    else:
        n0, ind = hi.num_cells, np.arange(lo.num_cells)
    a = np.zeros((lo.num_cells, n0))
    a[np.arange(lo.num_cells), ind] = 1
    return pp.MortarGrid(lo.dim, {MortarSides.LEFT_SIDE: lo}, primary_secondary=sps.csc_matrix(a), codim=max(codim, 1))


# pool configurations: dims of the subdomain pool in creation order (names = 1-based positions), mortar grids as
# (higher, lower) in creation order, lists offered to add_subdomains, replacement candidates old -> new
POOL_CONFIGS = {
    "A": dict(D=[0, 1, 2, 3, 0, 1], mortars=[(2, 1), (3, 2), (4, 3), (3, 1), (4, 1)],
              adds=[[1], [2], [3], [4], [4, 1, 3]], repl={1: 5, 2: 6}),
    "B": dict(D=[1, 0, 1, 0, 2, 0], mortars=[(1, 2), (3, 2), (1, 3), (5, 4), (5, 1)],
              adds=[[1], [2], [3], [5], [4, 3]], repl={2: 6, 4: 6}),
    "C": dict(D=[3, 2, 2, 1, 0, 2, 3], mortars=[(1, 2), (1, 3), (2, 4), (1, 4), (1, 5), (2, 3)],
              adds=[[1], [3], [4], [5], [2, 1]], repl={3: 6, 2: 6, 1: 7}),
}
_POOLS = {}


def _pool(name):
    """the real objects of a pool configuration, built once (their ids are fixed; the container under test is fresh
    for every re-executed history and the mutable state of the mortar grids is restored)"""
    if name not in _POOLS:
        c = POOL_CONFIGS[name]
        sds = [_mk_grid(d) for d in c["D"]]
        mos = [_mock_mortar(sds[h - 1], sds[l - 1], c["D"][h - 1] - c["D"][l - 1]) for h, l in c["mortars"]]
        snaps = [dict(m.__dict__) for m in mos]
        for s in snaps:
            s["side_grids"] = dict(s["side_grids"])
        _POOLS[name] = (sds, mos, snaps)
    return _POOLS[name]


# ===================================================================== fractured catalogue
FRAC_CONFIGS = {
    # two crossing fractures: 2-d host, two 1-d fractures, the intersection point
    "X": dict(fracs=[[[0, 2], [1, 1]], [[1, 1], [0, 2]]], nx=[2, 2], fine=[4, 4], host_replaceable=False),
    # one fracture: the host can be replaced as well
    "I": dict(fracs=[[[0, 2], [1, 1]]], nx=[2, 2], fine=[4, 4], host_replaceable=True),
}
_TEMPLATES = {}


def _same_place(g, h):
    lo, hi = g.nodes.min(axis=1), g.nodes.max(axis=1)
    lo2, hi2 = h.nodes.min(axis=1), h.nodes.max(axis=1)
    return g.dim == h.dim and np.allclose(lo, lo2) and np.allclose(hi, hi2)


def _template(name):
    import porepy as pp

    if name not in _TEMPLATES:
        c = FRAC_CONFIGS[name]
        fr = [np.array(f, dtype=float) for f in c["fracs"]]
        base = pp.meshing.cart_grid(fr, np.array(c["nx"]), physdims=[2, 2])
        fine = pp.meshing.cart_grid(fr, np.array(c["fine"]), physdims=[2, 2])
        slots = []  # per initial subdomain: list of candidate grids (created after every initial grid)
        for sd in base.subdomains():
            cands = [sd.copy()]
            if sd.dim > 0:
                cands += [g for g in fine.subdomains(dim=sd.dim) if _same_place(g, sd)][:1]
            slots.append(cands)
        _TEMPLATES[name] = (base, slots)
    return _TEMPLATES[name]


# ===================================================================== driver
class Drv:
    """A container under test plus the pool naming its objects."""

    def __init__(self, binding, name):
        import porepy as pp

        self.binding, self.name = binding, name
        if binding == "pool":
            c = POOL_CONFIGS[name]
            sds, mos, snaps = _pool(name)
            for m, s in zip(mos, snaps):
                m.__dict__.clear()
                m.__dict__.update(s)
                m.side_grids = dict(s["side_grids"])
            self.mdg = pp.MixedDimensionalGrid()
            self.sds, self.mos = list(sds), list(mos)
            self.slot_of = {}
        else:
            base, slots = copy.deepcopy(_template(name))
            self.mdg = base
            init = list(base.subdomains())
            self.sds = init + [g for cands in slots for g in cands]
            self.mos = list(base.interfaces())
            # slot (position of the initial subdomain) of every grid: a grid may only replace the occupant of its slot
            self.slot_of = {id(g): k for k, g in enumerate(init)}
            for k, cands in enumerate(slots):
                for g in cands:
                    self.slot_of[id(g)] = k
        # names = 1 + rank of the real creation id inside the pool
        o = sorted(range(len(self.sds)), key=lambda k: self.sds[k].id)
        self.sds = [self.sds[k] for k in o]
        o = sorted(range(len(self.mos)), key=lambda k: self.mos[k].id)
        self.mos = [self.mos[k] for k in o]
        self.sd_id = {id(g): k + 1 for k, g in enumerate(self.sds)}
        self.if_id = {id(m): k + 1 for k, m in enumerate(self.mos)}
        self.D = [int(g.dim) for g in self.sds]
        self.M = [int(m.dim) for m in self.mos]
        if binding == "frac":
            for g, data in self.mdg.subdomains(return_data=True):
                data["tag"] = self.sd_id[id(g)]
            for m, data in self.mdg.interfaces(return_data=True):
                data["tag"] = self.if_id[id(m)]
            for b, data in self.mdg.boundaries(return_data=True):
                data["tag"] = self.sd_id[id(b.parent)]

    def init_desc(self):
        mdg = self.mdg
        bgs = sorted(mdg.boundaries(), key=lambda b: b.id)
        return dict(sds=[self.sd_id[id(g)] for g in mdg.subdomains()],
                    ifs=[[self.if_id[id(m)]] + [self.sd_id[id(g)] for g in mdg.interface_to_subdomain_pair(m)]
                         for m in mdg.interfaces()],
                    bgs=[self.sd_id[id(b.parent)] for b in bgs])


def fresh(binding, name):
    return lambda: Drv(binding, name)


def _exc(e):
    return type(e).__name__


def _refined_sides(intf, n):
    """new side grids for a mortar grid: n cells per side along the old side grid (a copy for 0-d mortars)"""
    import porepy as pp

    out = {}
    for side, g in intf.side_grids.items():
        if g.dim == 0 or n == 0:
            out[side] = g.copy()
            continue
        x = g.nodes
        order = np.argsort(x[0] + 2.0 * x[1] + 4.0 * x[2])
        a, b = x[:, order[0]], x[:, order[-1]]
        h = pp.TensorGrid(np.linspace(0.0, 1.0, n + 1))
        t = np.linspace(0.0, 1.0, n + 1)
        h.nodes = a.reshape((3, 1)) + (b - a).reshape((3, 1)) * t
        h.compute_geometry()
        out[side] = h
    return out


def apply(d: Drv, e):
    """execute one recorded call on the real container; the outcome is an observation"""
    mdg = d.mdg
    ev = e["ev"]
    out = dict(res="ok", fam=bool(e.get("fam", True)))
    try:
        if ev == "add":
            gs = [d.sds[s - 1] for s in e["L"]]
            mdg.add_subdomains(gs if len(gs) > 1 or e.get("aslist") else gs[0])
            for g in gs:  # the caller's own entries in the data dictionaries
                mdg.subdomain_data(g)["tag"] = d.sd_id[id(g)]
                b = mdg.subdomain_to_boundary_grid(g)
                if b is not None:
                    mdg.boundary_grid_data(b)["tag"] = d.sd_id[id(g)]
        elif ev == "addintf":
            m = d.mos[e["i"] - 1]
            mdg.add_interface(m, (d.sds[e["a"] - 1], d.sds[e["b"] - 1]), None)
            mdg.interface_data(m)["tag"] = e["i"]
        elif ev == "remove":
            mdg.remove_subdomain(d.sds[e["s"] - 1])
        elif ev == "replace":
            olds = [d.sds[o - 1] for o, _ in e["map"]]
            news = [d.sds[n - 1] for _, n in e["map"]]
            before = []
            for o in olds:
                dd = mdg._subdomain_data.get(o)
                b = mdg.subdomain_to_boundary_grid(o)
                before.append((dd, mdg._boundary_grid_data.get(b) if b is not None else None))
            kw = {}
            if e.get("imap"):
                kw["interface_map"] = {d.mos[i - 1]: _refined_sides(d.mos[i - 1], n) for i, n in e["imap"]}
            try:
                mdg.replace_subdomains_and_interfaces(dict(zip(olds, news)), **kw)
            finally:
                same = True
                for n, (dd, bd) in zip(news, before):
                    same = same and mdg._subdomain_data.get(n) is dd
                    b = mdg.subdomain_to_boundary_grid(n)
                    if bd is not None:
                        same = same and b is not None and mdg._boundary_grid_data.get(b) is bd
                out["same_data"] = bool(same)
        elif ev == "replaceintf":
            m = d.mos[e["i"] - 1]
            new = _refined_sides(m, e["n"])
            if e.get("as_mortar"):
                import porepy as pp

                new = pp.MortarGrid(m.dim, new)
            mdg.replace_subdomains_and_interfaces(interface_map={m: new})
        else:
            raise ValueError(e)
    except Exception as x:  # noqa: an exception of the code under test is an observation
        out["res"] = _exc(x)
        out["msg"] = str(x)[:120]
    return out


def observe(d: Drv):
    """everything the public API answers, with objects named by pool rank (-1 = not an object of the pool / no answer)"""
    mdg = d.mdg
    errors = []

    def guarded(what, fn, default):
        try:
            return fn()
        except Exception as x:  # noqa
            errors.append(f"{what}: {_exc(x)}"[:80])
            return default

    sid = lambda g: d.sd_id.get(id(g), -1)  # noqa
    iid = lambda m: d.if_id.get(id(m), -1)  # noqa
    ids = lambda gs: [sid(g) for g in gs]  # noqa
    sds = guarded("subdomains", lambda: list(mdg.subdomains()), [])
    rd = guarded("subdomains(return_data)", lambda: list(mdg.subdomains(return_data=True)), [])
    sd_tag = [int(x.get("tag", -1)) for _, x in rd] if [g for g, _ in rd] == sds else [-2] * len(sds)
    by_dim = [guarded(f"subdomains(dim={k})", lambda k=k: ids(mdg.subdomains(dim=k)), [-1]) for k in range(4)]
    ifs = guarded("interfaces", lambda: list(mdg.interfaces()), [])
    ird = guarded("interfaces(return_data)", lambda: list(mdg.interfaces(return_data=True)), [])
    if_tag = [int(x.get("tag", -1)) for _, x in ird] if [m for m, _ in ird] == ifs else [-2] * len(ifs)
    if_by_dim = [guarded(f"interfaces(dim={k})", lambda k=k: [iid(m) for m in mdg.interfaces(dim=k)], [-1])
                 for k in range(3)]
    pair, back, back_rev = [], [], []
    for m in ifs:
        p = guarded("interface_to_subdomain_pair", lambda m=m: tuple(mdg.interface_to_subdomain_pair(m)), None)
        if p is None or len(p) != 2:
            pair.append([-1, -1]), back.append(-1), back_rev.append(-1)
            continue
        pair.append(ids(p))
        back.append(guarded("subdomain_pair_to_interface", lambda p=p: iid(mdg.subdomain_pair_to_interface(p)), -1))
        back_rev.append(guarded("subdomain_pair_to_interface", lambda p=p: iid(mdg.subdomain_pair_to_interface(p[::-1])), -1))
    sd_ifs = [guarded("subdomain_to_interfaces", lambda g=g: [iid(m) for m in mdg.subdomain_to_interfaces(g)], [-1])
              for g in sds]
    neigh = [guarded("neighboring_subdomains", lambda g=g: ids(mdg.neighboring_subdomains(g)), [-1]) for g in sds]
    neigh_hi = [guarded("neighboring_subdomains", lambda g=g: ids(mdg.neighboring_subdomains(g, only_higher=True)), [-1])
                for g in sds]
    neigh_lo = [guarded("neighboring_subdomains", lambda g=g: ids(mdg.neighboring_subdomains(g, only_lower=True)), [-1])
                for g in sds]
    try:
        bl = list(mdg.boundaries(return_data=True))
        kind = "list"
    except ValueError as x:
        bl = []
        kind = "guard" if "no boundary" in str(x) else "error"
    except Exception as x:  # noqa
        bl, kind = [], "error"
        errors.append(f"boundaries: {_exc(x)}")
    bgs = [b for b, _ in bl]
    by_id = sorted(range(len(bgs)), key=lambda k: bgs[k].id)
    rank = {k: r for r, k in enumerate(by_id)}
    sd_bg, sd_bg_pos = [], []
    for g in sds:
        b = guarded("subdomain_to_boundary_grid", lambda g=g: mdg.subdomain_to_boundary_grid(g), None)
        sd_bg.append(-1 if b is None else sid(b.parent))
        pos = [k + 1 for k, x in enumerate(bgs) if x is b]
        sd_bg_pos.append(pos[0] if pos else 0)
    listed = {id(g) for g in sds}
    absent_ok = all(mdg.subdomain_to_boundary_grid(g) is None for g in d.sds if id(g) not in listed)
    absent_ok = absent_ok and all(b in mdg for b in bgs)
    return dict(
        sds=ids(sds), by_dim=by_dim, sd_tag=sd_tag, ifs=[iid(m) for m in ifs], if_by_dim=if_by_dim, if_tag=if_tag,
        pair=pair, back=back, back_rev=back_rev, sd_ifs=sd_ifs, neigh=neigh, neigh_hi=neigh_hi, neigh_lo=neigh_lo,
        bnd_kind=kind, bnd_parent=[sid(b.parent) for b in bgs], bnd_dim=[int(b.dim) for b in bgs],
        bnd_rank=[rank[k] for k in range(len(bgs))], bnd_tag=[int(x.get("tag", -1)) for _, x in bl],
        sd_bg=sd_bg, sd_bg_pos=sd_bg_pos, absent_bg_none=bool(absent_ok),
        has_sd=[bool(g in mdg) for g in d.sds], has_if=[bool(m in mdg) for m in d.mos],
        nsd=int(mdg.num_subdomains()), nif=int(mdg.num_interfaces()), errors=errors)


# ===================================================================== the family of calls offered
def _present(p):
    sds = set(p["sds"])
    pairs = {i: tuple(q) for i, q in zip(p["ifs"], p["pair"])}
    return sds, pairs


def pool_actions(name, max_sd=4):
    c = POOL_CONFIGS[name]
    D = c["D"]
    mort = c["mortars"]
    M = [min(D[h - 1], D[l - 1]) for h, l in mort]
    cod = [D[h - 1] - D[l - 1] for h, l in mort]

    def actions(p):
        if p["errors"] or -1 in p["sds"]:
            return []  # the container already left the reference: nothing more to learn from this history
        sds, pairs = _present(p)
        acts = []
        for L in c["adds"]:
            if not (set(L) & sds) and len(sds) + len(L) <= max_sd:
                acts.append(dict(ev="add", L=L))
        if INCLUDE_REJECTED_CALLS and sds:
            s = min(sds)
            acts.append(dict(ev="add", L=[s], aslist=True))  # rejected: already present
        rejected_done = False
        for i, (h, l) in enumerate(mort, 1):
            if not {h, l} <= sds:
                continue
            if i in pairs:
                if INCLUDE_REJECTED_CALLS and not rejected_done:
                    acts.append(dict(ev="addintf", i=i, a=h, b=l, codim=cod[i - 1]))  # rejected: present
                    rejected_done = True
                continue
            if any(set(q) == {h, l} for q in pairs.values()):
                continue  # at most one interface per pair of subdomains
            if cod[i - 1] >= 3 and not INCLUDE_REJECTED_CALLS:
                continue
            acts.append(dict(ev="addintf", i=i, a=h, b=l, codim=cod[i - 1]))
            acts.append(dict(ev="addintf", i=i, a=l, b=h, codim=cod[i - 1]))  # "the ordering is arbitrary"
        for s in sorted(sds):
            acts.append(dict(ev="remove", s=s))
        for old, new in c["repl"].items():
            if old not in sds or new in sds:
                continue
            # mock interfaces carry no conforming geometry: replacement only where the mortar update is well defined
            # (0-d mortars of co-dimension 1 on the primary side, mortars of dimension <= 1 on the secondary side)
            ok = True
            for i, q in pairs.items():
                if old == q[0] and not (M[i - 1] == 0 and cod[i - 1] == 1):
                    ok = False
                if old == q[1] and not M[i - 1] <= 1:
                    ok = False
            if ok:
                acts.append(dict(ev="replace", map=[[old, new]]))
        for i in sorted(pairs):
            if M[i - 1] <= 1:
                acts.append(dict(ev="replaceintf", i=i, n=0))
                break
        return acts

    return actions


def frac_actions(d0: Drv, name):
    """d0: a driver of this configuration (for the naming of slots and dimensions)"""
    c = FRAC_CONFIGS[name]
    slot = {d0.sd_id[id(g)]: d0.slot_of[id(g)] for g in d0.sds}
    D, M = d0.D, d0.M

    def actions(p):
        if p["errors"] or -1 in p["sds"]:
            return []
        sds, pairs = _present(p)
        absent = [s for s in range(1, len(D) + 1) if s not in sds]
        occupied = {slot[s] for s in sds}
        acts, singles = [], []
        for old in sorted(sds):
            for new in absent:
                if slot[new] != slot[old]:
                    continue
                fam = True
                if D[old - 1] == 2 and not c["host_replaceable"]:
                    if not INCLUDE_UNSUPPORTED_HOST_REPLACEMENT:
                        continue
                    fam = False
                singles.append((old, new))
                acts.append(dict(ev="replace", map=[[old, new]], fam=fam))
        # two entries in one call (different slots), the lower-dimensional first; and one together with a mortar refinement
        fams = [(o, n) for o, n in singles if not (D[o - 1] == 2 and not c["host_replaceable"])]
        for k, (o1, n1) in enumerate(fams):
            for o2, n2 in fams[k + 1:]:
                if slot[o1] != slot[o2] and D[o1 - 1] != D[o2 - 1]:
                    acts.append(dict(ev="replace", map=sorted([[o1, n1], [o2, n2]], key=lambda q: D[q[0] - 1])))
                    break
            else:
                continue
            break
        one_d = [i for i in sorted(pairs) if M[i - 1] == 1]
        zero_d = [i for i in sorted(pairs) if M[i - 1] == 0]
        if one_d and fams:
            o, n = fams[-1]
            acts.append(dict(ev="replace", map=[[o, n]], imap=[[one_d[0], 3]]))
        for i in one_d[:1]:
            acts.append(dict(ev="replaceintf", i=i, n=3))
            acts.append(dict(ev="replaceintf", i=i, n=5, as_mortar=True))
        for i in zero_d[:1]:
            acts.append(dict(ev="replaceintf", i=i, n=0))
        for s in sorted(sds):
            acts.append(dict(ev="remove", s=s))
        return acts

    return actions


# ===================================================================== TLC runs
def design(ctx, level, guard=True, atomic=True):
    pool = dict(D=[0, 1, 2, 3, 0, 1], M=[0, 1, 2, 0, 0, 1])  # mortars (2,1) (3,2) (4,3) (3,1) (4,1) (2,6)
    lists = [[1], [2], [3], [4], [5], [6], [4, 1, 3], [6, 2]]
    consts = dict(Pool0=pool, AddLists=tlc.Raw("{" + ", ".join(tlc.tla(x) for x in lists) + "}"),
                  BgGuard=guard, AtomicAddInterface=atomic)
    m, cf = tlc.gen(ctx.work / f"design_{guard}_{atomic}", "MC_MdGrid", "MdGrid", consts, invariants=["Design", "Consistent"],
                    constraint="Lim", extra_defs=f'Lim == TLCGet("level") <= {level}')
    return ctx.tlc(m, cf, workers=8, allow_violation=not (guard and atomic))


def monitor(ctx, wd, gfile, workers=8):
    m, cf = tlc.gen(wd, "MC_M_MdGrid", "M_MdGrid", {}, spec="MSpec", view="MView")
    return ctx.tlc(m, cf, workers=workers, env={"VERIF_GRAPH": gfile}, allow_violation=False)


def conformance(ctx, wd, gfile, workers=8):
    consts = dict(Pool0=dict(D=[0], M=[0]), AddLists=tlc.Raw("{}"), BgGuard=True, AtomicAddInterface=True)
    m, cf = tlc.gen(wd, "MC_T_MdGrid", "T_MdGrid", consts, spec="TSpec", view="TView")
    return ctx.tlc(m, cf, workers=workers, env={"VERIF_GRAPH": gfile}, allow_violation=False)


def record(binding, name, L, max_nodes):
    d0 = Drv(binding, name)
    acts = pool_actions(name) if binding == "pool" else frac_actions(d0, name)
    g = ex.explore_paths(fresh(binding, name), actions=acts, apply=apply, project=observe, max_depth=L, max_nodes=max_nodes)
    g["pool"] = dict(D=d0.D, M=d0.M)
    g["init"] = d0.init_desc()
    g["binding"], g["config"] = binding, name
    return g


def _walk(g, path):
    n, events = 1, []
    for i in path:
        e = g["edges"][n - 1][i - 1]
        events.append({k: v for k, v in e.items() if k not in ("dst", "res", "msg", "same_data")})
        n = e["dst"]
    return events, n


def report(ctx, graphs, records):
    seen = set()
    for r in sorted(records, key=lambda r: (len(r["path"]), r["g"], r["clause"], r["path"])):
        k = (r["g"], r["clause"], tuple(r["path"]))
        if k in seen:
            continue
        seen.add(k)
        g = graphs[r["g"] - 1]
        if len(ctx.violations) >= MAX_REPORTED:
            ctx.extra["violations_not_listed"] = ctx.extra.get("violations_not_listed", 0) + 1
            continue
        events, n = _walk(g, r["path"])
        outcome = "start"
        if r["path"]:
            src = 1
            for i in r["path"][:-1]:
                src = g["edges"][src - 1][i - 1]["dst"]
            e = g["edges"][src - 1][r["path"][-1] - 1]
            outcome = f"{e['ev']} -> {e['res']} {e.get('msg', '')}"
        rec = dict(binding=g["binding"], config=g["config"], events=events, observed=g["nodes"][n - 1])
        ctx.violation(r["clause"], rec, f"{g['binding']}/{g['config']} after {len(events)} calls, last {outcome}"[:300])


def drifts(ctx, graphs, records):
    taken = {tuple(r) for r in records}
    for gi, g in enumerate(graphs, 1):
        reached = {1} | {g["edges"][n - 1][i - 1]["dst"] for (k, n, i) in taken if k == gi}
        missing = [(n, i, e) for n, es in enumerate(g["edges"], 1) if n in reached
                   for i, e in enumerate(es, 1) if e.get("fam", True) and (gi, n, i) not in taken]
        for n, i, e in missing[:2]:
            ev = {k: v for k, v in e.items() if k != "dst"}
            ctx.drift(f"edge rejected by sys/MdGrid ({g['binding']}/{g['config']}): history={ex.path_to(g, n)} call={ev}")
        for _ in missing[2:]:
            ctx.drift("")
        # a replacement that does not hand over the very same dictionary objects keeps the property (contents are judged)
        for es in g["edges"]:
            for e in es:
                if e["ev"] == "replace" and e["res"] == "ok" and e.get("same_data") is False:
                    ctx.drift(f"replacement copied a data dictionary instead of handing it over: {e}")


def run(ctx):
    ctx.rule = ("per configuration every history of add_subdomains / add_interface / remove_subdomain / "
                "replace_subdomains_and_interfaces calls up to length L is executed on a real MixedDimensionalGrid (path "
                "re-execution); after every call all public listings and look-ups are recorded; evaluations = recorded real "
                "transitions, each judged by TLC (M_MdGrid) under every reference state a history produces; a configuration is "
                "non-trivial when its graph contains removals of subdomains with interfaces and replacements")
    ctx.assumptions = [
        "interfaces are added between two distinct present subdomains, at most one per pair, mortar dimension = lower dimension",
        "pool binding: mock mortar grids (no conforming geometry), so subdomains are replaced only where the mortar update is "
        "well defined for mocks (0-d mortars of co-dimension 1 on the primary side, dimension <= 1 on the secondary side)",
        "fractured binding: a grid replaces the occupant of its own slot; replacing the 2-d host along a fracture that carries "
        "an intersection is outside the family (unsupported by match_grids_along_1d_mortar)",
        "boundaries() may refuse with its documented guard when no present subdomain has positive dimension"]
    # (1) design: mechanism model satisfies the clauses; (thorough) the two modelled defects break them
    des = design(ctx, 3 if ctx.quick else 5)
    ctx.extra["design_states"] = des.distinct
    if not ctx.quick:
        for guard, atomic in ((False, True), (True, False)):
            r = design(ctx, 5, guard, atomic)
            if r.violated != "Design":
                raise RuntimeError(f"vacuity check: Design not violated with BgGuard={guard} AtomicAddInterface={atomic}")
    # (2) real histories
    jobs = [("pool", n, 4 if ctx.quick else 5, 4000 if ctx.quick else 30000) for n in POOL_CONFIGS]
    jobs += [("frac", n, 3 if ctx.quick else 4, 3000 if ctx.quick else 10000) for n in FRAC_CONFIGS]
    graphs = [record(*j) for j in jobs]
    gfile = ctx.datafile("graphs.json", graphs)
    for j, g in zip(jobs, graphs):
        ne = ex.n_edges(g)
        ctx.traces += ne
        n_rm = sum(1 for n, es in enumerate(g["edges"]) for e in es
                   if e["ev"] == "remove" and any(e["s"] in q for q in g["nodes"][n]["pair"]))
        n_rp = sum(1 for es in g["edges"] for e in es if e["ev"] == "replace")
        ctx.case(key=(j[0], j[1], j[2]), nontrivial=n_rm > 0 and n_rp > 0, n=ne)
        ctx.extra["real_nodes"] = ctx.extra.get("real_nodes", 0) + len(g["nodes"])
        ctx.extra.setdefault("graphs", []).append(dict(binding=j[0], config=j[1], L=j[2], nodes=len(g["nodes"]), edges=ne,
                                                       removals_with_interfaces=n_rm, replacements=n_rp,
                                                       truncated=g["truncated"]))
        out = sum(1 for es in g["edges"] for e in es if not e.get("fam", True))
        if out:
            ctx.extra["out_of_family_calls_recorded"] = ctx.extra.get("out_of_family_calls_recorded", 0) + out
    mon = monitor(ctx, ctx.work / "monitor", gfile)
    report(ctx, graphs, mon.records)
    tr = conformance(ctx, ctx.work / "trace", gfile)
    drifts(ctx, graphs, tr.records)
    g0 = graphs[0]
    ctx.sample(dict(binding=g0["binding"], config=g0["config"], history=ex.path_to(g0, len(g0["nodes"])),
                    observed=g0["nodes"][-1]))
    g1 = graphs[-1]
    ctx.sample(dict(binding=g1["binding"], config=g1["config"], history=ex.path_to(g1, len(g1["nodes"])),
                    observed={k: g1["nodes"][-1][k] for k in ("sds", "ifs", "pair", "bnd_parent", "sd_tag")}))
    ctx.exhaustive = not any(g["truncated"] for g in graphs)


def replay(ctx, body):
    rec = body["record"]
    d = Drv(rec["binding"], rec["config"])
    pool, init = dict(D=d.D, M=d.M), d.init_desc()
    nodes, edges = [observe(d)], []
    for k, e in enumerate(rec["events"], 1):
        res = apply(d, e)
        nodes.append(observe(d))
        edges.append([dict(e, **res, dst=k + 1)])
    edges.append([])
    g = dict(nodes=nodes, edges=edges, truncated=False, pool=pool, init=init, binding=rec["binding"], config=rec["config"])
    gfile = ctx.datafile("graph_replay.json", [g])
    mon = monitor(ctx, ctx.work / "replay", gfile, workers=1)
    ctx.case(key="replay", n=len(edges))
    ctx.sample(rec["events"])
    report(ctx, [g], mon.records)
