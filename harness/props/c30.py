"""C30 Distance computations are exact.

spec/ref/Distance.tla          exact squared distances (rationals) and membership / at-distance predicates
spec/ref/DistanceFamilies.tla  the calls TLC enumerates (lattice points, segments, planar lattice polygons) + model laws
spec/trace/J_Distance.tla      *Dist and *Closest clauses, judged by TLC on every recorded call

Python only: builds the numpy arguments of an emitted call, runs the real porepy function, squares the returned
distances and converts them and the returned closest points to exact rationals (codec.rat)."""
from __future__ import annotations

from fractions import Fraction
from math import lcm

import numpy as np

from .. import codec, tlc

LEVEL = "translation_validation"
FNS = ["point_pointset", "pointset", "points_segments", "segment_segment_set", "segment_set", "points_polygon",
       "segments_polygon"]
CLAUSES = ["PointPointDist", "PointSetDist", "PointSegDist", "PointSegClosest", "SegSegDist", "SegSegClosest",
           "SegmentSetDist", "PointPolyDist", "PointPolyClosest", "SegPolyDist", "SegPolyClosest", "SegPolyClosestEntering"]
MAXDEN_D2 = 50000   # squared reference distances have denominators <= 729 * 3 in these families
MAXDEN_CP = 2000
MAXM = 500          # common denominator of a returned point (keeps TLC's 32-bit products in range)

MATCHERS = {
    # segment_set raises IndexError on every input (dl[i, i + 1:] on a 1-d array); a segment_set that returns
    # (wrong) values, or raises anything else, is NOT matched
    "segment_set_raises": lambda r: r["clause"] == "SegmentSetDist" and r["fn"] == "segment_set" and r["ok"] is False
    and r.get("err", "").startswith("IndexError: too many indices for array"),
}


class Conv:
    """float -> exact rationals; remembers whether every conversion was exact"""

    def __init__(self):
        self.x = True
        self.cpx = True
        self.nonneg = True

    def d2(self, d):
        if float(d) < 0:
            self.nonneg = False
        try:
            return codec.rat(float(d) ** 2, MAXDEN_D2)
        except (codec.Inexact, OverflowError, ValueError):
            self.x = False
            return [0, 1]

    def pts(self, *vs):
        """points -> integer numerators over one common denominator"""
        try:
            fr = [[Fraction(*codec.rat(float(c), MAXDEN_CP)) for c in np.asarray(v, float).ravel()] for v in vs]
        except (codec.Inexact, OverflowError, ValueError):
            self.cpx = False
            return [[0] * len(np.asarray(v).ravel()) for v in vs], 1
        m = lcm(*[c.denominator for v in fr for c in v])
        if m > MAXM:
            self.cpx = False
            return [[0] * len(v) for v in fr], 1
        return [[int(c * m) for c in v] for v in fr], m


def _cols(pts):
    return np.array(pts, dtype=float).T.reshape((len(pts[0]), -1))


def call(fn, inp):
    import porepy as pp

    D = pp.distances
    cv = Conv()
    if fn == "point_pointset":
        d = D.point_pointset(np.array(inp["p"], float), _cols(inp["pts"]))
        out = dict(d2=[cv.d2(x) for x in d])
    elif fn == "pointset":
        d = D.pointset(_cols(inp["pts"]))
        out = dict(d2=[[cv.d2(x) for x in row] for row in d])
    elif fn == "points_segments":
        segs = inp["segs"]
        d, cp = D.points_segments(_cols(inp["pts"]), _cols([s[0] for s in segs]), _cols([s[1] for s in segs]))
        cps = []
        for i in range(len(inp["pts"])):
            row = []
            for j in range(len(segs)):
                (n,), m = cv.pts(cp[i, j, :])
                row.append(dict(n=n, m=m))
            cps.append(row)
        out = dict(d2=[[cv.d2(x) for x in row] for row in d], cp=cps)
    elif fn == "segment_segment_set":
        segs = inp["segs"]
        d, c1, c2 = D.segment_segment_set(np.array(inp["a"], float), np.array(inp["b"], float),
                                          _cols([s[0] for s in segs]), _cols([s[1] for s in segs]))
        cps = []
        for j in range(len(segs)):
            (n1, n2), m = cv.pts(c1[:, j], c2[:, j])
            cps.append(dict(n1=n1, n2=n2, m=m))
        out = dict(d2=[cv.d2(x) for x in d], cp=cps)
    elif fn == "segment_set":
        segs = inp["segs"]
        d, _cp = D.segment_set(_cols([s[0] for s in segs]), _cols([s[1] for s in segs]))
        out = dict(d2=[[cv.d2(x) for x in row] for row in d])
    elif fn == "points_polygon":
        d, cp, _ = D.points_polygon(_cols(inp["pts"]), _cols(inp["poly"]))
        cps = []
        for i in range(len(inp["pts"])):
            (n,), m = cv.pts(cp[:, i])
            cps.append(dict(n=n, m=m))
        out = dict(d2=[cv.d2(x) for x in d], cp=cps)
    elif fn == "segments_polygon":
        segs = inp["segs"]
        d, cp = D.segments_polygon(_cols([s[0] for s in segs]), _cols([s[1] for s in segs]), _cols(inp["poly"]))
        cps = []
        for j in range(len(segs)):
            (n,), m = cv.pts(cp[:, j])
            cps.append(dict(n=n, m=m))
        out = dict(d2=[cv.d2(x) for x in d], cp=cps)
    else:
        raise ValueError(fn)
    out["x"] = cv.x and cv.nonneg   # a distance is a non-negative number whose square is (within 1e-9) a small rational
    out["cpx"] = cv.cpx
    return out


def execute(rec):
    fn = rec["fn"]
    inp = {k: v for k, v in rec.items() if k != "fn"}
    try:
        out, ok, err = call(fn, inp), True, ""
    except Exception as e:  # the functions must return a distance for every input of the family
        out, ok, err = dict(x=False, cpx=False, d2=[], cp=[]), False, f"{type(e).__name__}: {e}"[:200]
    return dict(fn=fn, **{"in": inp}, ok=ok, out=out, err=err)


def _size(c):
    i = c["in"]
    return max(1, len(i.get("pts", [0]))) * max(1, len(i.get("segs", [0])))


def judge_cases(ctx, cases, tag=None):
    for v in ctx.judge("J_Distance", cases, CLAUSES, tag=tag, timeout=1800):
        c = cases[v["case"] - 1]
        ctx.violation(v["clause"], c, f"{c['fn']} in={c['in']} ok={c['ok']} {c.get('err', '')} out={c['out']}"[:400])


def run(ctx):
    import os

    fns = [f for f in FNS if f in os.environ.get("VERIF_ONLY", ",".join(FNS)).split(",")]  # development aid
    ctx.rule = ("TLC enumerates every call of DistanceFamilies.tla (lattice points / segments in 2D and 3D incl. parallel, "
                "collinear, touching and skew placements; planar convex and non-convex lattice polygons in four planes of 3D); "
                "each call runs on the real function; TLC compares d_code^2 (as a rational) with the exact squared distance and "
                "checks that the returned closest points lie on the objects at that distance; evaluations = point/segment/polygon "
                "pairs, key = function x dimension x whether the distance is zero")
    ctx.assumptions = ["segments have distinct end points (a zero-length segment is a point)",
                       "polygons are simple, planar, with integer vertices",
                       "d_code^2 must be within 1e-9 (relative) of the exact rational; closest points whose coordinates have no "
                       "common denominator <= 500 are counted as inconclusive (none on the unchanged tree)",
                       "segments_polygon returns one point: it must lie on the segment or on the polygon and be at the "
                       "reference distance from the other object"]
    m, cf = tlc.gen(ctx.work / "enum", "MC_DistanceFamilies", "DistanceFamilies",
                    dict(Fns=set(fns), Big=not ctx.quick), invariants=["Emit", "LawSym", "LawPoly"])
    res = ctx.tlc(m, cf, workers=8, allow_violation=False, timeout=1800)
    cases = [execute(r) for r in res.records]
    per_fn = {}
    for c in cases:
        n = _size(c)
        per_fn[c["fn"]] = per_fn.get(c["fn"], 0) + n
        i = c["in"]
        dim = len(i["pts"][0]) if "pts" in i else len(i["a"]) if "a" in i else len(i["segs"][0][0])
        zero = c["ok"] and "[0, 1]" in str(c["out"]["d2"])
        ctx.case(key=(c["fn"], dim, bool(zero)), nontrivial=c["ok"], n=n)
        if c["ok"] and not c["out"]["cpx"]:
            ctx.inconclusive += 1
    for fn in FNS:
        ex = next((c for c in cases if c["fn"] == fn and _size(c) <= 4), None)
        if ex is not None:
            ctx.sample({k: v for k, v in ex.items() if k != "err"}, cap=len(FNS))
    ctx.extra["calls_emitted_by_tlc"] = len(res.records)
    ctx.extra["pairs_per_function"] = per_fn
    judge_cases(ctx, cases)
    ctx.exhaustive = True


def replay(ctx, body):
    rec = body["record"]
    c = execute(dict(rec["in"], fn=rec["fn"]))
    ctx.case(key=("replay", c["fn"]), n=_size(c))
    ctx.sample(c)
    judge_cases(ctx, [c], tag="replay")
