"""C46 Sparse N-d arrays behave like a dictionary of coordinates.

spec/sys/SparseNd.tla   mechanism of SparseNdArray.add/get (Impl) + dictionary (Ref, spec/ref/CoordDict.tla),
                        invariants Represents / GetAgrees checked exhaustively by TLC (design);
spec/trace/M_SparseNd.tla  TLC model-checks the C46 clauses on the transition graph recorded from the REAL
                        object (ghost dictionary fed with the recorded call arguments) -> verdict;
spec/trace/T_SparseNd.tla  every recorded edge must be a step of SparseNd (conformance -> drift).

Nodes of the recorded graph = [coords (append order), vals, nadd]; reads are recorded as self-loop edges that
carry the observed result."""
from __future__ import annotations

import copy
import itertools
import random
import zlib
from concurrent.futures import ThreadPoolExecutor

import numpy as np

from .. import explore as ex
from .. import tlc

LEVEL = "model_checking"
CLAUSES = ["GetReturnsDict", "GetAbsentRaises", "ReadsDoNotWrite", "AddAccepted"]
BADVAL = -999999  # a stored / returned value that is not an integer (never produced by integer insertions)
MAX_REPORTED = 12


# ----------------------------------------------------------------- real-code driver
class Drv:
    def __init__(self, dim):
        from porepy.utils.array_operations import SparseNdArray

        self.arr = SparseNdArray(dim)
        self.nadd = 0


def _ints(a):
    out = []
    for x in np.asarray(a, dtype=float).ravel():
        out.append(int(x) if x == int(x) and abs(x) < 2 ** 30 else BADVAL)
    return out


def project(d: Drv):
    a = d.arr
    return dict(coords=[[int(x) for x in col] for col in np.asarray(a._coords).T.tolist()],
                vals=_ints(np.asarray(a._values)[0]) if np.asarray(a._values).shape[1] else [], nadd=d.nadd)


def apply(d: Drv, act):
    pts = [np.array(c, dtype=int) for c in act["batch"]]
    if act["ev"] == "add":
        d.nadd += 1
        try:
            r = d.arr.add(pts, np.array(act["vals"], dtype=float), additive=act["additive"])
            return dict(res="ok", out=[int(x) for x in np.asarray(r).ravel()])
        except Exception as e:  # noqa
            return dict(res=type(e).__name__, out=[])
    if act["ev"] == "get":
        try:
            r = d.arr.get(pts)
            return dict(res="ok", out=_ints(r))
        except Exception as e:  # noqa
            return dict(res=type(e).__name__, out=[])
    raise ValueError(act)


def _box(dim, side):
    return [list(t) for t in itertools.product(range(side), repeat=dim)]


def _batches(box, maxlen, minlen=0):
    out = []
    for k in range(minlen, maxlen + 1):
        out += [[list(c) for c in t] for t in itertools.product(box, repeat=k)]
    return out


def _vals(n):
    return [1 << j for j in range(n)]


def make_actions(c):
    """c: dim, side, L (history bound), maxb (batch length per add number), sample (None = all batches)."""
    box = _box(c["dim"], c["side"])
    full = {k: _batches(box, k) for k in set(c["maxb"])}

    def reads(p):
        stored = [list(x) for x in p["coords"]]
        absent = [x for x in box if x not in stored]
        acts = [dict(ev="get", batch=[x]) for x in box]  # every coordinate of the box on its own
        if stored:
            acts.append(dict(ev="get", batch=sorted(stored)))
            acts.append(dict(ev="get", batch=stored[::-1] + [stored[0]]))  # storage order reversed + a repeat
        if stored and absent:
            acts.append(dict(ev="get", batch=[stored[-1], absent[0]]))
        return [a for k, a in enumerate(acts) if a not in acts[:k]]

    def actions(p):
        acts = []
        if p["nadd"] < c["L"]:
            cand = full[c["maxb"][p["nadd"]]]
            pairs = [(b, add) for b in cand for add in (False, True)]
            if c.get("sample"):
                r = random.Random(zlib.crc32(repr((c["seed"], p["coords"], p["vals"], p["nadd"])).encode()))
                pairs = r.sample(pairs, min(c["sample"], len(pairs)))
            for b, add in pairs:
                acts.append(dict(ev="add", batch=b, vals=_vals(len(b)), additive=add))
        return acts + reads(p)

    return actions


def real_graph(c, max_nodes):
    return ex.explore(Drv(c["dim"]), actions=make_actions(c), apply=apply, project=project, clone=copy.deepcopy,
                      max_nodes=max_nodes)


def big_histories(rng, n):
    """seeded histories with large batches: 1-D / 2-D boxes of side 3-5, 1-3 adds of 4-12 items each drawn (heavy
    duplication) from 2-4 coordinates, both modes"""
    out = []
    for _ in range(n):
        dim, side = rng.choice([1, 2]), rng.randint(3, 5)
        box = _box(dim, side)
        adds = []
        for _ in range(rng.randint(1, 3)):
            few = rng.sample(box, min(len(box), rng.randint(2, 4)))
            b = [list(rng.choice(few)) for _ in range(rng.randint(4, 12))]
            adds.append(dict(ev="add", batch=b, vals=_vals(len(b)), additive=rng.random() < 0.4))
        out.append(dict(dim=dim, side=side, L=len(adds), maxb=[len(a["batch"]) for a in adds], kind="big", adds=adds))
    return out


def path_graph(c):
    """one history executed on a fresh real object, as a path graph; after every add: reads of every inserted
    coordinate (alone, all together in reverse) and of a coordinate never inserted (alone, with a stored one)"""
    d = Drv(c["dim"])
    box = _box(c["dim"], c["side"])
    nodes, edges, inserted = [project(d)], [[]], []

    def step(call):
        res = apply(d, call)
        p = project(d)
        if call["ev"] == "add" or p != nodes[-1]:  # (a read that writes gets its own node: ReadsDoNotWrite sees it)
            nodes.append(p)
            edges.append([])
            edges[-2].append(dict(call, **res, dst=len(nodes)))
        else:
            edges[-1].append(dict(call, **res, dst=len(nodes)))

    for a in c["adds"]:
        step(a)
        inserted += [x for k, x in enumerate(a["batch"]) if x not in inserted and x not in a["batch"][:k]]
        absent = [x for x in box if x not in inserted]
        for b in [[x] for x in inserted] + [inserted[::-1]] + ([[absent[0]], [inserted[0], absent[-1]]] if absent else []):
            step(dict(ev="get", batch=b))
    return dict(nodes=nodes, edges=edges, truncated=False, cut=[False] * len(nodes))


def consts_of(c, design=False):
    return dict(Dim=c["dim"], Side=c["side"], MaxBatch=c.get("design_maxb", 3), GetBatch=c.get("design_getb", 2),
                MaxAdds=c.get("design_adds", c["L"]), FwdPerm=True, PairByMatch=True)


# ----------------------------------------------------------------- TLC runs
def design(ctx, c, workers=8, variant=True):
    """variant=True: the mechanism of the code as it is -> Represents / GetAgrees must hold.
    variant=False: the in-place update of the code before fix bc4022bb5 -> the invariants must be able to fail."""
    wd = ctx.work / f"design_{c['dim']}_{c['side']}_{variant}"
    k = consts_of(c, design=True)
    k["PairByMatch"] = variant
    m, cf = tlc.gen(wd, "MC_SparseNd", "SparseNd", k, invariants=["NoDupStored", "Represents", "GetAgrees"],
                    view="DesignView")
    return ctx.tlc(m, cf, workers=workers, allow_violation=not variant)


def monitor(ctx, wd, gfile, workers):
    m, cf = tlc.gen(wd, "MC_M_SparseNd", "M_SparseNd", {}, spec="MSpec", view="MView")
    return ctx.tlc(m, cf, workers=workers, env={"VERIF_GRAPH": gfile}, allow_violation=False)


def conformance(ctx, wd, gfile, workers):
    k = dict(Dim=1, Side=1, MaxBatch=0, GetBatch=0, MaxAdds=0, FwdPerm=True, PairByMatch=True)
    m, cf = tlc.gen(wd, "MC_T_SparseNd", "T_SparseNd", k, spec="TSpec", view="TView")
    return ctx.tlc(m, cf, workers=workers, env={"VERIF_GRAPH": gfile}, allow_violation=False)


def _walk(g, path):
    """edge-index path (1-based, from node 1) -> events, states along it"""
    n, events, states = 1, [], [g["nodes"][0]]
    for i in path:
        e = g["edges"][n - 1][i - 1]
        events.append({k: v for k, v in e.items() if k != "dst"})
        n = e["dst"]
        states.append(g["nodes"][n - 1])
    return events, states


def report(ctx, cfgs, graphs, records):
    """verdict records printed by the monitor -> ctx.violation; at most MAX_REPORTED replay files are written
    (shortest histories first), further verdicts are only counted"""
    seen = set()
    for r in sorted(records, key=lambda r: (len(r["path"]), r["g"], r["path"])):
        k = (r["g"], r["clause"], tuple(r["path"]))
        if k in seen:
            continue
        seen.add(k)
        c, g = cfgs[r["g"] - 1], graphs[r["g"] - 1]
        if len(ctx.violations) >= MAX_REPORTED:
            ctx.extra["violations_not_listed"] = ctx.extra.get("violations_not_listed", 0) + 1
            continue
        events, states = _walk(g, r["path"])
        rec = dict(config={k: c[k] for k in ("dim", "side")}, events=events, states=states, want=r["want"])
        last = events[-1]
        ctx.violation(r["clause"], rec,
                      f"dim={c['dim']} after {len(events)} calls: {last['ev']}({last['batch']}) -> "
                      f"{last['res']} {last['out']}, dictionary holds {r['want']}")


def count(ctx, c, g):
    ne = ex.n_edges(g)
    ctx.traces += ne
    n_get = sum(1 for es in g["edges"] for e in es if e["ev"] == "get")
    upd = sum(1 for n, es in enumerate(g["edges"]) for e in es
              if e["ev"] == "add" and any(x in g["nodes"][n]["coords"] for x in e["batch"]))
    if c.get("kind") == "big":
        dup = sum(len(a["batch"]) - len({tuple(x) for x in a["batch"]}) for a in c["adds"])
        ctx.case(key=("big", c["dim"], c["side"], c["L"], tuple(a["additive"] for a in c["adds"]), min(dup, 12), upd > 0),
                 nontrivial=dup > 0, n=ne)
    else:
        ctx.case(key=("cfg", c["dim"], c["side"], c["L"], tuple(c["maxb"]), c.get("sample") or 0),
                 nontrivial=upd > 0 and n_get > 0, n=ne)
    ctx.extra["real_nodes"] = ctx.extra.get("real_nodes", 0) + len(g["nodes"])
    ctx.extra["real_reads"] = ctx.extra.get("real_reads", 0) + n_get
    ctx.extra["real_adds_touching_stored"] = ctx.extra.get("real_adds_touching_stored", 0) + upd


def drifts(ctx, cfgs, graphs, records):
    taken = {tuple(r) for r in records}
    for gi, (c, g) in enumerate(zip(cfgs, graphs), 1):
        # edges out of nodes the specification never reached are not judged (their source was rejected already)
        reached = {1} | {g["edges"][n - 1][i - 1]["dst"] for (k, n, i) in taken if k == gi and n > 0}
        missing = [(n, i, e) for n, es in enumerate(g["edges"], 1) if n in reached
                   for i, e in enumerate(es, 1) if (gi, n, i) not in taken]
        for n, i, e in missing[:3]:
            ctx.drift(f"edge rejected by SparseNd (dim={c['dim']}): from={g['nodes'][n - 1]} call={e} "
                      f"to={g['nodes'][e['dst'] - 1]}")
        for _ in missing[3:]:
            ctx.drift("")


def configs(ctx):
    q = ctx.quick
    cf = [
        # 1-D box of side 3: every batch of <= 3 coordinates, both modes, <= 3 adds
        # (quick: second and third add <= 2 coordinates)
        dict(dim=1, side=3, L=3, maxb=[3, 2, 2] if q else [3, 3, 3], seed=ctx.seed),
        # 2-D box of side 3: 820 batches x 2 modes per add; a fixed pseudo-random choice per state
        dict(dim=2, side=3, L=3, maxb=[3, 3, 3], sample=7 if q else 20, seed=ctx.seed),
    ]
    if not q:
        # 2-D box of side 2, exhaustively, batches <= 2
        cf.append(dict(dim=2, side=2, L=3, maxb=[2, 2, 2], seed=ctx.seed))
    return cf


def run(ctx):
    ctx.rule = ("per box (1-D side 3 exhaustive; 2-D side 3 with a seeded choice of batches per state; thorough: 2-D side "
                "2 exhaustive) the real SparseNdArray is explored breadth-first under add(batch of <= 3 coordinates with "
                "duplicates, values 1,2,4 by position, additive / overwrite) up to 3 adds, with reads (every coordinate "
                "of the box alone, all stored coordinates, reversed with a repeat, stored + absent) at every state; "
                "plus seeded histories of 1-3 adds with batches of 4-12 items drawn from 2-4 coordinates (boxes of side "
                "3-5, 1-D/2-D, both modes) with reads of every inserted and one absent coordinate after each add, as path "
                "graphs under the same monitor; evaluations = recorded real calls; a configuration is non-trivial when "
                "its graph has adds that touch stored coordinates and reads (large-batch history: duplicates in a batch)")
    ctx.assumptions = ["scalar values (value_dim = 1), integer values 1,2,4 by batch position",
                       "states = (_coords in append order, _values, number of adds): reads are recorded as self-loops"]
    cfgs = configs(ctx)
    q = ctx.quick
    with ThreadPoolExecutor(6) as pool:
        # design: the mechanism represents the dictionary (must hold) ...
        fd = [pool.submit(design, ctx, dict(dim=1, side=3, design_adds=2 if q else 3, L=3), 4 if q else 8)]
        if not q:
            fd.append(pool.submit(design, ctx, dict(dim=2, side=3, design_maxb=2, design_getb=1, design_adds=2, L=3), 4))
            fd.append(pool.submit(design, ctx, dict(dim=2, side=2, design_maxb=2, design_getb=1, design_adds=3, L=3), 4))
        # ... vacuity: with the in-place update of the code before fix bc4022bb5 the invariant fails
        fv = pool.submit(design, ctx, dict(dim=1, side=3, design_adds=3, design_getb=1, L=3), 2, False)
        # the real transition systems (GIL-bound: sequential), then one monitor and one conformance run over all
        graphs = [real_graph(c, 12000 if q else 60000) for c in cfgs]
        # seeded histories with large batches (4-12 items, heavy duplication), as path graphs
        big = big_histories(ctx.rng, 300 if q else 3000)
        cfgs = cfgs + big
        graphs = graphs + [path_graph(c) for c in big]
        gfile = ctx.datafile("graphs.json", graphs)
        fm = pool.submit(monitor, ctx, ctx.work / "mon", gfile, 6 if q else 12)
        ft = pool.submit(conformance, ctx, ctx.work / "trace", gfile, 6 if q else 12)
        des, asis, mon, tr = [f.result() for f in fd], fv.result(), fm.result(), ft.result()
    ctx.extra["design_states"] = [d.distinct for d in des]
    if not asis.violated:
        raise RuntimeError("vacuity check failed: SparseNd with PairByMatch=FALSE does not violate Represents")
    ctx.extra["design_vacuity_PairByMatch_FALSE_violates"] = asis.violated
    for c, g in zip(cfgs, graphs):
        count(ctx, c, g)
    report(ctx, cfgs, graphs, mon.records)
    drifts(ctx, cfgs, graphs, tr.records)
    for c, g in zip(cfgs[:2], graphs[:2]):
        t = len(g["nodes"])
        ctx.sample(dict(config={k: c[k] for k in ("dim", "side", "L")}, path=ex.path_to(g, t), reached=g["nodes"][-1],
                        reads=[e for e in g["edges"][t - 1] if e["ev"] == "get"][-3:]))
    ctx.exhaustive = False  # 2-D side 3 is sampled; truncation is reported below
    ctx.extra["truncated_graphs"] = sum(1 for g in graphs if g["truncated"])
    ctx.extra["large_batch_histories"] = len(big)


def replay(ctx, body):
    """Re-execute the recorded call history on a fresh real object and let the monitor judge it again."""
    rec = body["record"]
    c = rec["config"]
    d = Drv(c["dim"])
    nodes, edges = [project(d)], []
    for i, e in enumerate(rec["events"], 1):
        call = {k: v for k, v in e.items() if k not in ("res", "out")}
        res = apply(d, call)
        nodes.append(project(d))
        edges.append([dict(call, **res, dst=i + 1)])
    edges.append([])
    g = dict(nodes=nodes, edges=edges, truncated=False, cut=[False] * len(nodes))
    gfile = ctx.datafile("graph_replay.json", [g])
    mon = monitor(ctx, ctx.work / "replay", gfile, 1)
    ctx.case(key="replay", n=len(edges) - 1)
    ctx.sample(dict(events=[e[0] for e in edges[:-1]]))
    report(ctx, [c], [g], mon.records)
