"""C29 Segment splitting yields a non-crossing covering subdivision.

spec/ref/SegSplit.tla      validity predicate ValidSplit (one operator per property clause), integer geometry
spec/ref/SegSplitEnum.tla  TLC enumerates all sets of NSeg lattice segments of a box that have a contact
spec/trace/J_SegSplit.tla  TLC judges the recorded outputs of pp.intersections.split_intersecting_segments_2d

Python only: builds the (p, e) arrays of a segment set (orientation, order, shared / separate end point
columns and tags chosen by the seeded rng and recorded in the case), calls the real function, converts the
output points to [n, d] rationals and dispatches TLC's verdict records."""
from __future__ import annotations

import itertools

import numpy as np

from .. import codec, tlc

LEVEL = "exploration"
CLAUSES = ["Unfit", "Returns", "Exact", "StructureOK", "NonCrossingOK", "InsideParentOK", "TagsOK", "CoversOK",
           "NoDuplicatesOK"]
MAXDEN = 10 ** 4
CAP = 20
WORKERS = 6
# Point columns: a shared end point is given either as ONE column (what porepy's callers do: they uniquify the
# point set first) or as separate coincident columns, one per segment ("any set of segments" given as (p, e) with
# repeated points is valid input: the function uniquifies points itself).  A moderate share of the cases uses
# separate columns for all or for some end points; for every enumerated PAIR that shares an end point all 8
# orientation / order variants with separate columns are run as well.
DUP_COLUMNS = True


def _contact(a, b, c, d):
    """Exact integer contact class of two lattice segments: none | endpoints | other (matcher use only)."""
    def cr(u, v):
        return u[0] * v[1] - u[1] * v[0]

    def on(q, s, t):
        u, w = (t[0] - s[0], t[1] - s[1]), (q[0] - s[0], q[1] - s[1])
        return cr(u, w) == 0 and 0 <= u[0] * w[0] + u[1] * w[1] <= u[0] * u[0] + u[1] * u[1]

    u, v, w = (b[0] - a[0], b[1] - a[1]), (d[0] - c[0], d[1] - c[1]), (c[0] - a[0], c[1] - a[1])
    den = cr(u, v)
    if den != 0:
        tn, sn = cr(w, v), cr(w, u)
        sg = 1 if den > 0 else -1
        if not (0 <= sg * tn <= sg * den and 0 <= sg * sn <= sg * den):
            return "none"
        return "endpoints" if tn in (0, den) and sn in (0, den) else "other"
    if cr(w, u) != 0:
        return "none"
    common = [q for q in (a, b) if on(q, c, d)] + [q for q in (c, d) if on(q, a, b)]
    if not common:
        return "none"
    return "endpoints" if len({tuple(q) for q in common}) == 1 and all(q in (a, b) and q in (c, d) for q in common) else "other"


def _dup_point_columns(v):
    """split_intersecting_segments_2d returned its input unchanged although end points shared by two segments
    are given as coincident but distinct point columns.  Narrow: clause NonCrossing / NoDuplicates only; output
    = input (same points, same edges, identity map); the input segments touch each other only at common end
    points (no crossing, T-junction or overlap was missed) and no two input segments coincide, so the only
    failing clause instances are coincident-but-distinct point indices at shared end points."""
    if v["clause"] not in ("NonCrossing", "NoDuplicates"):
        return False
    inp, out = v["in"], v["out"]
    pts = [list(q) for q in inp["pts"]]
    if len({tuple(q) for q in pts}) == len(pts) or out["err"] or not out["ok"]:
        return False
    if [[x[0], y[0]] for x, y in out["pts"]] != pts or any(x[1] != 1 or y[1] != 1 for x, y in out["pts"]):
        return False
    if out["edges"] != inp["segs"] or out["map"] != list(range(1, len(inp["segs"]) + 1)):
        return False
    segs = [(pts[s["s"] - 1], pts[s["e"] - 1]) for s in inp["segs"]]
    for i in range(len(segs)):
        for j in range(i):
            if {tuple(segs[i][0]), tuple(segs[i][1])} == {tuple(segs[j][0]), tuple(segs[j][1])}:
                return False
            if _contact(*segs[i], *segs[j]) == "other":
                return False
    return True


MATCHERS = {"dup_point_columns": _dup_point_columns}


def build_input(segs, flips, order, shared, tags):
    """segs: list of ((x,y),(x,y)); returns in-record {pts, segs} with 1-based indices."""
    pts, out = [], []
    share = iter(shared if isinstance(shared, list) else [bool(shared)] * (2 * len(order)))
    for k in order:
        a, b = segs[k]
        if flips[k]:
            a, b = b, a
        idx = []
        for q in (a, b):
            q = [int(q[0]), int(q[1])]
            if next(share) and q in pts:
                idx.append(pts.index(q) + 1)
            else:
                pts.append(q)
                idx.append(len(pts))
        out.append(dict(s=idx[0], e=idx[1], tags=[int(t) for t in tags[k]]))
    return dict(pts=pts, segs=out)


def call(inp):
    import porepy as pp

    p = np.array(inp["pts"], dtype=float).T
    e = np.array([[s["s"] - 1 for s in inp["segs"]], [s["e"] - 1 for s in inp["segs"]]]
                 + [[s["tags"][r] for s in inp["segs"]] for r in range(len(inp["segs"][0]["tags"]))], dtype=int)
    empty = dict(ok=False, pts=[], edges=[], map=[])
    try:
        new_p, new_e, _, argsort = pp.intersections.split_intersecting_segments_2d(p, e, return_argsort=True)
    except Exception as ex:  # lattice segment sets are inside the documented domain
        return dict(empty, err=type(ex).__name__, raw=repr(ex)[:200])
    new_p, new_e, argsort = np.asarray(new_p, dtype=float), np.asarray(new_e), np.asarray(argsort)
    if new_p.ndim != 2 or new_p.shape[0] != 2 or new_e.ndim != 2 or new_e.shape[0] != e.shape[0]:
        raise RuntimeError(f"unexpected output shapes {new_p.shape} {new_e.shape}")
    try:
        pts = [codec.rvec(new_p[:, k], MAXDEN) for k in range(new_p.shape[1])]
    except codec.Inexact:
        return dict(empty, err="", raw=new_p.tolist())
    edges = [dict(s=int(new_e[0, k]) + 1, e=int(new_e[1, k]) + 1, tags=[int(t) for t in new_e[2:, k]])
             for k in range(new_e.shape[1])]
    return dict(err="", ok=True, pts=pts, edges=edges, map=[int(i) + 1 for i in argsort])


def make_case(segs, variant):
    inp = build_input(segs, **variant)
    return {"in": inp, "out": call(inp), "segs": [[list(a), list(b)] for a, b in segs], "variant": variant}


def _variant(rng, n):
    order = list(range(n))
    rng.shuffle(order)
    base = rng.choice((10, 1, 5))
    r = rng.random()
    shared = True if (r < 0.6 or not DUP_COLUMNS) else (False if r < 0.85 else [rng.random() < 0.5 for _ in range(2 * n)])
    return dict(flips=[rng.random() < 0.5 for _ in range(n)], order=order, shared=shared,
                tags=[[base + k, (3 * k + 1) % 4] for k in range(n)])


def _for_tlc(c):
    o = c["out"]
    return {"in": c["in"], "out": dict(err=o["err"], ok=o["ok"], pts=o["pts"], edges=o["edges"], map=o["map"])}


def _report(ctx, per, clause, record, detail):
    """ctx.violation, but at most CAP replay files per clause (known findings are always routed through so
    that their hits are counted)."""
    known = False
    for k in ctx.known:
        fn = ctx.matchers.get(k.get("matcher"))
        try:
            known = known or (k.get("status", "known") == "known" and fn is not None and bool(fn({"clause": clause, **record})))
        except Exception:
            pass
    if not known:
        per[clause] = per.get(clause, 0) + 1
        if per[clause] > CAP:
            ctx.extra["violations_not_written"] = ctx.extra.get("violations_not_written", 0) + 1
            return
    ctx.violation(clause, record, detail)


def _judge(ctx, cases, tag):
    recs = ctx.judge("J_SegSplit", [_for_tlc(c) for c in cases], CLAUSES, tag=tag, workers=WORKERS, timeout=1500)
    per, unfit = {}, set()
    for v in recs:
        if v.get("tag") == "unfit":
            unfit.add(v["case"])
    ctx.inconclusive += len(unfit)
    for v in recs:
        if "clause" not in v:
            continue
        case = cases[v["case"] - 1]
        o = case["out"]
        _report(ctx, per, v["clause"], case,
                      (f"segments {case['segs']} (p={case['in']['pts']}, e={[(s['s'] - 1, s['e'] - 1) for s in case['in']['segs']]}) -> "
                       f"err={o['err']!r} points={[[a[0] / a[1], b[0] / b[1]] for a, b in o['pts']]} "
                       f"edges={[(e['s'] - 1, e['e'] - 1) for e in o['edges']]} map={[m - 1 for m in o['map']]}")[:500])
    return unfit


def _enumerate(ctx, plans):
    m, cf = tlc.gen(ctx.work / "enum", "MC_SegSplitEnum", "SegSplitEnum", dict(Plans=set(plans)),
                    invariants=["Emit", "LawIdentity"])
    return ctx.tlc(m, cf, workers=WORKERS, allow_violation=False)


def _seeded(rng, box, nseg, n):
    """Random sets of nseg distinct lattice segments; later segments are often attached to points of earlier
    ones so that T-junctions, shared end points and overlaps are frequent.  Input generation only."""
    pts = list(itertools.product(range(box + 1), repeat=2))
    out = []
    while len(out) < n:
        segs = []
        while len(segs) < nseg:
            a, b = rng.choice(pts), rng.choice(pts)
            if segs and rng.random() < 0.5:
                s = rng.choice(segs)
                on = [q for q in pts if (q[0] - s[0][0]) * (s[1][1] - s[0][1]) == (q[1] - s[0][1]) * (s[1][0] - s[0][0])]
                a = rng.choice(on)
                if rng.random() < 0.3:
                    b = rng.choice(on)
            if a == b:
                continue
            seg = (min(a, b), max(a, b))
            if seg not in segs:
                segs.append(seg)
        out.append(sorted(segs))
    return out


def run(ctx):
    ctx.rule = ("one case = one call of split_intersecting_segments_2d on a set of distinct non-degenerate lattice segments; "
                "TLC enumerates every set with a contact: pairs in {0..3}^2 and triples in {0..2}^2 (quick), also all "
                "triples in {0..3}^2 with a contact (thorough); seeded sets of 3-4 segments in {0..4}^2 are added; "
                "orientation, order and tags are drawn by the seeded rng; 60% of the cases give a shared end point as one "
                "point column, 25% give every end point its own column, 15% mix; every enumerated pair with a common end "
                "point (quick: every 8th) is also run with separate columns in all 8 orientations/orders; classes = "
                "(number of segments, kinds of contact present)")
    ctx.assumptions = ["integer end points; distinct, non-degenerate segments (a set)",
                       "cases whose output needs a common denominator beyond the 32-bit-safe range are counted inconclusive"]
    plans = [(3, 2, True), (2, 3, True)] if ctx.quick else [(3, 2, False), (2, 3, False), (3, 3, True)]
    cases = []
    res = _enumerate(ctx, plans)
    n_end = 0
    for nseg, box, only in plans:
        recs = sorted((r for r in res.records if (r["nseg"], r["box"]) == (nseg, box)), key=lambda r: r["segs"])
        if not recs:
            raise RuntimeError("enumerator emitted nothing")
        ctx.extra[f"sets_n{nseg}_box{box}"] = len(recs)
        for r in recs:
            segs = [(tuple(s[0]), tuple(s[1])) for s in r["segs"]]
            cases.append(make_case(segs, _variant(ctx.rng, nseg)))
            ctx.case(key=(nseg, tuple(sorted(r["kinds"]))), nontrivial=bool(r["kinds"]))
            n_end += nseg == 2 and "endpoints" in r["kinds"]
            if DUP_COLUMNS and nseg == 2 and "endpoints" in r["kinds"] and (not ctx.quick or n_end % 8 == 0):
                # the shared end point as two coincident columns, in every orientation and order
                for f0, f1, order in itertools.product((False, True), (False, True), ([0, 1], [1, 0])):
                    cases.append(make_case(segs, dict(flips=[f0, f1], order=order, shared=False, tags=[[10, 1], [11, 0]])))
                    ctx.case(key=(nseg, "endpoints", "separate columns"))
                    ctx.extra["pairs_dup_all_orientations"] = ctx.extra.get("pairs_dup_all_orientations", 0) + 1
    nseed = 0
    for nseg, n in ((3, 400), (4, 600)) if ctx.quick else ((3, 6000), (4, 12000)):
        for segs in _seeded(ctx.rng, 4, nseg, n):
            cases.append(make_case(segs, _variant(ctx.rng, nseg)))
            ctx.case(key=None)
            nseed += 1
    ctx.extra["sets_seeded"] = nseed
    unfit_total = 0
    for k in range(0, len(cases), 40000):
        unfit_total += len(_judge(ctx, cases[k:k + 40000], f"judge{k}"))
    ctx.extra["unfit"] = unfit_total
    shown = 0
    for c in cases:
        if len(c["out"]["edges"]) > len(c["in"]["segs"]) + 1 and shown < 3:
            ctx.sample({"in": c["in"], "out": c["out"]})
            shown += 1
    ctx.exhaustive = True  # every emitted set was executed (one input representation each)
    ctx.explanation = ctx.rule + ". TLC (J_SegSplit) evaluates Structure, NonCrossing, InsideParent, Tags, Covers, NoDuplicates " \
        "on exact integer coordinates (output rationals scaled by their common denominator)."


def replay(ctx, body):
    rec = body["record"]
    segs = [(tuple(a), tuple(b)) for a, b in rec["segs"]]
    case = make_case(segs, rec["variant"])
    if case["in"] != rec["in"]:
        raise RuntimeError("replay could not rebuild the recorded input")
    ctx.case(key="replay")
    ctx.sample(case)
    _judge(ctx, [case], "replay")
