"""C29 Segment splitting yields a non-crossing covering subdivision.

spec/ref/SegSplit.tla      validity predicate ValidSplit (one operator per property clause), integer geometry
spec/ref/SegSplitEnum.tla  TLC enumerates all sets of NSeg lattice segments of a box that have a contact
spec/trace/J_SegSplit.tla  TLC judges the recorded outputs of pp.intersections.split_intersecting_segments_2d

Python only: builds the (p, e) arrays of a segment set (orientation, order, shared / separate end point
columns and tags chosen by the seeded rng and recorded in the case), calls the real function, converts the
output points to [n, d] rationals and dispatches TLC's verdict records."""
from __future__ import annotations

import itertools

import numpy as np

from .. import codec, tlc

LEVEL = "exploration"
CLAUSES = ["Unfit", "Returns", "Exact", "StructureOK", "NonCrossingOK", "InsideParentOK", "TagsOK", "CoversOK",
           "NoDuplicatesOK"]
MAXDEN = 10 ** 4
CAP = 20
WORKERS = 6
# End points shared by two segments are given as ONE point column (what every caller in porepy does: the
# point set is uniquified before the call).  With DUP_COLUMNS = True a shared end point may also be given as
# two coincident columns; porepy then leaves the two columns unmerged for some orientations (reported to the
# main session as an observation outside the stated family; the matcher recognises exactly those cases).
DUP_COLUMNS = False


def _dup_point_columns(v):
    pts = [tuple(q) for q in v["in"]["pts"]]
    return len(set(pts)) < len(pts) and v["clause"] in ("NonCrossing", "NoDuplicates")


MATCHERS = {"dup_point_columns": _dup_point_columns}


def build_input(segs, flips, order, shared, tags):
    """segs: list of ((x,y),(x,y)); returns in-record {pts, segs} with 1-based indices."""
    pts, out = [], []
    for k in order:
        a, b = segs[k]
        if flips[k]:
            a, b = b, a
        idx = []
        for q in (a, b):
            q = [int(q[0]), int(q[1])]
            if shared and q in pts:
                idx.append(pts.index(q) + 1)
            else:
                pts.append(q)
                idx.append(len(pts))
        out.append(dict(s=idx[0], e=idx[1], tags=[int(t) for t in tags[k]]))
    return dict(pts=pts, segs=out)


def call(inp):
    import porepy as pp

    p = np.array(inp["pts"], dtype=float).T
    e = np.array([[s["s"] - 1 for s in inp["segs"]], [s["e"] - 1 for s in inp["segs"]]]
                 + [[s["tags"][r] for s in inp["segs"]] for r in range(len(inp["segs"][0]["tags"]))], dtype=int)
    empty = dict(ok=False, pts=[], edges=[], map=[])
    try:
        new_p, new_e, _, argsort = pp.intersections.split_intersecting_segments_2d(p, e, return_argsort=True)
    except Exception as ex:  # lattice segment sets are inside the documented domain
        return dict(empty, err=type(ex).__name__, raw=repr(ex)[:200])
    new_p, new_e, argsort = np.asarray(new_p, dtype=float), np.asarray(new_e), np.asarray(argsort)
    if new_p.ndim != 2 or new_p.shape[0] != 2 or new_e.ndim != 2 or new_e.shape[0] != e.shape[0]:
        raise RuntimeError(f"unexpected output shapes {new_p.shape} {new_e.shape}")
    try:
        pts = [codec.rvec(new_p[:, k], MAXDEN) for k in range(new_p.shape[1])]
    except codec.Inexact:
        return dict(empty, err="", raw=new_p.tolist())
    edges = [dict(s=int(new_e[0, k]) + 1, e=int(new_e[1, k]) + 1, tags=[int(t) for t in new_e[2:, k]])
             for k in range(new_e.shape[1])]
    return dict(err="", ok=True, pts=pts, edges=edges, map=[int(i) + 1 for i in argsort])


def make_case(segs, variant):
    inp = build_input(segs, **variant)
    return {"in": inp, "out": call(inp), "segs": [[list(a), list(b)] for a, b in segs], "variant": variant}


def _variant(rng, n):
    order = list(range(n))
    rng.shuffle(order)
    base = rng.choice((10, 1, 5))
    return dict(flips=[rng.random() < 0.5 for _ in range(n)], order=order, shared=(not DUP_COLUMNS) or rng.random() < 0.6,
                tags=[[base + k, (3 * k + 1) % 4] for k in range(n)])


def _for_tlc(c):
    o = c["out"]
    return {"in": c["in"], "out": dict(err=o["err"], ok=o["ok"], pts=o["pts"], edges=o["edges"], map=o["map"])}


def _report(ctx, per, clause, record, detail):
    """ctx.violation, but at most CAP replay files per clause (known findings are always routed through so
    that their hits are counted)."""
    known = False
    for k in ctx.known:
        fn = ctx.matchers.get(k.get("matcher"))
        try:
            known = known or (k.get("status", "known") == "known" and fn is not None and bool(fn({"clause": clause, **record})))
        except Exception:
            pass
    if not known:
        per[clause] = per.get(clause, 0) + 1
        if per[clause] > CAP:
            ctx.extra["violations_not_written"] = ctx.extra.get("violations_not_written", 0) + 1
            return
    ctx.violation(clause, record, detail)


def _judge(ctx, cases, tag):
    recs = ctx.judge("J_SegSplit", [_for_tlc(c) for c in cases], CLAUSES, tag=tag, workers=WORKERS, timeout=1500)
    per, unfit = {}, set()
    for v in recs:
        if v.get("tag") == "unfit":
            unfit.add(v["case"])
    ctx.inconclusive += len(unfit)
    for v in recs:
        if "clause" not in v:
            continue
        case = cases[v["case"] - 1]
        o = case["out"]
        _report(ctx, per, v["clause"], case,
                      (f"segments {case['segs']} (p={case['in']['pts']}, e={[(s['s'] - 1, s['e'] - 1) for s in case['in']['segs']]}) -> "
                       f"err={o['err']!r} points={[[a[0] / a[1], b[0] / b[1]] for a, b in o['pts']]} "
                       f"edges={[(e['s'] - 1, e['e'] - 1) for e in o['edges']]} map={[m - 1 for m in o['map']]}")[:500])
    return unfit


def _enumerate(ctx, plans):
    m, cf = tlc.gen(ctx.work / "enum", "MC_SegSplitEnum", "SegSplitEnum", dict(Plans=set(plans)),
                    invariants=["Emit", "LawIdentity"])
    return ctx.tlc(m, cf, workers=WORKERS, allow_violation=False)


def _seeded(rng, box, nseg, n):
    """Random sets of nseg distinct lattice segments; later segments are often attached to points of earlier
    ones so that T-junctions, shared end points and overlaps are frequent.  Input generation only."""
    pts = list(itertools.product(range(box + 1), repeat=2))
    out = []
    while len(out) < n:
        segs = []
        while len(segs) < nseg:
            a, b = rng.choice(pts), rng.choice(pts)
            if segs and rng.random() < 0.5:
                s = rng.choice(segs)
                on = [q for q in pts if (q[0] - s[0][0]) * (s[1][1] - s[0][1]) == (q[1] - s[0][1]) * (s[1][0] - s[0][0])]
                a = rng.choice(on)
                if rng.random() < 0.3:
                    b = rng.choice(on)
            if a == b:
                continue
            seg = (min(a, b), max(a, b))
            if seg not in segs:
                segs.append(seg)
        out.append(sorted(segs))
    return out


def run(ctx):
    ctx.rule = ("one case = one call of split_intersecting_segments_2d on a set of distinct non-degenerate lattice segments; "
                "TLC enumerates every set with a contact: pairs in {0..3}^2 and triples in {0..2}^2 (quick), also all "
                "triples in {0..3}^2 with a contact (thorough); seeded sets of 3-4 segments in {0..4}^2 are added; "
                "orientation, order, shared/separate end-point columns and tags are drawn by the seeded rng; classes = "
                "(number of segments, kinds of contact present)")
    ctx.assumptions = ["integer end points; distinct, non-degenerate segments (a set)",
                       "cases whose output needs a common denominator beyond the 32-bit-safe range are counted inconclusive"]
    plans = [(3, 2, True), (2, 3, True)] if ctx.quick else [(3, 2, False), (2, 3, False), (3, 3, True)]
    cases = []
    res = _enumerate(ctx, plans)
    for nseg, box, only in plans:
        recs = sorted((r for r in res.records if (r["nseg"], r["box"]) == (nseg, box)), key=lambda r: r["segs"])
        if not recs:
            raise RuntimeError("enumerator emitted nothing")
        ctx.extra[f"sets_n{nseg}_box{box}"] = len(recs)
        for r in recs:
            segs = [(tuple(s[0]), tuple(s[1])) for s in r["segs"]]
            cases.append(make_case(segs, _variant(ctx.rng, nseg)))
            ctx.case(key=(nseg, tuple(sorted(r["kinds"]))), nontrivial=bool(r["kinds"]))
    nseed = 0
    for nseg, n in ((3, 400), (4, 600)) if ctx.quick else ((3, 6000), (4, 12000)):
        for segs in _seeded(ctx.rng, 4, nseg, n):
            cases.append(make_case(segs, _variant(ctx.rng, nseg)))
            ctx.case(key=None)
            nseed += 1
    ctx.extra["sets_seeded"] = nseed
    unfit_total = 0
    for k in range(0, len(cases), 40000):
        unfit_total += len(_judge(ctx, cases[k:k + 40000], f"judge{k}"))
    ctx.extra["unfit"] = unfit_total
    shown = 0
    for c in cases:
        if len(c["out"]["edges"]) > len(c["in"]["segs"]) + 1 and shown < 3:
            ctx.sample({"in": c["in"], "out": c["out"]})
            shown += 1
    ctx.exhaustive = True  # every emitted set was executed (one input representation each)
    ctx.explanation = ctx.rule + ". TLC (J_SegSplit) evaluates Structure, NonCrossing, InsideParent, Tags, Covers, NoDuplicates " \
        "on exact integer coordinates (output rationals scaled by their common denominator)."


def replay(ctx, body):
    rec = body["record"]
    segs = [(tuple(a), tuple(b)) for a, b in rec["segs"]]
    case = make_case(segs, rec["variant"])
    if case["in"] != rec["in"]:
        raise RuntimeError("replay could not rebuild the recorded input")
    ctx.case(key="replay")
    ctx.sample(case)
    _judge(ctx, [case], "replay")
