"""C35 Sparse-matrix utilities match dense reference semantics.

spec/ref/SparseOps.tla      reference semantics (dense integer matrices, index sequences)
spec/ref/SparseOpsEnum.tla  bounded input lattice (TLC enumerates, invariant Emit) + model laws
spec/trace/J_SparseOps.tla  one clause per utility, judged by TLC on what the real code returned

Flow: TLC enumerates every input of the lattice -> this driver calls the real porepy function on each and
records the RAW storage arrays it returned / left in place -> TLC judges every case (ctx.judge).  Seeded
random larger inputs (ctx.rng) are judged the same way.  Python never compares results."""
from __future__ import annotations

import json

import numpy as np
import scipy.sparse as sps

from .. import tlc

LEVEL = "model_checking"

OPS = ["zero_rows", "zero_columns", "slice_sparse_matrix", "slice_indices", "merge_matrices", "stack_mat",
       "stack_diag", "kron", "optimized_storage", "copy", "row_col_data", "from_sparse_blocks",
       "from_dense_blocks", "dia_from_blocks", "block_diag_matrix", "rlencode", "rl_roundtrip", "rldecode",
       "expand_index_pointers", "expand_indices_nd", "expand_indices_add_increment", "block_diag_index"]
CLAUSES = ["ZeroLines", "Merge", "StackMat", "StackDiag", "SliceMatrix", "SliceIndices", "FromSparseBlocks",
           "FromDenseBlocks", "DiaFromBlocks", "BlockDiagMatrix", "Kronecker", "OptimizedStorage", "Copy",
           "RowColData", "RlEncode", "RlDecode", "RlRoundTrip", "ExpandPointers", "ExpandNd", "ExpandIncrement",
           "BlockDiagIndex", "ArgsIntact"]
LAWS = ["Laws"]


class _NonInt(Exception):
    pass


# ---------------------------------------------------------------------------------- codecs
def _ints(a):
    a = np.asarray(a)
    if a.dtype == bool:
        return [int(x) for x in a.ravel()]
    r = np.round(a)
    if not np.array_equal(r, a):
        raise _NonInt()
    return [int(x) for x in r.ravel()]


def _mat(rec):
    """JSON record -> scipy matrix with exactly this storage (no sorting, no pruning)."""
    fmt, shape = rec["fmt"], tuple(rec["shape"])
    if fmt in ("csr", "csc"):
        cls = sps.csr_matrix if fmt == "csr" else sps.csc_matrix
        return cls((np.array(rec["data"], dtype=float), np.array(rec["indices"], dtype=np.int32),
                    np.array(rec["indptr"], dtype=np.int32)), shape=shape)
    if fmt == "coo":
        return sps.coo_matrix((np.array(rec["data"], dtype=float),
                               (np.array(rec["row"], dtype=np.int32), np.array(rec["col"], dtype=np.int32))),
                              shape=shape)
    if fmt == "dia":
        return sps.dia_matrix((np.array(rec["data"], dtype=float).reshape(len(rec["offsets"]), -1),
                               np.array(rec["offsets"], dtype=int)), shape=shape)
    raise ValueError(fmt)


def _enc(M):
    """scipy matrix -> JSON record of its raw storage arrays."""
    fmt = M.getformat()
    shape = [int(M.shape[0]), int(M.shape[1])]
    if fmt in ("csr", "csc"):
        return dict(fmt=fmt, shape=shape, indptr=_ints(M.indptr), indices=_ints(M.indices), data=_ints(M.data))
    if fmt == "dia":
        return dict(fmt="dia", shape=shape, offsets=_ints(M.offsets), data=[_ints(r) for r in np.atleast_2d(M.data)])
    Mc = M.tocoo()
    return dict(fmt="coo" if fmt == "coo" else "coo_from_" + fmt, shape=shape, row=_ints(Mc.row),
                col=_ints(Mc.col), data=_ints(Mc.data))


def _index(ix):
    k, v = ix["kind"], ix["v"]
    if k == "array":
        return np.array(v, dtype=int)
    if k == "mask":
        return np.array(v, dtype=bool)
    if k == "int":
        return int(v[0])
    if k == "npint":
        return np.int64(v[0])
    raise ValueError(k)


def _iarr(v):
    return np.array(v, dtype=int)


# ---------------------------------------------------------------------------------- the real code
def execute(op, inp):
    """Call the real utility on one input; return the `out` record of the case."""
    import porepy as pp  # noqa: F401
    from porepy.numerics.linalg import matrix_operations as mo
    from porepy.utils import array_operations as ao

    try:
        out = dict(kind="ok", intact=[])

        def intact(before, after):
            out["intact"].append(dict(before=before, after=_enc(after)))

        if op in ("zero_rows", "zero_columns"):
            A = _mat(inp["A"])
            (mo.zero_rows if op == "zero_rows" else mo.zero_columns)(A, _iarr(inp["lines"]))
            out["A"] = _enc(A)
        elif op == "merge_matrices":
            A, B = _mat(inp["A"]), _mat(inp["B"])
            mo.merge_matrices(A, B, _iarr(inp["lines"]), inp["A"]["fmt"])
            out["A"] = _enc(A)
            intact(inp["B"], B)
        elif op == "stack_mat":
            A, B = _mat(inp["A"]), _mat(inp["B"])
            mo.stack_mat(A, B)
            out["A"] = _enc(A)
            intact(inp["B"], B)
        elif op == "stack_diag":
            A, B = _mat(inp["A"]), _mat(inp["B"])
            out["M"] = _enc(mo.stack_diag(A, B))
            intact(inp["A"], A)
            intact(inp["B"], B)
        elif op == "slice_sparse_matrix":
            A = _mat(inp["A"])
            out["M"] = _enc(mo.slice_sparse_matrix(A, _index(inp["ix"])))
            intact(inp["A"], A)
        elif op == "slice_indices":
            A = _mat(inp["A"])
            r = mo.slice_indices(A, _index(inp["ix"]), inp["rai"])
            if inp["rai"]:
                ind, arr = r
                if isinstance(arr, slice):
                    arr = np.arange(*arr.indices(A.indices.size))
                out["indices"], out["array_ind"] = _ints(ind), _ints(arr)
            else:
                out["indices"], out["array_ind"] = _ints(r), []
            intact(inp["A"], A)
        elif op == "from_sparse_blocks":
            blocks = [_mat(b) for b in inp["blocks"]]
            f = mo.csr_matrix_from_sparse_blocks if inp["fmt"] == "csr" else mo.csc_matrix_from_sparse_blocks
            out["M"] = _enc(f(blocks))
            for b0, b1 in zip(inp["blocks"], blocks):
                intact(b0, b1)
        elif op == "from_dense_blocks":
            f = mo.csr_matrix_from_dense_blocks if inp["fmt"] == "csr" else mo.csc_matrix_from_dense_blocks
            out["M"] = _enc(f(np.array(inp["data"], dtype=float), inp["bs"], inp["nb"]))
        elif op == "dia_from_blocks":
            blocks = [sps.dia_matrix((np.array([d], dtype=float), 0), shape=(len(d), len(d))) for d in inp["blocks"]]
            out["M"] = _enc(mo.sparse_dia_from_sparse_blocks(blocks))
        elif op == "block_diag_matrix":
            out["M"] = _enc(mo.block_diag_matrix(np.array(inp["vals"], dtype=float), _iarr(inp["sz"])))
        elif op == "kron":
            A = _mat(inp["A"])
            out["M"] = _enc(mo.sparse_kronecker_product(A, inp["nd"]))
            intact(inp["A"], A)
        elif op == "optimized_storage":
            A = _mat(inp["A"])
            out["M"] = _enc(mo.optimized_compressed_storage(A))
            intact(inp["A"], A)
        elif op == "copy":
            A = _mat(inp["A"])
            out["M"] = _enc(mo.copy(A))
            intact(inp["A"], A)
        elif op == "row_col_data":
            A = _mat(inp["A"])
            r, c, d = mo.sparse_array_to_row_col_data(A, inp["remove_nz"])
            out["row"], out["col"], out["data"] = _ints(r), _ints(c), _ints(d)
            intact(inp["A"], A)
        elif op == "rlencode":
            comp, num = mo.rlencode(np.array(inp["A"], dtype=int))
            out["comp"], out["num"] = [_ints(r) for r in comp], _ints(num)
        elif op == "rldecode":
            out["v"] = _ints(mo.rldecode(_iarr(inp["A"]), _iarr(inp["n"])))
        elif op == "rl_roundtrip":
            comp, num = mo.rlencode(np.array(inp["A"], dtype=int))
            out["rows"] = [_ints(mo.rldecode(comp[r], num)) for r in range(comp.shape[0])]
        elif op == "expand_index_pointers":
            out["v"] = _ints(ao.expand_index_pointers(_iarr(inp["lo"]), _iarr(inp["hi"])))
        elif op == "expand_indices_nd":
            out["v"] = _ints(ao.expand_indices_nd(_iarr(inp["ind"]), inp["nd"], inp["order"]))
        elif op == "expand_indices_add_increment":
            out["v"] = _ints(ao.expand_indices_add_increment(_iarr(inp["x"]), inp["n"], inp["inc"]))
        elif op == "block_diag_index":
            if inp["hasn"]:
                i, j = mo.block_diag_index(_iarr(inp["m"]), _iarr(inp["n"]))
                out["i"], out["j"] = _ints(i), _ints(j)
            else:
                out["i"], out["j"] = _ints(mo.block_diag_index(_iarr(inp["m"]))), []
        else:
            raise KeyError(op)
        return out
    except _NonInt:
        return dict(kind="nonint")
    except KeyError:
        raise
    except Exception as e:  # an exception on an in-family input is an observation, judged by TLC
        return dict(kind="raise", exc=type(e).__name__, msg=str(e)[:120])


# ---------------------------------------------------------------------------------- random larger inputs
def _rand_cs(rng, fmt, L, X, dens=0.5, lo=-9, hi=9, zeros=True):
    """Random compressed matrix: per line a random subset of cross indices in random order."""
    indptr, indices, data = [0], [], []
    for _ in range(L):
        cols = [c for c in range(X) if rng.random() < dens]
        rng.shuffle(cols)
        indices += cols
        for _ in cols:
            v = rng.randint(lo, hi)
            if v == 0 and not zeros:
                v = 1
            data.append(v)
        indptr.append(len(indices))
    return dict(fmt=fmt, shape=[L, X] if fmt == "csr" else [X, L], indptr=indptr, indices=indices, data=data)


def _to_coo(M):
    ln = []
    for line in range(len(M["indptr"]) - 1):
        ln += [line] * (M["indptr"][line + 1] - M["indptr"][line])
    r, c = (ln, M["indices"]) if M["fmt"] == "csr" else (M["indices"], ln)
    return dict(fmt="coo", shape=M["shape"], row=list(r), col=list(c), data=list(M["data"]))


def _to_dia(rng, n):
    return dict(fmt="dia", shape=[n, n], offsets=[0], data=[[rng.randint(-9, 9) for _ in range(n)]])


def _rand_any(rng, maxd):
    fmt = rng.choice(["csr", "csc", "coo"])
    M = _rand_cs(rng, "csr" if fmt == "coo" else fmt, rng.randint(1, maxd), rng.randint(1, maxd), rng.random())
    return _to_coo(M) if fmt == "coo" else M


def _rand_index(rng, L, np_ok):
    k = rng.choice(["array", "array", "array", "mask", "int"] + (["npint"] if np_ok else []))
    if k == "array":
        return dict(kind=k, v=[rng.randrange(L) for _ in range(rng.randint(0, L + 2))])
    if k == "mask":
        return dict(kind=k, v=[rng.randint(0, 1) for _ in range(L)])
    return dict(kind=k, v=[rng.randrange(L)])


def random_input(rng, op, maxd):
    fmt = rng.choice(["csr", "csc"])
    L, X = rng.randint(1, maxd), rng.randint(1, maxd)
    if op in ("zero_rows", "zero_columns"):
        fmt = "csr" if op == "zero_rows" else "csc"
        return dict(A=_rand_cs(rng, fmt, L, X, rng.random()), lines=[rng.randrange(L) for _ in range(rng.randint(0, L + 1))])
    if op == "slice_sparse_matrix":
        return dict(A=_rand_cs(rng, fmt, L, X, rng.random()), ix=_rand_index(rng, L, False))
    if op == "slice_indices":
        return dict(A=_rand_cs(rng, fmt, L, X, rng.random()), ix=_rand_index(rng, L, True), rai=rng.random() < 0.5)
    if op == "merge_matrices":
        lines = rng.sample(range(L), rng.randint(1, L))
        return dict(A=_rand_cs(rng, fmt, L, X, rng.random()), B=_rand_cs(rng, fmt, len(lines), X, rng.random()), lines=lines)
    if op == "stack_mat":
        return dict(A=_rand_cs(rng, fmt, L, X, rng.random()), B=_rand_cs(rng, fmt, rng.randint(1, maxd), X, rng.random()))
    if op == "stack_diag":
        return dict(A=_rand_cs(rng, fmt, L, X, rng.random()),
                    B=_rand_cs(rng, fmt, rng.randint(1, maxd), rng.randint(1, maxd), rng.random()))
    if op == "kron":
        return dict(A=_rand_any(rng, min(maxd, 5)), nd=rng.randint(1, 3))
    if op in ("optimized_storage", "copy"):
        return dict(A=_rand_any(rng, maxd))
    if op == "row_col_data":
        return dict(A=_rand_any(rng, maxd), remove_nz=rng.random() < 0.5)
    if op == "from_sparse_blocks":
        nb = rng.randint(1, 5)
        blocks = []
        for _ in range(nb):
            blocks.append(_to_dia(rng, rng.randint(1, 3)) if rng.random() < 0.15 else _rand_any(rng, 3))
        return dict(fmt=fmt, blocks=blocks)
    if op == "from_dense_blocks":
        bs, nb = rng.randint(1, 4), rng.randint(1, 4)
        return dict(fmt=fmt, data=[rng.randint(-9, 9) for _ in range(bs * bs * nb)], bs=bs, nb=nb)
    if op == "dia_from_blocks":
        return dict(blocks=[[rng.randint(-9, 9) for _ in range(rng.randint(1, 4))] for _ in range(rng.randint(1, 5))])
    if op == "block_diag_matrix":
        sz = [rng.randint(1, 4) for _ in range(rng.randint(1, 4))]
        return dict(vals=[rng.randint(-9, 9) for _ in range(sum(s * s for s in sz))], sz=sz)
    if op in ("rlencode", "rl_roundtrip"):
        r, c = rng.randint(1, 3), rng.randint(1, 8)
        return dict(A=[[rng.randint(0, 1) for _ in range(c)] for _ in range(r)])
    if op == "rldecode":
        k = rng.randint(0, 7)
        return dict(A=[rng.randint(-9, 9) for _ in range(k)], n=[rng.choice([0, 0, 1, 2, 3]) for _ in range(k)])
    if op == "expand_index_pointers":
        k = rng.randint(1, 6)
        mode = rng.choice([0, 0, 1, 2])
        lo = [rng.randint(0, 6) for _ in range(1 if mode == 1 else k)]
        hi = [rng.randint(0, 9) for _ in range(1 if mode == 2 else k)]
        return dict(lo=lo, hi=hi)
    if op == "expand_indices_nd":
        return dict(ind=[rng.randint(0, 9) for _ in range(rng.randint(0, 6))], nd=rng.randint(1, 4), order=rng.choice(["F", "C"]))
    if op == "expand_indices_add_increment":
        return dict(x=[rng.randint(0, 9) for _ in range(rng.randint(0, 6))], n=rng.randint(1, 4), inc=rng.randint(-3, 50))
    if op == "block_diag_index":
        k = rng.randint(1, 5)
        hasn = rng.random() < 0.6
        m = [rng.randint(1, 4) for _ in range(k)]
        return dict(m=m, hasn=hasn, n=[rng.randint(1, 4) for _ in range(k)] if hasn else m)
    raise KeyError(op)


# zero-dimension blocks: outside the verdict family, judged for information only
def _zero_dim_inputs():
    E = lambda fmt, L, X: dict(fmt=fmt, shape=[L, X] if fmt == "csr" else [X, L], indptr=[0] * (L + 1), indices=[], data=[])
    A = dict(fmt="csr", shape=[2, 2], indptr=[0, 1, 2], indices=[1, 0], data=[1, 2])
    Ac = dict(A, fmt="csc")
    return [("stack_diag", dict(A=A, B=E("csr", 0, 2))), ("stack_diag", dict(A=Ac, B=E("csc", 0, 2))),
            ("stack_diag", dict(A=A, B=E("csr", 2, 0))), ("stack_mat", dict(A=A, B=E("csr", 0, 2))),
            ("stack_mat", dict(A=Ac, B=E("csc", 0, 2))), ("merge_matrices", dict(A=A, B=E("csr", 0, 2), lines=[])),
            ("from_sparse_blocks", dict(fmt="csr", blocks=[A, E("csr", 0, 2), A])),
            ("from_sparse_blocks", dict(fmt="csc", blocks=[Ac, E("csr", 2, 0)])),
            ("slice_sparse_matrix", dict(A=E("csr", 2, 0), ix=dict(kind="array", v=[1, 0]))),
            ("kron", dict(A=E("csr", 0, 2), nd=2))]


# ---------------------------------------------------------------------------------- bookkeeping
def _key(op, inp):
    """Case class for the evidence counters."""
    A = inp.get("A")
    parts = [op]
    if isinstance(A, dict):
        parts += [A["fmt"], tuple(A["shape"])]
    if "ix" in inp:
        parts.append(inp["ix"]["kind"])
    if "lines" in inp:
        parts.append(("sorted" if inp["lines"] == sorted(inp["lines"]) else "unsorted", len(inp["lines"])))
    if "blocks" in inp:
        parts.append(len(inp["blocks"]))
    for k in ("nd", "bs", "nb", "order", "hasn"):
        if k in inp:
            parts.append((k, inp[k]))
    return json.dumps(parts)


def _nontrivial(op, inp):
    A = inp.get("A")
    if isinstance(A, dict) and "data" in A:
        return len(A["data"]) > 0
    return True


def lattice(quick):
    if quick:
        return dict(ML=3, MX=2, MX2=1, K1=2, K2=2, KB=2, ZV=False, IL=2, NB=2, RL=[1, 4, 2], RL2=[2, 3, 1], EP=[2, 3], EK=3)
    return dict(ML=3, MX=3, MX2=2, K1=3, K2=2, KB=2, ZV=False, IL=3, NB=3, RL=[1, 6, 2], RL2=[3, 4, 1], EP=[3, 3], EK=3)


def _judge(ctx, cases, tag):
    out = []
    for v in ctx.judge("J_SparseOps", cases, CLAUSES, tag=tag, timeout=3000):
        if "clause" in v:
            out.append(v)
    return out


def run(ctx):
    consts = dict(lattice(ctx.quick), Ops=set(OPS))
    ctx.rule = ("TLC enumerates the whole input lattice of 22 utilities (SparseOpsEnum: every csr/csc storage structure "
                f"with <= {consts['ML']} lines, cross dimension <= {consts['MX']} ({consts['MX2']} for the two-matrix "
                f"utilities), <= {consts['K1']} stored entries ({consts['K2']} / {consts['KB']} for the two matrices of "
                "merge/stack), position-coded data, unsorted lines / empty lines / empty columns, stored zeros where values "
                "matter; index arrays with repetitions, boolean masks, python and numpy ints; coo blocks; block lists); "
                "every emitted input is executed on the real code, its raw storage result is judged by TLC against the "
                "dense reference (J_SparseOps, 22 clauses); plus seeded random larger inputs (shapes up to 6-8, values "
                "-9..9) judged the same way; a case is non-trivial when its matrix argument has stored entries")
    ctx.assumptions = ["integer data only (exact comparison)", "no duplicate (row, col) entries in inputs",
                       "zero-dimension blocks are outside the verdict family (judged for information only)",
                       "block_diag_index(m) without n is read as the csr column indices of the square block pattern "
                       "(what the code's only caller needs), not the (i, j) pair of the stale docstring example"]
    m, cf = tlc.gen(ctx.work / "enum", "MC_SparseOpsEnum", "SparseOpsEnum", consts, invariants=["Emit"] + LAWS)
    res = ctx.tlc(m, cf, workers=16, allow_violation=False, timeout=3000)
    seen, inputs = set(), []
    for r in res.records:
        s = json.dumps(r, sort_keys=True)
        if s not in seen:
            seen.add(s)
            inputs.append((s, r))
    inputs.sort(key=lambda t: t[0])
    cases = []
    for _, r in inputs:
        cases.append(dict(op=r["op"], **{"in": r["in"]}, out=execute(r["op"], r["in"]), src="tlc"))
    n_enum = len(cases)
    nrand = 120 if ctx.quick else 1500
    maxd = 6 if ctx.quick else 8
    for op in OPS:
        for _ in range(nrand):
            inp = random_input(ctx.rng, op, maxd)
            cases.append(dict(op=op, **{"in": inp}, out=execute(op, inp), src="rng"))
    n_verdict = len(cases)
    for op, inp in _zero_dim_inputs():
        cases.append(dict(op=op, **{"in": inp}, out=execute(op, inp), src="zero_dim"))
    CH = 60000
    info = []
    for c0 in range(0, len(cases), CH):
        chunk = cases[c0:c0 + CH]
        for v in _judge(ctx, chunk, f"judge{c0 // CH}"):
            case = chunk[v["case"] - 1]
            if case["src"] == "zero_dim":
                info.append(dict(clause=v["clause"], op=case["op"], **{"in": case["in"]}, out=case["out"]))
            else:
                ctx.violation(v["clause"], case, f"{case['op']} on {json.dumps(case['in'])[:300]}")
    for c in cases[:n_verdict]:
        ctx.case(key=_key(c["op"], c["in"]), nontrivial=_nontrivial(c["op"], c["in"]))
    for op in ("merge_matrices", "slice_sparse_matrix", "rldecode", "from_sparse_blocks"):
        mine = [c for c in cases[:n_enum] if c["op"] == op]
        if mine:
            ctx.sample(mine[len(mine) // 2])
    ctx.extra["enumerated_inputs"] = n_enum
    ctx.extra["random_inputs"] = n_verdict - n_enum
    ctx.extra["per_utility"] = {op: sum(1 for c in cases[:n_verdict] if c["op"] == op) for op in OPS}
    ctx.extra["zero_dimension_info"] = info
    ctx.exhaustive = n_enum == len(seen)


def replay(ctx, body):
    rec = body["record"]
    case = dict(op=rec["op"], **{"in": rec["in"]}, out=execute(rec["op"], rec["in"]), src="replay")
    ctx.case(key=_key(case["op"], case["in"]))
    ctx.sample(case)
    for v in _judge(ctx, [case], "replay"):
        ctx.violation(v["clause"], case, f"replayed {case['op']}")


MATCHERS = {}
