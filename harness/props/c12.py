"""C12 TPFA is symmetric, conservative, and exact on K-orthogonal grids.

spec/ref/FvOracle.tla      TpfaRef: the two-point scheme transcribed from tpfa.py as rational matrices (half
                           transmissibilities, harmonic mean, boundary rows, pressure reconstruction) and its model
                           laws (symmetry, M-matrix signs, zero flux for constants, linear exactness on K-orthogonal
                           grids with constant K), all evaluated by TLC in exact arithmetic
spec/ref/FvOracleEnum.tla  TLC enumerates grid recipe x tensor (constant or per cell, diagonal or full) x
                           Dirichlet/Neumann mask
spec/trace/J_FvOracle.tla  TpfaAll: TLC judges porepy's flux, bound_flux, bound_pressure_cell, bound_pressure_face
                           (entrywise, as rationals): structural clauses on every grid, M-matrix / agreement with MPFA /
                           linear exactness on Cartesian and tensor grids with diagonal K, entrywise equality with
                           TpfaRef on K-orthogonal configurations

Python: builds the grids, runs pp.Tpfa (and pp.Mpfa where the two must coincide), converts matrix entries."""
from __future__ import annotations

from . import _fv

LEVEL = "translation_validation"
INVARIANT = "TpfaAll"
CLAUSES = ["Discretises", "Symmetric", "SingleValued", "ConstantZero", "KOrthExact", "Representable", "AgreesWithMpfa",
           "MMatrix", "LinearExact"]


def tier(ctx):
    if ctx.quick:
        return dict(sizes=[(3,), (1, 1), (3, 2), (1, 1, 1), (2, 2, 1)],
                    mods=["none", "tensor", "pert", "shear"], nvar=1, nk=1, nmask=2, exhnb=2, nti=3)
    return dict(sizes=[(1,), (2,), (3,), (1, 1), (2, 1), (2, 2), (3, 1), (3, 2), (3, 3), (1, 1, 1), (2, 1, 1), (2, 2, 1),
                       (2, 2, 2), (3, 2, 2), (3, 3, 2)],
                mods=["none", "tensor", "pert", "shear"], nvar=2, nk=2, nmask=3, exhnb=4, nti=3)


def wants_mpfa(s):
    """recipe-level superset of 'Cartesian / tensor grid with diagonal tensors' (TLC decides with AxisDiag)"""
    b = s.base
    return b["kind"] == "tensor" and b["mod"] in ("none", "tensor") and all(k[3] == 0 and k[4] == 0 and k[5] == 0 for k in b["kc"])


def execute(ctx, cfgs, tag):
    setups = [_fv.Setup(c) for c in cfgs]
    groups = _fv.group(setups)
    schemes = {i: "tpfa" + ("+mpfa" if wants_mpfa(s) else "") for i, s in enumerate(setups)}
    subs = [[_fv.run_tpfa(s, wants_mpfa(s)) for s in g.setups] for g in groups]
    outside = _fv.judge(ctx, INVARIANT, groups, subs, cfgs, schemes, f"{tag}_out")
    for gi, g in enumerate(groups):
        if gi in outside:
            ctx.extra["outside_family"] = ctx.extra.get("outside_family", 0) + len(g.members)
            continue
        for s in g.setups:
            ctx.case(key=_fv.key_of(s, "tpfa"), nontrivial=s.g.num_cells > 1)
    return groups, subs


def run(ctx):
    ctx.rule = ("TLC enumerates (grid recipe: 1D/2D/3D Cartesian and tensor grids, structured triangles / Kuhn tetrahedra, "
                "sizes <= 3 per direction, unit / non-uniform spacing / lattice perturbation / integer shear) x (tensor: "
                "constant diagonal incl. transversely isotropic in all three axis positions, constant full, per-cell diagonal, "
                "per-cell transversely isotropic, per-cell arbitrary from an SPD catalogue) x "
                "(Dirichlet/Neumann mask: all masks on small grids, all-Dirichlet + seeded masks otherwise).  One "
                "evaluation = one configuration whose four TPFA matrices TLC judged entrywise; classes = (dim, kind, "
                "modification, size, tensor mode/class, mask class); non-trivial = several cells")
    ctx.assumptions = ["integer node coordinates, planar faces, valid cells (decided by TLC on the exported topology)",
                       "matrix entries are compared through their closest rational with denominator <= 1e5 (agreement "
                       "within 1e-9, violation beyond 1e-6, in between inconclusive); entries of TpfaRef with a larger "
                       "denominator are skipped and counted",
                       "TpfaRef is a transcription of the documented two-point formula: entrywise equality is demanded "
                       "on K-orthogonal configurations (where the property fixes the scheme), elsewhere a difference is "
                       "reported as drift",
                       "MPFA for the agreement clause is run with mpfa_inverter='python'"]
    cfgs = _fv.enumerate_configs(ctx, "C12", **tier(ctx))
    ctx.extra["configurations"] = len(cfgs)
    B = 1500
    for k in range(0, len(cfgs), B):
        groups, subs = execute(ctx, cfgs[k:k + B], f"b{k // B}")
        for j in range(0, len(groups), max(1, len(groups) // 3)):
            s = groups[j].setups[-1]
            ctx.sample(dict(config=_fv.describe(s.cfg), cells=s.g.num_cells, faces=s.g.num_faces,
                            flux_rows=subs[j][-1]["out"].get("flux", [])[:3]))
    ctx.exhaustive = True  # every emitted configuration was executed and judged


def replay(ctx, body):
    rec = body["record"]
    execute(ctx, [rec["cfg"]], "replay")
    ctx.sample(dict(config=_fv.describe(rec["cfg"])))
