"""C16 TPSA is invariant under rigid translations.

spec/ref/MechOracle.tla      the oracle's statement for a translation: zero traction on every face (model law: G = 0 gives
                             zero exact traction), boundary data u = t on Dirichlet faces and zero traction on Neumann faces
spec/ref/MechOracleEnum.tla  TLC enumerates (grid kind x size x variant x mu x lambda x boundary mode x translation) and the
                             small Neumann sets of the exported real grids
spec/trace/J_MechOracle.tla  JudgeC16: ZeroStress on every face; SolveReturnsTranslation (u = t in every cell, rotation = 0,
                             solid pressure = 0) for the assembled system

Python: builds the grids, discretises with pp.Tpsa, applies stress * u_t + bound_stress * bc_t, assembles the full system
exactly as tests/numerics/fv/test_tpsa.py does (div @ face blocks - accumulation, rhs = -div @ boundary blocks @ bc) and
solves it with scipy (black box).  A mixed Dirichlet / Neumann assignment can make the discrete system singular (e.g. a
single Dirichlet face on a 3D Cartesian grid): the harness records whether the system is numerically regular
(cond < 1e6) and TLC excludes the singular mixed cases from the solve clause (the solution is not unique there) - all-
Dirichlet systems are never excused."""
from __future__ import annotations

from . import _mech as M

LEVEL = "exploration"
CLAUSES = ["ZeroStress", "SolveReturnsTranslation"]
KEY = "mechanics"
MATCHERS = {}  # no defect found on the current tree: nothing to recognise as a known finding
TRANSLATIONS = [[1, -2, 3], [3, 1, -2], [0, 2, 0]]


def assemble(g, mats, mu, lam):
    """the full TPSA system as assembled in tests/numerics/fv/test_tpsa.py::_assemble_matrices / _solve"""
    import numpy as np
    import scipy.sparse as sps

    nd, nc, nf = g.dim, g.num_cells, g.num_faces
    rot_dim = nd if nd == 3 else 1
    nrf, nrc = nf * rot_dim, nc * rot_dim
    face = sps.block_array([
        [mats["stress"], mats["stress_rotation"], mats["stress_total_pressure"]],
        [mats["rotation_displacement"], mats["rotation_rotation"], sps.csr_array((nrf, nc))],
        [mats["solid_mass_displacement"], sps.csr_array((nf, nrc)), mats["solid_mass_total_pressure"]]])
    rhsm = sps.block_array([[mats["bound_stress"]], [mats["bound_rotation_displacement"]], [mats["bound_mass_displacement"]]])
    div = sps.block_diag([g.divergence(dim=nd), g.divergence(dim=rot_dim), g.divergence(dim=1)], format="csr")
    accum = sps.block_diag([
        sps.csr_array((nc * nd, nc * nd)),
        sps.dia_matrix((np.repeat(g.cell_volumes / mu, rot_dim), 0), shape=(nrc, nrc)),
        sps.dia_matrix((g.cell_volumes / lam, 0), shape=(nc, nc))], format="csr")
    return div @ face - accum, -div @ rhsm


def execute(rec):
    import numpy as np
    import porepy as pp
    import scipy.sparse as sps

    g = M.build(rec["recipe"])
    nd, nc = g.dim, g.num_cells
    t = rec["t"]
    nc_ = sorted([int(f), int(k)] for f, k in rec.get("nc", []))
    sub = dict(mu=rec["mu"], lam=rec["lam"], neu=sorted(rec["neu"]), nc=nc_, t=t, error="", solerr="", regular=True,
               bcq=[], sq=[], sm=[], uq=[], um=[], rq=[], rm=[])
    try:
        bf, dirf, neu0, sgn = M.boundary_setup(g, rec["neu"])
        C = pp.FourthOrderTensor(rec["mu"] * np.ones(nc), rec["lam"] * np.ones(nc))
        data = {pp.PARAMETERS: {KEY: {"fourth_order_tensor": C, "bc": M.vector_bc(g, dirf, neu0, nc_)}},
                pp.DISCRETIZATION_MATRICES: {KEY: {}}}
        pp.Tpsa(KEY).discretize(g, data)
        mats = data[pp.DISCRETIZATION_MATRICES][KEY]
        bcv = np.zeros((nd, g.num_faces))
        for k in range(nd):
            bcv[k, dirf] = t[k]          # u_k = t_k in Dirichlet components, zero traction in Neumann components
        for f, k in nc_:
            bcv[k - 1, f - 1] = 0.0
        bc = bcv.ravel("F")
        ut = np.tile(np.asarray(t[:nd], dtype=float), nc)
        stress = mats["stress"] @ ut + mats["bound_stress"] @ bc
        sub["bcq"], sub["sq"], sub["sm"] = M.qtable(bc, nd), M.qtable(stress, nd), M.mtable(stress, nd)
        try:
            A, B = assemble(g, mats, float(rec["mu"]), float(rec["lam"]))
            Ad = A.toarray()
            sub["regular"] = bool(np.all(np.isfinite(Ad)) and np.linalg.cond(Ad) < 1e6)
            x = sps.linalg.spsolve(A.tocsc(), B @ bc)
            sub["uq"], sub["um"] = M.qtable(x[:nd * nc], nd, tol=1e-8), M.mtable(x[:nd * nc], nd)
            sub["rq"], sub["rm"] = [M.encq(v, 1e-8) for v in x[nd * nc:]], [M.encm(v) for v in x[nd * nc:]]
        except Exception as e:
            sub["solerr"] = f"{type(e).__name__}: {e}"[:200]
    except Exception as e:  # an exception of the code under test on an in-family input is an observation
        sub["error"] = f"{type(e).__name__}: {e}"[:200]
    return sub, M.G.export(g)


def class_key(rec, g):
    r = rec["recipe"]
    return (r["base"]["kind"], g["dim"], len(g["cf"]), tuple(o["op"] for o in r.get("ops", [])),
            rec["mu"], rec["lam"], min(len(rec["neu"]), 3), rec.get("mode", "face"), tuple(rec["t"]))


def judge(ctx, recs, prefix=""):
    done = [execute(r) for r in recs]
    subs, exports = [d[0] for d in done], [d[1] for d in done]

    def viol(i, clause):
        r = recs[i]
        ctx.violation(clause, dict(r, error=subs[i]["error"], solerr=subs[i]["solerr"], regular=subs[i]["regular"]),
                      f"{prefix}{r['recipe']['base']['kind']} n={[len(a) - 1 for a in r['recipe']['base']['axes']]} "
                      f"ops={[o['op'] for o in r['recipe'].get('ops', [])]} mu={r['mu']} lam={r['lam']} neu={r['neu']} "
                      f"{r.get('mode', 'face')} nc={r.get('nc', [])} t={r['t']} {subs[i]['error']} {subs[i]['solerr']}")

    outside, incon = M.judge(ctx, recs, subs, exports, "JudgeC16", viol, batch=1500)
    for i, (r, s, g) in enumerate(zip(recs, subs, exports)):
        if i in outside:
            if (r["neu"] or r.get("nc")) and not s["regular"]:
                # singular mixed system: ZeroStress was judged, the solve clause is outside the family
                ctx.extra["singular_mixed_systems"] = ctx.extra.get("singular_mixed_systems", 0) + 1
                ctx.case(key=class_key(r, g), nontrivial=True)
            else:
                ctx.extra["outside_family"] = ctx.extra.get("outside_family", 0) + 1
            continue
        ctx.case(key=class_key(r, g), nontrivial=len(g["cf"]) > 1 or bool(r["neu"]) or bool(r.get("nc")), n=2)
    return subs, outside


def plan(ctx):
    rng = ctx.rng
    q = ctx.quick
    if q:
        sizes = [(1, 1), (2, 1), (2, 2), (3, 2), (3, 3), (1, 1, 1), (2, 1, 1), (2, 2, 1), (2, 2, 2)]
    else:
        sizes = [(a, b) for a in (1, 2, 3) for b in (1, 2, 3)] + [(a, b, c) for a in (1, 2) for b in (1, 2) for c in (1, 2)]
    coefs = [dict(alpha=0, p=i + 1) for i in range(len(TRANSLATIONS))]
    fam = M.Family(ctx, sizes, [1, 2], [1, 3], max_neu=2, coefs=coefs, roll_modes=("rollN", "rollT"))
    ctx.extra["configurations_enumerated"] = len(fam.configs)
    ctx.extra["neumann_sets_enumerated"] = sum(len(v) for v in fam.neusets.values())
    ctx.extra["componentwise_assignments_enumerated"] = sum(len(v) for v in fam.rollsets.values())
    gi = {k: i for i, k in enumerate(fam.keys)}
    recs = []
    for c in fam.configs:
        k = M.grid_key(c)
        li = [1, 2].index(c["mu"]) * 2 + [1, 3].index(c["lam"])
        ti = c["coef"]["p"] - 1
        # per (grid, boundary mode): quick two, thorough all four Lame pairs, the translation rotating
        if not any((gi[k] + j) % 4 == li and (gi[k] + 2 * j) % 3 == ti for j in range(2 if q else 4)):
            continue
        base = dict(recipe=fam.recipes[k], mu=c["mu"], lam=c["lam"], t=TRANSLATIONS[ti])
        if c["bc"] == "dir":
            recs.append(dict(base, neu=[]))
            continue
        g = fam.grids[k]
        bf = [int(f) + 1 for f in g.get_all_boundary_faces()]
        sets = [s for s in fam.neusets[k] if s and len(s) < len(bf)]
        chosen = M.pick(sets, 1 if q else 2, rng)
        # a seeded larger mix (any proper subset of the boundary is consistent with the translation)
        big = sorted(f for f in bf if rng.random() < 0.4)
        if 0 < len(big) < len(bf):
            chosen.append(big)
        for s in chosen:
            recs.append(dict(base, neu=s))
        # component-wise mixes on the same face: rolling in the normal / in a tangential direction on a set of faces
        # enumerated by TLC (the rest fully Dirichlet), and a seeded per-component mix with one face kept fully Dirichlet
        for mode in (("rollN", "rollT")[(gi[k] + li) % 2:][:1] if q else ("rollN", "rollT")):
            for a in M.pick([a for a in fam.rollsets[k] if a["mode"] == mode], 1 if q else 2, rng):
                recs.append(dict(base, neu=[], nc=a["nc"], mode=mode))
        keep = rng.choice(bf)
        nc = [[f, d + 1] for f in bf if f != keep for d in range(g.dim) if rng.random() < 0.35]
        if nc:
            recs.append(dict(base, neu=[], nc=nc, mode="random"))
    return recs


def run(ctx):
    ctx.rule = ("TLC enumerates (Cartesian | structured simplex grid) x (cells per direction <= 3 in 2D, <= 2 in 3D) x (plain | "
                "lattice-perturbed / sheared with planar faces) x mu in {1,2} x lambda in {1,3} x (all-Dirichlet | mixed) x "
                "(translation (1,-2,3), (3,1,-2), (0,2,0)); for the mixed mode TLC enumerates the Neumann sets of <= 2 faces of "
                "the real grid (2D also all-but-<=1) and, on each such set, the component-wise rolling assignments (normal "
                "component Dirichlet / tangential Neumann, and the converse); the harness adds a seeded larger proper subset "
                "and a seeded per-component mix.  Each selected configuration is discretised "
                "with pp.Tpsa; the stress matrices are applied to the uniform displacement and the assembled system is solved. "
                "One evaluation = one clause of one configuration; classes = (kind, dim, #cells, operations, mu, lambda, "
                "#Neumann, translation); non-trivial = several cells or a Neumann face")
    ctx.assumptions = ["integer node coordinates |x| <= 12, planar faces, valid cells (ValidE decided by TLC on the exported grid)",
                       "lambda > 0 (the solid-pressure accumulation term divides by lambda)",
                       "boundary data consistent with the translation: u_k = t_k in Dirichlet components, zero traction in Neumann "
                       "components (face-wise and component-wise mixes); at least one face Dirichlet in every component",
                       "mixed cases whose assembled system is numerically singular (cond >= 1e6) are outside the solve clause",
                       "solve = scipy.sparse.linalg.spsolve (black box); solution compared with the integers within 1e-8",
                       "black-box oracle: the two-point stress mechanism is not modelled"]
    recs = plan(ctx)
    ctx.extra["discretisations"] = len(recs)
    subs, outside = judge(ctx, recs)
    for r, c in list(zip(recs, subs))[:: max(1, len(recs) // 5)]:
        ctx.sample(dict(recipe=r["recipe"]["base"], ops=[o["op"] for o in r["recipe"].get("ops", [])], mu=r["mu"], lam=r["lam"],
                        neu=r["neu"], mode=r.get("mode", "face"), nc=r.get("nc", [])[:6], t=r["t"], regular=c["regular"], u_cell1=(c["uq"] or [None])[0],
                        stress_face1=(c["sq"] or [None])[0]))
    ctx.exhaustive = False


def replay(ctx, body):
    rec = body["record"]
    r = {k: rec[k] for k in ("recipe", "mu", "lam", "neu", "t")}
    r["nc"], r["mode"] = rec.get("nc", []), rec.get("mode", "face")
    judge(ctx, [r], prefix="replayed: ")
    ctx.sample(dict(recipe=r["recipe"]["base"], neu=r["neu"], t=r["t"]))
