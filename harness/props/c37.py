"""C37 Block-diagonal inversion returns the true inverse.

spec/ref/BlockDiag.tla      unimodular integer blocks, assembly, IsInverse, ValidPerm, NumComponents
spec/ref/BlockDiagEnum.tla  bounded input lattice (TLC enumerates, invariant Emit) + model laws
spec/trace/J_BlockDiag.tla  clauses judged by TLC on the real results

Flow: TLC enumerates block structures / unimodular blocks / storage layouts / permutations -> this driver builds
the scipy matrix with exactly that storage, calls invert_diagonal_blocks (python and numba paths),
generate_permutation_to_block_diag_matrix and invert_permuted_block_diag_matrix and records the raw storage of
the results (floats rounded to integers when within 1e-9) -> TLC recomputes A from the blocks and judges
A * X = I and ValidPerm exactly.  Seeded random larger structures (sizes up to 6) are judged the same way.
The numba entry point re-decorates its kernel on every call (~50 ms), so those calls run in a process pool."""
from __future__ import annotations

import json
import os

import numpy as np

from .. import tlc

LEVEL = "translation_validation"
# verdict records name the clauses HarnessInput, InversePython, InverseNumba, PermValid, PermInverse,
# PermInverseGiven, PermFinest; TLC evaluates them all through the single invariant Verdicts (A assembled once)
CLAUSES = ["Verdicts"]
LAWS = ["LawInverse", "LawDefault", "LawPermRoundTrip"]
TOL = 1e-9


# ---------------------------------------------------------------------------------- building the input
def dense_of(inp):
    n = sum(inp["sizes"])
    D = np.zeros((n, n), dtype=np.int64)
    P = np.zeros((n, n), dtype=bool)
    o = 0
    for b in inp["blocks"]:
        s = len(b)
        D[o:o + s, o:o + s] = np.array(b, dtype=np.int64)
        P[o:o + s, o:o + s] = True
        o += s
    rm, cm = np.array(inp["rowmap"], dtype=int), np.array(inp["colmap"], dtype=int)
    return D[rm][:, cm], P[rm][:, cm]


def storage(inp):
    """Raw storage arrays (JSON record) of A in the requested format / layout."""
    A, P = dense_of(inp)
    fmt, layout = inp["fmt"], inp["layout"]
    n = A.shape[0]
    stored = P if layout == "full" else (A != 0)
    if fmt == "csc":
        A, stored = A.T, stored.T
    indptr, indices, data = [0], [], []
    for line in range(n):
        cross = [int(c) for c in np.flatnonzero(stored[line])]
        if layout == "reversed":
            cross = cross[::-1]
        indices += cross
        data += [int(A[line, c]) for c in cross]
        indptr.append(len(indices))
    return dict(fmt=fmt, shape=[n, n], indptr=indptr, indices=indices, data=data)


_SCALE = [1.0]   # physical scale 2^e of the matrix entries of the job being executed (exact in doubles)


def _scipy(rec):
    import scipy.sparse as sps

    cls = sps.csr_matrix if rec["fmt"] == "csr" else sps.csc_matrix
    return cls((np.array(rec["data"], dtype=float) * _SCALE[0], np.array(rec["indices"], dtype=np.int32),
                np.array(rec["indptr"], dtype=np.int32)), shape=tuple(rec["shape"]))


def _enc_inverse(X):
    """csr / csc result -> raw storage with data rounded to integers (exactly representable within TOL)."""
    X = X if X.getformat() in ("csr", "csc") else X.tocsr()
    d = np.asarray(X.data, dtype=float) * _SCALE[0]   # inverse of (2^e A) is 2^-e inverse(A): scaled back exactly
    r = np.round(d)
    if d.size and (not np.all(np.isfinite(d)) or np.max(np.abs(d - r)) > TOL):
        return dict(kind="nonint", worst=repr(float(np.max(np.abs(d - r)))) if np.all(np.isfinite(d)) else "nan")
    return dict(kind="ok", M=dict(fmt=X.getformat(), shape=[int(X.shape[0]), int(X.shape[1])],
                                  indptr=[int(x) for x in X.indptr], indices=[int(x) for x in X.indices],
                                  data=[int(x) for x in r]))


def _guard(f):
    try:
        return f()
    except Exception as e:  # an exception on an in-family input is an observation, judged by TLC
        return dict(kind="raise", exc=type(e).__name__, msg=str(e)[:160])


# ---------------------------------------------------------------------------------- the real code
def execute(job):
    """job = dict(fam, in (with M), numba: bool) -> out record.  Runs in the main process or in a pool worker."""
    from porepy.numerics.linalg import matrix_operations as mo

    fam, inp, numba = job["fam"], job["in"], job["numba"]
    # the matrix handed to the code is 2^e A (e = inp["pscale"]); everything judged refers to the integer matrix A.  A
    # power of two commutes with every floating-point operation of the inverters, so only code that depends on the
    # absolute size of the entries (absolute tolerances) can tell the difference
    _SCALE[0] = 2.0 ** int(inp.get("pscale", 0))
    sizes = np.array(inp["sizes"], dtype=np.int64)
    out = {}
    if fam == "blocks":
        out["python"] = _guard(lambda: _enc_inverse(mo.invert_diagonal_blocks(_scipy(inp["M"]), sizes.copy(), method="python")))
        if numba:
            out["numba"] = _guard(lambda: _enc_inverse(mo.invert_diagonal_blocks(_scipy(inp["M"]), sizes.copy(), method="numba")))
        else:
            out["numba"] = dict(kind="skipped")
        return out

    def perm():
        rp, cp, sz = mo.generate_permutation_to_block_diag_matrix(_scipy(inp["M"]))
        for a in (rp, cp, sz):
            if not np.issubdtype(np.asarray(a).dtype, np.integer):
                raise TypeError("non-integer permutation / size array")
        return dict(kind="ok", rp=[int(x) for x in rp], cp=[int(x) for x in cp], sz=[int(x) for x in sz])

    out["perm"] = _guard(perm)
    if out["perm"]["kind"] == "ok":
        p = out["perm"]
        out["inv_computed"] = _guard(lambda: _enc_inverse(mo.invert_permuted_block_diag_matrix(
            _scipy(inp["M"]), np.array(p["rp"], dtype=np.int32), np.array(p["cp"], dtype=np.int32),
            np.array(p["sz"], dtype=np.int32))))
    else:
        out["inv_computed"] = dict(kind="skipped")
    out["inv_given"] = _guard(lambda: _enc_inverse(mo.invert_permuted_block_diag_matrix(
        _scipy(inp["M"]), np.array(inp["rp0"], dtype=np.int32), np.array(inp["cp0"], dtype=np.int32),
        sizes.astype(np.int32))))
    return out


def _pool_init():
    os.environ.setdefault("NUMBA_NUM_THREADS", "2")


def run_jobs(jobs, nproc):
    """Execute all jobs; the ones that reach numba go through a process pool."""
    outs = [None] * len(jobs)
    slow = [i for i, j in enumerate(jobs) if j["numba"] or j["fam"] == "perm"]
    fast = [i for i in range(len(jobs)) if not (jobs[i]["numba"] or jobs[i]["fam"] == "perm")]
    fut = None
    if slow:
        # first call in this process: compiles the numba kernel if its on-disk cache is cold, so that the pool
        # workers only load it
        outs[slow[0]] = execute(jobs[slow[0]])
        slow = slow[1:]
    if len(slow) > 24 and nproc > 1:
        import multiprocessing as mp
        from concurrent.futures import ProcessPoolExecutor

        os.environ.setdefault("NUMBA_NUM_THREADS", "2")
        ex = ProcessPoolExecutor(max_workers=nproc, mp_context=mp.get_context("spawn"), initializer=_pool_init)
        fut = ex.map(execute, [jobs[i] for i in slow], chunksize=max(1, len(slow) // (nproc * 8)))
    for i in fast:
        outs[i] = execute(jobs[i])
    if fut is not None:
        for i, o in zip(slow, fut):
            outs[i] = o
        ex.shutdown()
    else:
        for i in slow:
            outs[i] = execute(jobs[i])
    return outs


# ---------------------------------------------------------------------------------- random larger inputs
def _rand_unimodular(rng, s, cap=12):
    B = [[1 if i == j else 0 for j in range(s)] for i in range(s)]
    X = [row[:] for row in B]
    for _ in range(rng.randint(s, 3 * s)):
        kind = rng.choice(["add", "add", "add", "neg", "swap"]) if s > 1 else "neg"
        B2, X2 = [r[:] for r in B], [r[:] for r in X]
        if kind == "add":
            i, j = rng.sample(range(s), 2)
            c = rng.choice([-1, 1])
            B2[j] = [B[j][t] + c * B[i][t] for t in range(s)]  # row j += c * row i
            for r in range(s):
                X2[r][i] = X[r][i] - c * X[r][j]  # column i -= c * column j
        elif kind == "neg":
            i = rng.randrange(s)
            B2[i] = [-v for v in B[i]]
            for r in range(s):
                X2[r][i] = -X[r][i]
        else:
            i, j = rng.sample(range(s), 2)
            B2[i], B2[j] = B[j], B[i]
            for r in range(s):
                X2[r][i], X2[r][j] = X[r][j], X[r][i]
        if max(abs(v) for r in B2 for v in r) <= cap and max(abs(v) for r in X2 for v in r) <= cap:
            B, X = B2, X2
    return B


def random_input(rng, fam, maxsize):
    sizes = [rng.randint(1, maxsize) for _ in range(rng.randint(1, 5))]
    n = sum(sizes)
    ident = list(range(n))
    inp = dict(fam=fam, sizes=sizes, blocks=[_rand_unimodular(rng, s) for s in sizes], fmt=rng.choice(["csr", "csc"]),
               layout=rng.choice(["pruned", "full", "reversed"]) if fam == "blocks" else "pruned",
               rowmap=ident, colmap=ident, variant="random")
    if fam == "perm":
        inp["rowmap"], inp["colmap"] = rng.sample(ident, n), rng.sample(ident, n)
    return inp


# ---------------------------------------------------------------------------------- run / replay
def _job(inp, numba):
    inp = dict(inp)
    inp["M"] = storage(inp)
    if inp["fam"] == "perm":
        inp["rp0"] = [int(x) for x in np.argsort(inp["rowmap"])]
        inp["cp0"] = [int(x) for x in np.argsort(inp["colmap"])]
    return dict(fam=inp["fam"], **{"in": inp}, numba=bool(numba))


def _dispatch(ctx, cases, verdicts):
    for v in verdicts:
        if "clause" not in v:
            continue
        case = cases[v["case"] - 1]
        brief = {k: case["in"][k] for k in ("sizes", "fmt", "layout", "rowmap", "colmap", "variant")}
        if v["clause"] == "HarnessInput":
            raise RuntimeError(f"harness built a wrong input matrix: {json.dumps(case['in'])[:400]}")
        if v["clause"] == "PermFinest":
            ctx.drift(f"generate_permutation_to_block_diag_matrix returned a coarser decomposition than the connected "
                      f"components: sizes {case['out']['perm'].get('sz')} for {json.dumps(brief)}", None)
            continue
        ctx.violation(v["clause"], case, f"{json.dumps(brief)} blocks={json.dumps(case['in']['blocks'])[:200]}")


def lattice(quick):
    if quick:
        return dict(SizeSet=tlc.Raw("1..3"), MaxBlocks=3, DB=[2, 1, 0], NbDB=[1, 0, 0], Bound=3, PermN=3)
    return dict(SizeSet=tlc.Raw("1..6"), MaxBlocks=3, DB=[2, 1, 0], NbDB=[1, 1, 0], Bound=3, PermN=4)


def run(ctx):
    consts = lattice(ctx.quick)
    ctx.rule = ("TLC enumerates (BlockDiagEnum) every sequence of 1-3 block sizes from SizeSet, a focus block running "
                "through all unimodular integer matrices within DB[#blocks] elementary operations of the identity (other "
                "blocks L*L^T), storage csr/csc x pruned/full/reversed, and for total order <= PermN every row x column "
                "permutation; each input is executed on the real inverters (python path on all, numba path on the marked "
                "sub-lattice, permuted inverter with the computed and with the constructing permutation); TLC recomputes "
                "A from the blocks and judges A*X = I and ValidPerm exactly (J_BlockDiag); plus seeded random structures "
                f"with 1-5 blocks of sizes 1-6; every fifth input again with all entries scaled by 2^-50 and 2^40; lattice = {json.dumps({k: str(v) for k, v in consts.items()})}")
    ctx.assumptions = ["blocks are integer unimodular with |entries| <= 12 (block and inverse): the float result must be within "
                       "1e-9 of the integer inverse", "block sizes >= 1 (size-0 entries of s are not generated)",
                       "finest decomposition (connected components) is reported as drift, not demanded"]
    m, cf = tlc.gen(ctx.work / "enum", "MC_BlockDiagEnum", "BlockDiagEnum", consts, invariants=["Emit"] + LAWS)
    res = ctx.tlc(m, cf, workers=16, allow_violation=False, timeout=3000)
    uniq = {}
    for r in res.records:
        r = dict(r)
        r.pop("depth", None)
        nb = r.pop("numba")
        k = json.dumps(r, sort_keys=True)
        uniq[k] = uniq.get(k, False) or nb
    jobs = [_job(json.loads(k), uniq[k]) for k in sorted(uniq)]
    n_enum = len(jobs)
    nrand = 40 if ctx.quick else 800
    for fam in ("blocks", "perm"):
        for _ in range(nrand):
            jobs.append(_job(random_input(ctx.rng, fam, 6), True))
    # every fifth input again with entries of size 2^-50 (~1e-15) and 2^40
    scaled = []
    for i, j in enumerate(jobs):
        if i % 5 == 0:
            scaled.append(dict(j, **{"in": dict(j["in"], pscale=(-50 if (i // 5) % 2 == 0 else 40))}))
    jobs += scaled
    ctx.extra["scaled_inputs"] = len(scaled)
    outs = run_jobs(jobs, 8 if ctx.quick else 12)
    cases = [dict(fam=j["fam"], **{"in": j["in"]}, out=o, numba=j["numba"]) for j, o in zip(jobs, outs)]
    CH = 20000
    for c0 in range(0, len(cases), CH):
        chunk = cases[c0:c0 + CH]
        _dispatch(ctx, chunk, ctx.judge("J_BlockDiag", chunk, CLAUSES, tag=f"judge{c0 // CH}", timeout=3000))
    for c in cases:
        i = c["in"]
        ctx.case(key=(c["fam"], tuple(i["sizes"]), i["fmt"], i["layout"], i["variant"], c["numba"], i.get("pscale", 0)),
                 nontrivial=sum(i["sizes"]) > 1)
    for fam in ("blocks", "perm"):
        mine = [c for c in cases[:n_enum] if c["fam"] == fam and sum(c["in"]["sizes"]) >= 3]
        if mine:
            ctx.sample(mine[len(mine) // 2])
    ctx.extra["enumerated_inputs"] = n_enum
    ctx.extra["random_inputs"] = len(cases) - n_enum - len(scaled)
    ctx.extra["numba_path_cases"] = sum(1 for c in cases if c["fam"] == "blocks" and c["numba"])
    ctx.extra["python_path_cases"] = sum(1 for c in cases if c["fam"] == "blocks")
    ctx.extra["permuted_cases"] = sum(1 for c in cases if c["fam"] == "perm")
    ctx.exhaustive = n_enum == len(uniq)


def replay(ctx, body):
    rec = body["record"]
    inp = {k: v for k, v in rec["in"].items() if k not in ("M", "rp0", "cp0")}
    job = _job(inp, rec.get("numba", True))
    case = dict(fam=job["fam"], **{"in": job["in"]}, out=execute(job), numba=job["numba"])
    ctx.case(key="replay")
    ctx.sample(case)
    _dispatch(ctx, [case], ctx.judge("J_BlockDiag", [case], CLAUSES, tag="replay"))


MATCHERS = {}
