"""C41 Interpolation tables are exact for multilinear functions.

spec/ref/InterpTable.tla (multilinear f, exact values on the query lattice, model of piecewise multilinear
interpolation + the law that it reproduces f), spec/ref/InterpTableEnum.tla (TLC enumerates boxes, resolutions,
coefficient tensors and the query lattice), spec/trace/J_InterpTable.tla (TLC judges what the real tables returned).

Real code: porepy.utils.interpolation_tables.InterpolationTable and AdaptiveInterpolationTable (interpolate,
gradient, quadrature_points_from_coordinates + assign_values).  The adaptive table is driven in three ways chosen
by the spec per table: "batch" (function given, all queries in one call), "seq" (function given, one query at a
time, gradient and value calls interleaved), "assign" (no function: the needed quadrature points are requested,
evaluated outside and assigned in a scrambled order - the path through SparseNdArray.add with unsorted batches)."""
from __future__ import annotations

from fractions import Fraction

import numpy as np

from .. import codec, tlc

LEVEL = "translation_validation"
MAXDEN = 1000
LIMN = 2 * 10 ** 6
CLAUSES = ["InterpExact", "GradExact", "AdaptiveAgrees", "AdaptiveExact", "AdaptiveGradExact"]
INVALID = [0, 0]
ASSIGN_CHUNK = 7


def enc(x):
    """double -> [n, d]; [0, 0] = exception / not within 1e-9 of a rational with denominator <= MAXDEN / huge"""
    try:
        if x is None or not np.isfinite(x):
            return INVALID
        r = codec.rat(float(x), MAXDEN)
    except codec.Inexact:
        return INVALID
    return r if abs(r[0]) <= LIMN else INVALID


def make_f(coef, P):
    terms = [(c, [i for i in range(P) if (m >> i) & 1]) for m, c in enumerate(coef) if c != 0]

    def f(*x):
        tot = 0.0 * x[0]
        for c, axes in terms:
            t = float(c)
            for i in axes:
                t = t * x[i]
            tot = tot + t
        return tot

    return f


def points(inp):
    low, w, D = inp["low"], inp["w"], inp["D"]
    X = np.array([[float(Fraction(low[i]) + Fraction(w[i] * k[i], D)) for k in inp["qs"]] for i in range(inp["P"])])
    upper = np.array([any(ki == D for ki in k) for k in inp["qs"]])
    return X, upper


def safe(fn):
    try:
        return fn()
    except (MemoryError, KeyboardInterrupt):
        raise
    except Exception:  # noqa: BLE001  (an exception of the code under test = invalid result)
        return None


def column(v, n):
    """result of interpolate/gradient on n points -> list of n floats (None if malformed)"""
    if v is None:
        return [None] * n
    v = np.asarray(v, dtype=float)
    if v.shape != (1, n):
        return [None] * n
    return [float(z) for z in v[0]]


def run_table(inp):
    from porepy.utils.interpolation_tables import AdaptiveInterpolationTable, InterpolationTable

    P, lin = inp["P"], inp["linear"]
    f = make_f(inp["coef"], P)
    low = np.array(inp["low"], dtype=float)
    high = low + np.array(inp["w"], dtype=float)
    npt = np.array(inp["npt"], dtype=int)
    X, _ = points(inp)
    n = X.shape[1]
    one = lambda i: X[:, i:i + 1]  # noqa: E731

    # ---- standard table
    t = InterpolationTable(low.copy(), high.copy(), npt.copy(), f)
    std = column(safe(lambda: t.interpolate(X.copy())), n)
    if any(v is None for v in std):  # batch failed: point by point
        std = [column(safe(lambda i=i: t.interpolate(one(i).copy())), 1)[0] for i in range(n)]
    gstd = []
    if lin:
        g = [[None] * P for _ in range(n)]
        for ax in range(P):
            # the whole closed box (upper faces included) in one vectorised call; point by point if that call fails
            col = column(safe(lambda: t.gradient(X.copy(), ax)), n)
            if any(v is None for v in col):
                col = [column(safe(lambda i=i: t.gradient(one(i).copy(), ax)), 1)[0] for i in range(n)]
            for i in range(n):
                g[i][ax] = col[i]
        gstd = g

    # ---- adaptive table (queried at the points aq, in that order)
    X = X[:, [j - 1 for j in inp["aq"]]]
    n = X.shape[1]
    dx = (high - low) / (npt - 1)
    mode = inp["mode"]
    a = AdaptiveInterpolationTable(dx.copy(), base_point=low.copy(), function=None if mode == "assign" else f)
    ada = [None] * n
    gada = [[None] * P for _ in range(n)] if lin else []
    if mode == "batch":
        ada = column(safe(lambda: a.interpolate(X.copy())), n)
        if lin:
            for ax in range(P):
                col = column(safe(lambda: a.gradient(X.copy(), ax)), n)
                for i in range(n):
                    gada[i][ax] = col[i]
    elif mode == "seq":
        for i in range(n):
            def grads():
                for ax in range(P):
                    gada[i][ax] = column(safe(lambda: a.gradient(one(i).copy(), ax)), 1)[0]
            if lin and i % 2 == 0:
                grads()
            ada[i] = column(safe(lambda: a.interpolate(one(i).copy())), 1)[0]
            if lin and i % 2 == 1:
                grads()
    else:  # assign
        for lo in range(0, n, ASSIGN_CHUNK):
            idx = list(range(lo, min(n, lo + ASSIGN_CHUNK)))
            xc = X[:, idx]

            def feed():
                coords, inds = a.quadrature_points_from_coordinates(xc.copy())
                m = coords.shape[1]
                if m:
                    r = max(1, m // 3)
                    order = list(range(r, m)) + list(range(r))  # cyclic shift: an unsorted batch whose sorting
                    # permutation is not an involution
                    vals = np.asarray(f(*coords), dtype=float) * np.ones(m)
                    a.assign_values(vals[order], coords[:, order], indices=inds[:, order])
                return True

            if safe(feed) is None:
                continue
            col = column(safe(lambda: a.interpolate(xc.copy())), len(idx))
            for j, i in enumerate(idx):
                ada[i] = col[j]
            if lin:
                for ax in range(P):
                    col = column(safe(lambda: a.gradient(xc.copy(), ax)), len(idx))
                    for j, i in enumerate(idx):
                        gada[i][ax] = col[j]
    raw = dict(std=std, ada=ada, gstd=gstd, gada=gada)
    out = dict(std=[enc(v) for v in std], ada=[enc(v) for v in ada],
               gstd=[[enc(v) for v in g] for g in gstd], gada=[[enc(v) for v in g] for g in gada])
    return out, raw


# ---- TLC -----------------------------------------------------------------------------------------------------
AX = [(0, 1, 2), (-1, 2, 3), (1, 3, 4), (-2, 4, 3), (0, 2, 4)]


def families(q):
    k6 = list(range(7))
    if q:
        return [dict(P=1, Ax=set(AX), ConstVals={-1, 0, 2}, CoefLin={-2, -1, 0, 1, 2}, CoefHi=set(), MaxHi=0, D=6, QKs=k6,
                     Stride=3, SeqLen=7),
                dict(P=2, Ax=set(AX[:3]), ConstVals={1}, CoefLin={-1, 0, 2}, CoefHi={-1, 2}, MaxHi=1, D=6, QKs=k6, Stride=3,
                     SeqLen=20),
                dict(P=3, Ax={(0, 1, 3), (-1, 2, 4)}, ConstVals={1}, CoefLin={-1, 2}, CoefHi={1}, MaxHi=1, D=6,
                     QKs=[0, 1, 2, 3, 4, 6], Stride=5, SeqLen=30)]
    return [dict(P=1, Ax=set(AX), ConstVals={-2, -1, 0, 1, 2}, CoefLin={-2, -1, 0, 1, 2}, CoefHi=set(), MaxHi=0, D=12,
                 QKs=list(range(13)), Stride=5, SeqLen=13),
            dict(P=2, Ax=set(AX), ConstVals={-1, 2}, CoefLin={-1, 0, 2}, CoefHi={-1, 2}, MaxHi=1, D=6, QKs=k6, Stride=3,
                 SeqLen=49),
            dict(P=3, Ax=set(AX[:3]), ConstVals={1}, CoefLin={-1, 2}, CoefHi={1, -2}, MaxHi=1, D=6, QKs=k6, Stride=3,
                 SeqLen=60)]


def enumerate_family(ctx, i, consts):
    m, cf = tlc.gen(ctx.work / f"enum_{i}", "MC_InterpTableEnum", "InterpTableEnum", consts, invariants=["Emit", "Laws"])
    return ctx.tlc(m, cf, allow_violation=False).records


def bad_points(inp, clause, bad):
    if clause.startswith("Adaptive"):
        bad = [inp["aq"][j - 1] for j in bad]
    return [inp["qs"][i - 1] for i in bad]


def judge(ctx, cases, raws):
    for v in ctx.judge("J_InterpTable", cases, CLAUSES):
        c, raw = cases[v["case"] - 1], raws[v["case"] - 1]
        inp = c["in"]
        bad = sorted(int(i) for i in v["bad"])
        ada = v["clause"].startswith("Adaptive")
        ks = bad_points(inp, v["clause"], bad)
        i0 = bad[0] - 1
        x0 = [inp["low"][a] + Fraction(inp["w"][a] * ks[0][a], inp["D"]) for a in range(inp["P"])]
        got = {k: raw[k][i0] for k in raw if raw[k] and (k in ("ada", "gada")) == ada}
        ctx.violation(v["clause"], dict(inp=inp, bad=bad, bad_ks=ks),
                      f"P={inp['P']} low={inp['low']} w={inp['w']} npt={inp['npt']} coef={inp['coef']} mode={inp['mode']} "
                      f"{len(bad)}/{len(inp['aq'] if ada else inp['qs'])} queries bad, first x={[str(z) for z in x0]} returned {got}")


def run(ctx):
    ctx.rule = ("TLC enumerates tables: every combination of per-axis configurations (low, width, npt) from a catalogue "
                "(npt 2..4), every coefficient tensor (constant/first-order coefficients from a value set, at most one "
                "higher-order coefficient) in 1, 2 and 3 parameters, and the full query lattice low + w k/D (all nodes, cell "
                "interiors, the whole boundary); each table is built as InterpolationTable and AdaptiveInterpolationTable; "
                "evaluations = queries; case class = (P, npt, mode, linear)")
    ctx.assumptions = ["f has one output (dim = 1)",
                       "doubles are converted with codec.rat(maxden=1000, tol 1e-9); all reference values have denominators "
                       "D^P <= 216"]
    cases, raws = [], []

    def flush():
        nonlocal cases, raws
        if cases:
            judge(ctx, cases, raws)
        cases, raws = [], []

    ntab = 0
    for i, fam in enumerate(families(ctx.quick)):
        recs = enumerate_family(ctx, i, fam)
        recs.sort(key=lambda r: (r["low"], r["npt"], r["coef"]))
        for r in recs:
            out, raw = run_table(r)
            cases.append({"in": r, "out": out})
            raws.append(raw)
            ntab += 1
            ctx.case(key=(r["P"], tuple(r["npt"]), r["mode"], r["linear"]), n=len(r["qs"]))
            if len(ctx.samples) < 6 and (ntab % 97 == 1):
                ctx.sample({"in": dict(r, qs=r["qs"][:3]), "out": {k: v[:3] for k, v in raw.items()}})
            if len(cases) >= (400 if r["P"] < 3 else 150):
                flush()
        flush()
    ctx.extra["tables"] = ntab
    ctx.exhaustive = True


def replay(ctx, body):
    inp = body["record"]["inp"]
    out, raw = run_table(inp)
    ctx.case(key="replay", n=len(inp["qs"]))
    ctx.sample({"in": dict(inp, qs=inp["qs"][:3])})
    judge(ctx, [{"in": inp, "out": out}], [raw])
