"""C47 Fracture network and data files round-trip.

spec/ref/FileRoundTrip.tla       the abstract content of the three file kinds and when two contents are the same
spec/ref/FileRoundTripEnum.tla   TLC enumerates networks (catalogue sequences), data array sets and every reader / writer option
spec/trace/J_FileRoundTrip.tla   TLC judges what was read back against what was written

Real code: FractureNetwork2d.to_csv -> fracture_importer.network_2d_from_csv (with_header / skip_header, tagcols,
max_num_fracs, return_frac_id, domain), FractureNetwork3d.to_csv -> network_3d_from_csv (domain / has_domain),
txt_io.export_data_to_txt -> read_data_from_txt.  Python builds the objects from the enumerated integers, calls the real writer
on a file in ctx.work and the real reader on that file, and converts the doubles to rationals."""
from __future__ import annotations

import numpy as np

from .. import codec, tlc
from ._casefiles import judge_files

LEVEL = "exploration"
CLAUSES = ["SameFractures", "FractureIds", "SameDomain", "SameArrays", "TwoDimArrays"]


def _txt_single_array(rec):
    """read_data_from_txt on a file with ONE array: np.loadtxt(unpack=True) returns a 1-D array, zip(names, values) pairs the
    name with its first entry (length >= 2: all but the first value lost) or fails on a 0-d array (length 1)"""
    inp = rec["inp"]
    return rec["clause"] in ("SameArrays", "TwoDimArrays") and inp["kind"] == "txt" and len(inp["arrays"]) == 1 \
        and len(inp["arrays"][0]) >= 1


def _txt_empty_arrays(rec):
    """arrays of length 0: the file has only the header line, read_data_from_txt returns an empty dictionary (names lost)"""
    inp = rec["inp"]
    return rec["clause"] in ("SameArrays", "TwoDimArrays") and inp["kind"] == "txt" and all(len(a) == 0 for a in inp["arrays"])


MATCHERS = {"txt_single_array": _txt_single_array, "txt_empty_arrays": _txt_empty_arrays}


# ---------------------------------------------------------------------------------------------------
def enc(x):
    try:
        if not np.isfinite(x):
            return [0, 0]
        return codec.rat(float(x), 1000)
    except codec.Inexact:
        return [0, 0]


def enc_pts(p):
    """(nd, n) array -> list of n points of rationals"""
    p = np.asarray(p, dtype=float)
    return [[enc(x) for x in p[:, j]] for j in range(p.shape[1])]


class Stage(Exception):
    def __init__(self, stage, exc):
        super().__init__(f"{type(exc).__name__}: {exc}"[:300])
        self.stage = stage


def staged(stage, fn, *a, **kw):
    try:
        return fn(*a, **kw)
    except (MemoryError, KeyboardInterrupt):
        raise
    except Exception as e:  # noqa: BLE001 - an exception of the code under test is an observation
        raise Stage(stage, e) from e


def net2d(inp, path):
    import porepy as pp
    from porepy.fracs import fracture_importer as fi

    dom = None
    if inp["dom"]:
        b = [v / 2.0 for v in inp["box"]]
        dom = pp.Domain({"xmin": b[0], "xmax": b[1], "ymin": b[2], "ymax": b[3]})

    def build():
        fracs = [pp.LineFracture(np.array([[f[0], f[2]], [f[1], f[3]]], dtype=float) / 2.0) for f in inp["fr"]]
        return pp.create_fracture_network(fracs, dom) if dom is not None else pp.create_fracture_network(fracs)

    net = staged("build", build)
    out = dict(wrote=[enc_pts(f.pts) for f in net.fractures], read=[], ids=[])
    staged("write", net.to_csv, path, with_header=inp["hdr"])
    kw = {}
    if inp["tag"]:
        # a tag column (the reader's tagcols) appended to every line of the written file: a text transformation of the file
        lines = path.read_text().splitlines()
        path.write_text("\n".join(ln + (",TAG" if ln.startswith("#") else f",{7 + i}") for i, ln in enumerate(lines)) + "\n")
        kw["tagcols"] = [5]
    if not inp["hdr"]:
        kw["skip_header"] = 0
    if inp["maxn"] >= 0:
        kw["max_num_fracs"] = inp["maxn"]
    if inp["dom"]:
        kw["domain"] = dom
    res = staged("read", fi.network_2d_from_csv, path, return_frac_id=inp["ids"], **kw)
    if inp["ids"]:
        res, ids = res
        out["ids"] = [int(i) for i in np.asarray(ids).ravel()]
    out["read"] = [enc_pts(f.pts) for f in res.fractures]
    return out


def box3(domain):
    bb = domain.bounding_box
    return [enc(bb[k]) for k in ("xmin", "ymin", "zmin", "xmax", "ymax", "zmax")]


def net3d(inp, path):
    import porepy as pp
    from porepy.fracs import fracture_importer as fi

    dom = None
    if inp["dom"]:
        b = [v / 2.0 for v in inp["box"]]
        dom = pp.Domain({"xmin": b[0], "ymin": b[1], "zmin": b[2], "xmax": b[3], "ymax": b[4], "zmax": b[5]})

    def build():
        fracs = [pp.PlaneFracture(np.array(p, dtype=float).T / 2.0) for p in inp["fr"]]
        return pp.create_fracture_network(fracs, dom) if dom is not None else pp.create_fracture_network(fracs)

    net = staged("build", build)
    out = dict(wrote=[enc_pts(f.pts) for f in net.fractures], read=[], boxw=box3(dom) if dom is not None else [], boxr=[])
    if dom is not None:
        staged("write", net.to_csv, path, domain=dom)
    else:
        staged("write", net.to_csv, path)
    res = staged("read", fi.network_3d_from_csv, path, has_domain=bool(inp["dom"]))
    out["read"] = [enc_pts(f.pts) for f in res.fractures]
    if inp["dom"] and res.domain is not None:
        out["boxr"] = box3(res.domain)
    return out


def txt(inp, path):
    from porepy.utils.txt_io import TxtData, export_data_to_txt, read_data_from_txt

    data = []
    for name, a in zip(inp["names"], inp["arrays"]):
        arr = np.array(a, dtype=float) / 2.0
        shape = {"1d": (len(a),), "row": (1, len(a)), "col": (len(a), 1), "sq": (2, 2)}[inp["shape"]]
        kw = {} if inp["fmt"] == "default" else {"format": inp["fmt"]}
        data.append(TxtData(header=name, array=arr.reshape(shape), **kw))
    staged("write", export_data_to_txt, data, path)
    import warnings

    with warnings.catch_warnings():
        warnings.simplefilter("ignore")  # np.loadtxt warns about a file without data rows
        res = staged("read", read_data_from_txt, path)
    names = list(res.keys())
    return dict(names=names, vals=[[enc(x) for x in np.atleast_1d(np.asarray(res[k], dtype=float)).ravel()] for k in names])


EMPTY = dict(wrote=[], read=[], ids=[], boxw=[], boxr=[], names=[], vals=[])


def execute(ctx, inp, idx):
    d = ctx.work / "io"
    d.mkdir(exist_ok=True)
    path = d / (f"{idx}.csv" if inp["kind"] != "txt" else f"{idx}.txt")
    fn = {"net2d": net2d, "net3d": net3d, "txt": txt}[inp["kind"]]
    try:
        out = dict(EMPTY, **fn(inp, path), ok=True, err="", stage="done")
    except Stage as e:
        out = dict(EMPTY, ok=False, err=str(e), stage=e.stage)
    try:
        path.unlink()
    except FileNotFoundError:
        pass
    return out


# ---------------------------------------------------------------------------------------------------
def enumerate_inputs(ctx):
    q = ctx.quick
    consts = dict(Kinds={"net2d", "net3d", "txt"}, NCat2=4 if q else 6, MaxLen2=3 if q else 4, NCat3=5 if q else 6, MaxLen3=3,
                  MaxArrays=3, MaxLenTxt=4, Offs={0, 3} if q else {0, 1, 3, 6})
    m, cf = tlc.gen(ctx.work / "enum", "MC_FileRoundTripEnum", "FileRoundTripEnum", consts, invariants=["Emit", "Laws"])
    return [r for batch in ctx.tlc(m, cf, workers=8, allow_violation=False).records for r in batch]


def describe(inp, out):
    k = inp["kind"]
    if k == "net2d":
        s = (f"2D network fr(x2)={inp['fr']} with_header={inp['hdr']} max_num_fracs={inp['maxn']} tagcol={inp['tag']} "
             f"domain/ids={inp['dom']}")
    elif k == "net3d":
        s = f"3D network fr(x2)={inp['fr']} domain={inp['dom']}"
    else:
        s = f"txt names={inp['names']} arrays(x2)={inp['arrays']} shape={inp['shape']} fmt={inp['fmt']} read={out['names']}:{out['vals']}"
    return s + (f" [{out['stage']}] {out['err']}" if not out["ok"] else "")


def class_key(inp):
    k = inp["kind"]
    if k == "net2d":
        return (k, len(inp["fr"]), inp["hdr"], min(inp["maxn"], 1), inp["tag"], inp["dom"])
    if k == "net3d":
        return (k, tuple(len(p) for p in inp["fr"]), inp["dom"])
    return (k, len(inp["arrays"]), len(inp["arrays"][0]), inp["shape"], inp["fmt"])


def judge(ctx, cases):
    for lo in range(0, len(cases), 5000):
        part = cases[lo:lo + 5000]
        for v in judge_files(ctx, "J_FileRoundTrip", part, ["Judgement"]):
            c = part[v["case"] - 1]
            ctx.violation(v["clause"], dict(inp=c["in"], err=c["out"]["err"]), describe(c["in"], c["out"]))


def run(ctx):
    ctx.rule = ("TLC enumerates: every sequence of 1..3 (thorough 1..4) distinct line fractures of a catalogue of 4 (thorough 6) - shared "
                "end points, a reversed duplicate, crossings, negative and half-integer coordinates - x with_header x "
                "max_num_fracs in {not given, 0..n} x tag column x (domain + return_frac_id); every sequence of 1..3 distinct "
                "planar convex polygons (3-5 vertices) of a catalogue of 5 (6) x domain written or not; 1..3 named arrays "
                "(names with underscores) of length 0..4 with values from {0, 1/2, -1/2, 2, -3, 12.5, 125, -3/2} by position, "
                "as 1-D arrays, (1,L) rows, (L,1) columns, (2,2) squares, default format and '%.6f'.  evaluations = file round "
                "trips through the real writer and reader; class = (kind, sizes, options)")
    ctx.assumptions = [
        "writer and reader options agree (with_header=False is read with skip_header=0; a domain line is written iff "
        "has_domain=True): a mismatch is a usage error, not a round trip.  NOTE the defaults do NOT agree: "
        "FractureNetwork3d.to_csv(file) writes no domain line while network_3d_from_csv(file) expects one and silently takes the "
        "first fracture for it",
        "what was written = the fractures of the network object handed to to_csv (its constructor may merge points / rotate the "
        "vertex order); fractures are compared as bags, 2D fractures as unordered end point pairs, polygons up to cyclic shift and "
        "reversal",
        "the 2D csv format has no tag or domain column: the tag column is appended to the written file by the harness (text level) "
        "to exercise tagcols, the domain is handed to both constructor and reader; polyline files (format 2) and elliptic fracture "
        "files have no writer and are not covered",
        "txt values have at most three significant digits (the default format '%2.2e' keeps three); 2-D arrays are outside the "
        "one-column-per-array format: a refusal by the writer is accepted, a silently different content is not; values of "
        "length-1 arrays may come back as 0-d scalars (compared by value)",
    ]
    recs = enumerate_inputs(ctx)
    cases = []
    for i, inp in enumerate(recs):
        out = execute(ctx, inp, i)
        cases.append({"in": inp, "out": out})
        ctx.case(key=class_key(inp))
        if len(ctx.samples) < 6 and inp["kind"] not in [s["in"]["kind"] for s in ctx.samples[-1:]] and \
                sum(1 for s in ctx.samples if s["in"]["kind"] == inp["kind"]) < 2 and (inp["kind"] != "txt" or len(inp["arrays"]) > 1):
            ctx.sample({"in": inp, "out": out})
    judge(ctx, cases)
    ctx.exhaustive = True


def replay(ctx, body):
    inp = body["record"]["inp"]
    out = execute(ctx, inp, 0)
    ctx.case(key="replay")
    ctx.sample({"in": inp, "out": out})
    judge(ctx, [{"in": inp, "out": out}])
