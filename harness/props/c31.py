"""C31 Geometric predicates and point orderings agree with exact oracles.

spec/ref/Predicates.tla          exact integer reference predicates + validity predicates for orderings
spec/ref/PredicateFamilies.tla   the input families: TLC enumerates every call (spec -> code), checks two model laws
spec/trace/J_Predicates.tla      one invariant per property clause; TLC judges every recorded call (code -> spec)

Python only: decodes an emitted call, runs the real porepy function, encodes the result (booleans / index lists)."""
from __future__ import annotations

import math

import numpy as np

from .. import tlc

LEVEL = "model_checking"

FNS = ["is_ccw_polygon", "is_ccw_polyline", "point_in_polygon", "point_in_cell", "point_in_polyhedron", "half_space",
       "points_are_planar", "points_are_planar_normal", "points_are_collinear", "sort_point_pairs",
       "sort_multiple_point_pairs", "sort_points_on_line", "sort_point_plane", "sort_triangle_edges"]
CLAUSES = ["CcwPolygon", "CcwPolyline", "PolygonAgree", "CellAgree", "PolyhedronAgree", "PolyhedronAgreeSupportPlane",
           "HalfSpaceAgree", "PlanarAgree", "PlanarNormalAgree", "CollinearAgree",
           "PairSortValid", "MultiPairSortValid", "LineSortValid", "PlaneSortValid", "TriSortValid"]
VECTORISED = {"is_ccw_polyline", "point_in_polygon", "point_in_cell", "point_in_polyhedron", "half_space"}

# known-finding recognisers: the class is decided by TLC (the clause name is the structural class)
MATCHERS = {
    # INTERIOR point, off the surface, but in the supporting plane of a face: reported outside (the clause is evaluated
    # only for such points; out False + clause false = the exact answer is inside).  An exterior point reported inside,
    # an exception, or any point outside all supporting planes is NOT matched.
    "pih_support_plane": lambda r: r["clause"] == "PolyhedronAgreeSupportPlane" and r["fn"] == "point_in_polyhedron"
    and r["ok"] is True and r["out"] is False,
}


def _arr(pts, den=1):
    """list of points -> (dim, n) float array"""
    return np.array(pts, dtype=float).T.reshape((len(pts[0]), -1)) / den


def call(fn, inp):
    """Run the real function on one decoded input; returns the encoded output (may raise)."""
    import porepy as pp

    gpc = pp.geometry_property_checks
    den = inp.get("den", 1)
    if fn == "is_ccw_polygon":
        return bool(gpc.is_ccw_polygon(_arr(inp["poly"], den)))
    if fn == "is_ccw_polyline":
        pts = inp["pts"] if "pts" in inp else [inp["p"]]
        r = gpc.is_ccw_polyline(np.array(inp["p1"], float) / den, np.array(inp["p2"], float) / den, _arr(pts, den))
        return [bool(x) for x in r]
    if fn == "point_in_polygon":
        pts = inp["pts"] if "pts" in inp else [inp["p"]]
        return [bool(x) for x in gpc.point_in_polygon(_arr(inp["poly"], den), _arr(pts, den))]
    if fn == "point_in_cell":  # one call per point; polygon and point in the plane z = 0
        pts = inp["pts"] if "pts" in inp else [inp["p"]]
        poly3 = np.vstack([_arr(inp["poly"], den), np.zeros(len(inp["poly"]))])
        return [bool(gpc.point_in_cell(poly3.copy(), np.array([q[0] / den, q[1] / den, 0.0]), if_make_planar=bool(inp["planar"])))
                for q in pts]
    if fn == "point_in_polyhedron":
        pts = inp["pts"] if "pts" in inp else [inp["p"]]
        faces = [_arr(f, den) for f in inp["faces"]]
        return [bool(x) for x in gpc.point_in_polyhedron(faces, _arr(pts, den))]
    if fn == "half_space":
        pts = inp["pts"] if "pts" in inp else [inp["p"]]
        r = pp.half_space.point_inside_half_space_intersection(_arr(inp["n"]), _arr(inp["x0"], den), _arr(pts, den))
        return [bool(x) for x in r]
    if fn == "points_are_planar":
        return bool(gpc.points_are_planar(_arr(inp["pts"], den)))
    if fn == "points_are_planar_normal":
        return bool(gpc.points_are_planar(_arr(inp["pts"], den), normal=np.array(inp["normal"], float)))
    if fn == "points_are_collinear":
        return bool(gpc.points_are_collinear(_arr(inp["pts"], den)))
    if fn == "sort_point_pairs":
        lines = np.array(inp["lines"], dtype=int).T
        s, ind = pp.sort_points.sort_point_pairs(lines.copy(), is_circular=bool(inp["circular"]))
        return dict(cols=[[int(x) for x in c] for c in np.asarray(s).T], ind=[int(i) for i in ind])
    if fn == "sort_multiple_point_pairs":
        chains = inp["chains"]
        lines = np.vstack([np.array(c, dtype=np.int64).T for c in chains])
        s = np.asarray(pp.sort_points.sort_multiple_point_pairs(lines.copy()))
        return [[[int(a), int(b)] for a, b in zip(s[2 * c], s[2 * c + 1])] for c in range(len(chains))]
    if fn == "sort_points_on_line":
        return [int(i) for i in pp.sort_points.sort_points_on_line(_arr(inp["pts"], den))]
    if fn == "sort_point_plane":
        nrm = np.array(inp["normal"], float) if inp.get("give_normal") else None
        r = pp.sort_points.sort_point_plane(_arr(inp["pts"], den), np.array(inp["centre"], float) / den, nrm)
        return [int(i) for i in r]
    if fn == "sort_triangle_edges":
        t = np.array(inp["tris"], dtype=int).T.copy()
        return [[int(x) for x in c] for c in pp.sort_points.sort_triangle_edges(t).T]
    raise ValueError(fn)


EMPTY = {"sort_point_pairs": dict(cols=[], ind=[])}


def execute(rec):
    """one emitted call -> list of cases [fn, in, ok, out] (one per point for the vectorised predicates)"""
    fn = rec["fn"]
    inp = {k: v for k, v in rec.items() if k != "fn"}
    try:
        out, ok, err = call(fn, inp), True, ""
    except Exception as e:  # the property demands an answer on every input of the family
        out, ok, err = None, False, f"{type(e).__name__}: {e}"[:200]
    if fn in VECTORISED:
        base = {k: v for k, v in inp.items() if k != "pts"}
        pts = inp["pts"]
        return [dict(fn=fn, **{"in": dict(base, p=p)}, ok=ok, out=(out[i] if ok else False), err=err)
                for i, p in enumerate(pts)]
    if not ok:
        out = EMPTY.get(fn, False if fn.startswith(("is_", "points_")) else [])
    return [dict(fn=fn, **{"in": inp}, ok=ok, out=out, err=err)]


def random_calls(ctx, n):
    """seeded extra inputs over a larger lattice: star-shaped lattice polygons (sorted by angle around the
    origin) against random half-lattice points.  The judge keeps only simple polygons and off-boundary points."""
    rng = ctx.rng
    recs = []
    for _ in range(n):
        k = rng.randint(4, 9)
        dirs = {}
        while len(dirs) < k:
            x, y = rng.randint(-6, 6), rng.randint(-6, 6)
            if (x, y) == (0, 0):
                continue
            g = math.gcd(abs(x), abs(y))
            dirs.setdefault((x // g, y // g), (x, y))
        poly = sorted(dirs.values(), key=lambda p: math.atan2(p[1], p[0]))
        if rng.random() < 0.5:
            poly.reverse()
        sh = (rng.randint(-2, 2), rng.randint(-2, 2))
        poly2 = [[2 * (x + sh[0]), 2 * (y + sh[1])] for x, y in poly]
        pts = [[rng.randint(-15, 15) + 2 * sh[0], rng.randint(-15, 15) + 2 * sh[1]] for _ in range(25)]
        recs.append(dict(fn="point_in_polygon", den=2, poly=poly2, pts=pts))
    return recs


def _detail(c):
    s = f"{c['fn']} in={c['in']} ok={c['ok']} out={c['out']} {c.get('err', '')}"
    return s[:400]


def judge_cases(ctx, cases, tag=None):
    n = 0
    for v in ctx.judge("J_Predicates", cases, CLAUSES, tag=tag, timeout=1800):
        c = cases[v["case"] - 1]
        ctx.violation(v["clause"], c, _detail(c))
        n += 1
    return n


def run(ctx):
    import os

    fns = [f for f in FNS if f in os.environ.get("VERIF_ONLY", ",".join(FNS)).split(",")]  # development aid
    ctx.rule = ("TLC enumerates every call of PredicateFamilies.tla (lattice / half-lattice points against the polygon and "
                "polyhedron catalogues, boundary points removed by exact predicates; all scrambles of chains, lines, planar "
                "stars and triangulations); each call is executed on the real porepy function and judged by TLC against "
                "Predicates.tla; a case is non-trivial when its family guard holds (key = function x outcome / size)")
    ctx.assumptions = ["integer or half-integer coordinates; points on the boundary (tolerance band) excluded by exact predicates",
                       "is_ccw_polygon: any vertex sequence with non-zero signed area; reference = sign of the shoelace sum",
                       "points_are_planar without normal: not all points collinear (compute_normal needs three non-aligned points)",
                       "sort_point_plane: points coplanar with the centre, pairwise different rays from the centre",
                       "sort_triangle_edges: edge-manifold, edge-connected, orientable triangulations",
                       "pair sorters: one closed cycle (circular) or one open path per chain"]
    m, cf = tlc.gen(ctx.work / "enum", "MC_PredicateFamilies", "PredicateFamilies",
                    dict(Fns=set(fns), Big=not ctx.quick), invariants=["Emit", "LawConvex2", "LawConvex3"])
    res = ctx.tlc(m, cf, workers=8, allow_violation=False, timeout=1800)
    recs = list(res.records)
    emitted = len(recs)
    recs += random_calls(ctx, 40 if ctx.quick else 600)
    cases = []
    for r in recs:
        cases += execute(r)
    per_fn = {}
    for c in cases:
        per_fn[c["fn"]] = per_fn.get(c["fn"], 0) + 1
        if c["fn"] in VECTORISED or isinstance(c["out"], bool):
            key = (c["fn"], str(c["out"]))
        elif c["fn"] == "sort_point_pairs":
            key = (c["fn"], len(c["in"]["lines"]), c["in"]["circular"])
        else:
            key = (c["fn"], len(str(c["in"])) // 40)
        ctx.case(key=key, nontrivial=c["ok"])
    for fn in FNS:
        ex = next((c for c in cases if c["fn"] == fn), None)
        if ex is not None:
            ctx.sample({k: v for k, v in ex.items() if k != "err"}, cap=len(FNS))
    ctx.extra["calls_emitted_by_tlc"] = emitted
    ctx.extra["cases_per_function"] = per_fn
    judge_cases(ctx, cases)
    ctx.exhaustive = True  # every emitted call was executed and judged


def replay(ctx, body):
    rec = body["record"]
    fn, inp = rec["fn"], rec["in"]
    r = dict(inp, fn=fn)
    if fn in VECTORISED:
        r["pts"] = [r.pop("p")]
    cases = execute(r)
    for c in cases:
        ctx.case(key=("replay", c["fn"]))
        ctx.sample(c)
    judge_cases(ctx, cases, tag="replay")
