"""C28 Segment intersection agrees with exact arithmetic.

spec/ref/SegIsect.tla     exact 2D / 3D segment intersection over integer points (Rat), model laws
spec/ref/SegIsectEnum.tla TLC enumerates every canonical pair of segments of a lattice box (+ laws)
spec/trace/J_SegIsect.tla property clauses Returns, Exact, Kind, Points, OrderIndependent judged by TLC on the
                          outputs of pp.intersections.segments_2d / segments_3d

Python only: calls the real functions (all 8 argument orders of every pair), converts the returned
doubles to [n, d] rationals, and dispatches TLC's verdict records."""
from __future__ import annotations

import itertools

import numpy as np

from .. import codec, tlc

LEVEL = "model_checking"
CLAUSES = ["WellFormed", "Returns", "Exact", "Kind", "Points", "OrderIndependent"]
LAWS = ["Emit", "LawKind", "LawOnBoth", "LawSym", "LawOrient2", "LawLift", "LawPerm3", "LawTouch"]
MAXDEN = 10 ** 4
CAP = 20  # replay files written per clause
WORKERS = 6  # the machine is shared; more workers only add contention for these short runs
MATCHERS: dict = {}


def _orders(a, b, c, d):
    out = []
    for swap, f1, f2 in itertools.product((0, 1), repeat=3):
        s1 = (b, a) if f1 else (a, b)
        s2 = (d, c) if f2 else (c, d)
        out.append(list(s2 + s1) if swap else list(s1 + s2))
    return out


def _call(dim, args):
    import porepy as pp

    fn = pp.intersections.segments_2d if dim == 2 else pp.intersections.segments_3d
    try:
        res = fn(*[np.array(x, dtype=float) for x in args])
    except Exception as e:  # the family is inside the documented domain: an exception is a wrong answer
        return dict(args=args, ok=False, pts=[], err=type(e).__name__, raw=repr(e)[:200])
    if res is None:
        return dict(args=args, ok=True, pts=[], err="")
    res = np.asarray(res, dtype=float)
    if res.ndim != 2 or res.shape[0] != dim:
        raise RuntimeError(f"unexpected result shape {res.shape} for {args}")
    try:
        pts = [codec.rvec(res[:, k], MAXDEN) for k in range(res.shape[1])]
    except codec.Inexact:
        return dict(args=args, ok=False, pts=[], err="", raw=res.tolist())
    return dict(args=args, ok=True, pts=pts, err="")


def make_case(dim, a, b, c, d, orders=None):
    inp = dict(dim=dim, a=list(a), b=list(b), c=list(c), d=list(d))
    orders = orders or _orders(list(a), list(b), list(c), list(d))
    return {"in": inp, "outs": [_call(dim, [list(p) for p in g]) for g in orders]}


def _for_tlc(case):
    return {"in": case["in"], "outs": [dict(args=o["args"], ok=o["ok"], pts=o["pts"], err=o["err"]) for o in case["outs"]]}


def _enumerate(ctx, boxes):
    m, cf = tlc.gen(ctx.work / "enum", "MC_SegIsectEnum", "SegIsectEnum", dict(Boxes=set(boxes)), invariants=LAWS)
    return ctx.tlc(m, cf, workers=WORKERS, allow_violation=False)


def _seeded_3d(rng, box, n):
    """Coplanar (hence possibly intersecting) or parallel pairs of lattice segments: random pairs in 3D
    are almost always skew.  Input generation only; the expected result comes from TLC."""
    pts = [np.array(p) for p in itertools.product(range(box + 1), repeat=3)]
    out = []
    while len(out) < n:
        a, b, c = (pts[rng.randrange(len(pts))] for _ in range(3))
        if (a == b).all():
            continue
        nrm = np.cross(b - a, c - a)
        cand = [d for d in pts if not (d == c).all() and int(np.dot(nrm, d - a)) == 0]
        if rng.random() < 0.25:  # parallel / collinear
            cand = [d for d in cand if not np.cross(b - a, d - c).any()]
        if not cand:
            continue
        d = cand[rng.randrange(len(cand))]
        out.append(tuple(tuple(int(v) for v in p) for p in (a, b, c, d)))
    return out


def _report(ctx, per, clause, record, detail):
    """ctx.violation, but at most CAP replay files per clause (known findings are always routed through so
    that their hits are counted)."""
    known = False
    for k in ctx.known:
        fn = ctx.matchers.get(k.get("matcher"))
        try:
            known = known or (k.get("status", "known") == "known" and fn is not None and bool(fn({"clause": clause, **record})))
        except Exception:
            pass
    if not known:
        per[clause] = per.get(clause, 0) + 1
        if per[clause] > CAP:
            ctx.extra["violations_not_written"] = ctx.extra.get("violations_not_written", 0) + 1
            return
    ctx.violation(clause, record, detail)


def _judge(ctx, cases, tag):
    verdicts = ctx.judge("J_SegIsect", [_for_tlc(c) for c in cases], CLAUSES, tag=tag, timeout=1500, workers=WORKERS)
    per = {}
    for v in verdicts:
        case = cases[v["case"] - 1]
        if v["clause"] == "WellFormed":
            raise RuntimeError(f"harness self-check failed on {case['in']}")
        i = case["in"]
        got = sorted({str(o.get("raw", o["pts"])) for o in case["outs"]})
        _report(ctx, per, v["clause"], case,
                f"segments_{i['dim']}d {i['a']}-{i['b']} x {i['c']}-{i['d']}: returned point sets {got}"[:400])


def run(ctx):
    ctx.rule = ("one case = one unordered pair of non-degenerate lattice segments; the real function is called with all 8 "
                "argument orders (evaluations = real calls); classes = (dim, exact kind none/point/segment, parallel or "
                "not); 2D: every pair with end points in {0..3}^2; 3D: every pair in {0..1}^3 (quick) / {0..2}^3 "
                "(thorough) plus seeded coplanar and parallel pairs from {0..2}^3 and {0..3}^3")
    ctx.assumptions = ["integer end points (degeneracies are exact: well separated from the 1e-8 tolerances)",
                       "segments are non-degenerate (start # end)"]
    boxes = [(2, 3), (3, 1)] if ctx.quick else [(2, 3), (3, 1), (3, 2)]
    res = _enumerate(ctx, boxes)
    batches = []
    for dim, box in boxes:
        cases = []
        for r in res.records:
            if (r["dim"], r["box"]) == (dim, box):
                cases.append(make_case(dim, r["a"], r["b"], r["c"], r["d"]))
                ctx.case(key=(dim, r["kind"], r["par"]), n=8)
        if not cases:
            raise RuntimeError("enumerator emitted nothing")
        ctx.extra[f"pairs_{dim}d_box{box}"] = len(cases)
        batches.append((f"j{dim}_{box}", cases))
    seeded = []
    for box, n in ((2, 1500), (3, 1500)) if ctx.quick else ((3, 20000),):
        for a, b, c, d in _seeded_3d(ctx.rng, box, n):
            seeded.append(make_case(3, a, b, c, d))
            ctx.case(key=None, n=8)
    ctx.extra["pairs_3d_seeded"] = len(seeded)
    batches.append(("jseed", seeded))
    # one TLC run judges everything (split only so that a JSON file stays moderate)
    allc = [c for _, cases in batches for c in cases]
    for k in range(0, len(allc), 20000):
        _judge(ctx, allc[k:k + 20000], f"judge{k}")
    for tag, cases in batches:
        for c in cases:
            if any(o["pts"] for o in c["outs"]):
                ctx.sample({"in": c["in"], "out": c["outs"][0]["pts"]}, cap=6)
                break
    for c in batches[0][1]:
        if len(c["outs"][0]["pts"]) == 2:
            ctx.sample({"in": c["in"], "out": c["outs"][0]["pts"]}, cap=6)
            break
    ctx.exhaustive = True  # within the enumerated boxes; the seeded 3D pairs are extra
    ctx.explanation = ctx.rule + ". TLC (SegIsectEnum) lists the pairs and checks the reference's own laws; TLC (J_SegIsect) " \
        "evaluates the clauses Returns, Exact, Kind, Points, OrderIndependent on every recorded call."


def replay(ctx, body):
    rec = body["record"]
    i = rec["in"]
    orders = [o["args"] for o in rec["outs"]]
    case = make_case(i["dim"], i["a"], i["b"], i["c"], i["d"], orders=orders)
    ctx.case(key="replay", n=len(orders))
    ctx.sample(case)
    _judge(ctx, [case], "replay")
