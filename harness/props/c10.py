"""C10 Simulation driver keeps solution state consistent across failures.

spec/sys/SimDriver.tla (= TimeStepper x token storage at callback grain) generates the failure-injection
scripts (exhaustively on the small configuration, by simulation on the larger ones); each script is run
through the REAL run_time_dependent_model on a small nonlinear single-phase flow model whose
check_convergence returns the scripted outcome; snapshots taken after the real callbacks are merged into a
prefix tree on which TLC checks the C10 clauses (spec/trace/M_SimDriver.tla, verdict) and validates every
step against SimDriver's actions (spec/trace/T_SimDriver.tla, conformance)."""
from __future__ import annotations

import logging
import re
import warnings
from concurrent.futures import ProcessPoolExecutor

import numpy as np

from .. import explore as ex
from .. import tlc

LEVEL = "model_checking"
U = 4096
E8 = U // 8
INVS = ["HistoryIsAccepted", "EndsAtFinal", "RunEnds", "AdTimeStepIsDt", "NoOvershoot", "NoSkippedSchedule",
        "FailureRewinds"]
PROPS = ["TsIsConvergedIterate", "IterateResetOnFailure", "BeginKeepsStorage", "IterateWindow",
         "ItersKeepTimeSteps", "Mono"]
DESIGN_INVS = ["NoOvershoot", "NoSkippedSchedule", "HitsAll", "DtBounds", "FailureRewinds",
               "RaiseOnlyWhenExhausted", "NoCrash", "HistoryIsAccepted", "EndsAtFinal", "AdTimeStepIsDt",
               "NewtonBounded"]
DESIGN_PROPS = ["Mono", "TsIsConvergedIterate", "IterateResetOnFailure", "IterateWindow"]

CONFIGS = {
    # schedule etc. in eighths; over/under/recomp as fractions
    "small": dict(sched=[0, 8, 16], dt_init=8, dt_min=2, dt_max=8, over=(3, 2), under=(1, 2), recomp=(1, 2),
                  recomp_max=2, budget=2, max_it=1, ts_depth=1, it_depth=1, frac=False),
    "depth2": dict(sched=[0, 8, 12], dt_init=4, dt_min=1, dt_max=8, over=(3, 2), under=(1, 2), recomp=(1, 2),
                   recomp_max=2, budget=2, max_it=2, ts_depth=2, it_depth=2, frac=False),
    "frac": dict(sched=[0, 4, 16], dt_init=4, dt_min=1, dt_max=8, over=(2, 1), under=(1, 2), recomp=(1, 2),
                 recomp_max=1, budget=3, max_it=2, ts_depth=2, it_depth=1, frac=True),
}


def consts_of(c, track):
    it_max = c["max_it"] + 1
    return dict(Schedule=[x * E8 for x in c["sched"]], DtInit=c["dt_init"] * E8, DtMin=c["dt_min"] * E8,
                DtMax=c["dt_max"] * E8, IterLow=1, IterHigh=it_max, ItChoices=set(range(1, it_max + 1)),
                OverN=c["over"][0], OverD=c["over"][1], UnderN=c["under"][0], UnderD=c["under"][1],
                RecompN=c["recomp"][0], RecompD=c["recomp"][1], RecompMax=c["recomp_max"], LandingFix=True,
                FaultBudget=c["budget"], MaxIt=c["max_it"], TsDepth=c["ts_depth"], ItDepth=c["it_depth"],
                TrackHist=track)


# ------------------------------------------------------------------------------------------ real model
def _scaled(x):
    v = float(x) * U
    return int(v) if v == int(v) and abs(v) < 2 ** 30 else None


def run_script(args):
    """Run one scripted simulation through the real driver; returns the list of (event, projection)."""
    c, script = args
    import os
    import tempfile

    os.chdir(tempfile.mkdtemp(prefix="c10run_", dir=os.environ.get("VERIF_WORK")))   # inside the check's work directory: removed with it
    warnings.filterwarnings("ignore")
    logging.disable(logging.CRITICAL)
    import porepy as pp

    class Geo(pp.ModelGeometry):
        def set_domain(self):
            self._domain = pp.Domain({"xmin": 0, "xmax": 2, "ymin": 0, "ymax": 2})

        def grid_type(self):
            return "cartesian"

        def meshing_arguments(self):
            return {"cell_size": 1.0}

        def set_fractures(self):
            self._fractures = [pp.LineFracture(np.array([[0.0, 2.0], [1.0, 1.0]]))] if c["frac"] else []

    class Model(Geo, pp.SinglePhaseFlow):
        def __init__(self, params):
            super().__init__(params)
            self._script = list(script)
            self.trace = []
            self._tokens = {}

        # depth of the stored histories
        @property
        def time_step_indices(self):
            return np.arange(c["ts_depth"])

        @property
        def iterate_indices(self):
            return np.arange(c["it_depth"])

        # a non-trivial nonlinear problem: pressure 1 on the west boundary, compressible fluid
        def bc_values_pressure(self, bg):
            vals = np.zeros(bg.num_cells)
            sides = self.domain_boundary_sides(bg)
            vals[sides.west] = 1.0
            return vals

        def _is_nonlinear_problem(self):
            return True

        # --- projection
        def _tok(self, v):
            k = v.tobytes()
            if k not in self._tokens:
                self._tokens[k] = len(self._tokens)
            return self._tokens[k]

        def _snap(self, ev, **extra):
            tm = self.time_manager
            es = self.equation_system
            t, d, a = _scaled(tm.time), _scaled(tm.dt), _scaled(self.ad_time_step.value(es))
            exact = None not in (t, d, a)
            p = dict(exact=exact, time=t or 0, dt=d or 0, adt=a or 0, sidx=int(tm._scheduled_idx) + 1,
                     recomp=int(tm._recomp_num), about=bool(tm._is_about_to_hit_schedule), tindex=int(tm.time_index),
                     newton=int(self.nonlinear_solver_statistics.num_iteration),
                     itv=[self._tok(es.get_variable_values(iterate_index=int(i))) for i in self.iterate_indices],
                     tsv=[self._tok(es.get_variable_values(time_step_index=int(i))) for i in self.time_step_indices])
            self.trace.append((dict(ev=ev, **extra), p))

        # --- scripted convergence + snapshots after the real callbacks
        def check_convergence(self, nonlinear_increment, residual, reference_residual, nl_params):
            o = self._script.pop(0) if self._script else "converge"
            self._snap("iter", o=o)
            return (o == "converge", o == "diverge")

        def before_nonlinear_loop(self):
            super().before_nonlinear_loop()
            self._snap("begin")

        def after_nonlinear_convergence(self):
            super().after_nonlinear_convergence()
            self._snap("conv")

        def after_nonlinear_failure(self):
            try:
                super().after_nonlinear_failure()
            except ValueError:
                self._snap("fail", raised=True)
                raise
            self._snap("fail", raised=False)

    it_max = c["max_it"] + 1
    tm = pp.TimeManager(schedule=[x / 8 for x in c["sched"]], dt_init=c["dt_init"] / 8,
                        dt_min_max=(c["dt_min"] / 8, c["dt_max"] / 8), iter_max=it_max,
                        iter_optimal_range=(1, it_max),
                        iter_relax_factors=(c["under"][0] / c["under"][1], c["over"][0] / c["over"][1]),
                        recomp_factor=c["recomp"][0] / c["recomp"][1], recomp_max=c["recomp_max"])
    fluid = pp.FluidComponent(compressibility=0.2, density=1.0, viscosity=1.0)
    params = {"time_manager": tm, "material_constants": {"fluid": fluid}, "times_to_export": [],
              "max_iterations": c["max_it"], "nl_convergence_tol": 1e-12}
    m = Model(params)
    m.prepare_simulation()
    m._snap("init")
    err = None
    try:
        pp.run_time_dependent_model(m, {"prepare_simulation": False, "max_iterations": c["max_it"],
                                        "nl_convergence_tol": 1e-12})
    except ValueError:
        err = "ValueError"
    except Exception as e:  # any other exception ends the run: the trace shows where
        err = type(e).__name__
    # token of a freshly computed iterate is what the spec calls e.tok
    out = []
    for (e, p) in m.trace:
        if e["ev"] == "iter":
            e = dict(e, tok=p["itv"][0])
        out.append((e, p))
    return dict(script=list(script), trace=out, err=err)


def build_tree(runs):
    """Prefix tree of the runs: nodes = projections, edges = events."""
    nodes, edges, index = [], [], {}
    root = runs[0]["trace"][0][1]
    nodes.append(root)
    edges.append([])
    inexact = 0
    for r in runs:
        tr = r["trace"]
        if tr[0][1] != root:
            raise RuntimeError("runs do not share the initial state")
        if not all(p["exact"] for _, p in tr):
            inexact += 1
            continue
        n = 1
        for e, p in tr[1:]:
            key = (n, tuple(sorted(e.items())))
            m = index.get(key)
            if m is None:
                m = len(nodes) + 1
                index[key] = m
                nodes.append(p)
                edges.append([])
                edges[n - 1].append(dict(e, dst=m))
            elif nodes[m - 1] != p:
                raise RuntimeError(f"non-deterministic real run: same prefix, different state ({e})")
            n = m
    return dict(nodes=nodes, edges=edges, truncated=False, cut=[False] * len(nodes)), inexact


def scripts_from_spec(ctx, name, c, exhaustive, num):
    wd = ctx.work / f"scripts_{name}"
    m, cf = tlc.gen(wd, "MC_SimScripts", "SimDriver", consts_of(c, True), spec="SSpec", invariants=["EmitScript"],
                    constraint="ExactOnly", extra_defs="EmitScript == Terminal => PrintT(ToJson(hist))")
    if exhaustive:
        res = ctx.tlc(m, cf, workers=16, timeout=1500)
    else:
        res = ctx.tlc(m, cf, workers=1, simulate=f"num={num}", depth=120, timeout=600)
    seen, out = set(), []
    for r in res.records:
        t = tuple(r)
        if t not in seen:
            seen.add(t)
            out.append(list(r))
    return out


def check_config(ctx, name, c, exhaustive, num, pool):
    wd = ctx.work / f"cfg_{name}"
    # (1) design verdict (the spec does not change with the code: a failure here is a machinery failure)
    level = "" if not ctx.quick or name == "small" else ' /\\ TLCGet("level") <= 26'
    m, cf = tlc.gen(wd, "MC_SimDriver", "SimDriver", consts_of(c, False), spec="SSpec", invariants=DESIGN_INVS,
                    properties=DESIGN_PROPS + ([] if level else ["STermination"]), constraint="Lim",
                    extra_defs=f"Lim == exact{level}")
    des = ctx.tlc(m, cf, workers=16, allow_violation=False, timeout=1500)
    # (2) scripts from the spec, executed on the real driver
    scripts = scripts_from_spec(ctx, name, c, exhaustive, num)
    runs = list(pool.map(run_script, [(c, s) for s in scripts], chunksize=4))
    g, inexact = build_tree(runs)
    gfile = ctx.datafile(f"tree_{name}.json", g)
    mc = dict(Schedule=[x * E8 for x in c["sched"]], TsDepth=c["ts_depth"], ItDepth=c["it_depth"])
    m, cf = tlc.gen(wd, "MC_M_SimDriver", "M_SimDriver", mc, spec="MSpec", invariants=INVS, properties=PROPS)
    mon = ctx.tlc(m, cf, workers=8, env={"VERIF_GRAPH": gfile})
    m, cf = tlc.gen(wd, "MC_T_SimDriver", "T_SimDriver", consts_of(c, False), spec="TSpec", invariants=["EmitVia"])
    tr = ctx.tlc(m, cf, workers=8, env={"VERIF_GRAPH": gfile})
    return dict(name=name, cfg=c, scripts=scripts, runs=runs, graph=g, monitor=mon, trace=tr, design=des,
                inexact=inexact, exhaustive=exhaustive)


def _path_events(mon, g):
    ids = [int(x) for blk in tlc.counterexample(mon) for x in re.findall(r"/\\ node = (\d+)", blk)]
    events = []
    for a, b in zip(ids, ids[1:]):
        for e in g["edges"][a - 1]:
            if e["dst"] == b:
                events.append({k: v for k, v in e.items() if k != "dst"})
                break
    return ids, events


def judge(ctx, o):
    g, c = o["graph"], o["cfg"]
    ne = ex.n_edges(g)
    ctx.traces += len(o["runs"]) - o["inexact"]
    for r in o["runs"]:
        s = tuple(r["script"])
        ctx.case(key=(o["name"], s), nontrivial=("diverge" in s or s.count("continue") > c["max_it"]))
    ctx.extra[f"runs_{o['name']}"] = dict(scripts=len(o["scripts"]), tree_nodes=len(g["nodes"]), tree_edges=ne,
                                          design_states=o["design"].distinct, inexact_runs=o["inexact"],
                                          scripts_exhaustive=o["exhaustive"],
                                          raised_runs=sum(1 for r in o["runs"] if r["err"] == "ValueError"),
                                          other_errors=sorted({r["err"] for r in o["runs"] if r["err"] not in (None, "ValueError")}))
    mon = o["monitor"]
    if mon.violated:
        ids, events = _path_events(mon, g)
        script = [e["o"] for e in events if e["ev"] == "iter"]
        ctx.violation(mon.violated, dict(config_name=o["name"], config=c, script=script, events=events,
                                         last_state=g["nodes"][ids[-1] - 1] if ids else None),
                      f"config={o['name']} script={script}")
    taken = {tuple(r) for r in o["trace"].records}
    missing = [(n, i, e) for n, es in enumerate(g["edges"], 1) for i, e in enumerate(es, 1) if (n, i) not in taken]
    # only the first rejected edge on each branch is informative: its descendants are unreachable
    roots = [(n, i, e) for (n, i, e) in missing
             if n == 1 or any((a, j) in taken for a, es in enumerate(g["edges"], 1) for j, x in enumerate(es, 1) if x["dst"] == n)]
    for n, i, e in roots[:3]:
        ctx.drift(f"step rejected by SimDriver ({o['name']}): from={g['nodes'][n-1]} ev={e} to={g['nodes'][e['dst']-1]}")
    for _ in roots[3:]:
        ctx.drift("")


def run(ctx):
    ctx.rule = ("failure-injection scripts (outcome continue/converge/diverge of every check_convergence call, in order) are "
                "generated from SimDriver.tla (all of them for the small configuration; simulated behaviours otherwise) and each "
                "is executed through the real run_time_dependent_model; a script is non-trivial when it contains a diverged solve or "
                "a solve that exhausts max_iterations")
    ctx.assumptions = ["single-phase compressible flow on a 2x2 Cartesian grid (one fracture in configuration 'frac'); "
                       "check_convergence is overridden to return the scripted outcome (as the property anticipates)",
                       "dyadic time-stepping parameters (exact double arithmetic); runs with a non-representable clock are dropped and counted",
                       "solution vectors are compared through content tokens (byte-identical vectors share a token)"]
    plan = [("small", True, 0), ("depth2", False, 40 if ctx.quick else 2500), ("frac", False, 24 if ctx.quick else 1200)]
    if ctx.quick:
        CONFIGS["small"] = dict(CONFIGS["small"], budget=1)   # all scripts with at most one failed solve
    if not ctx.quick:
        plan.append(("depth2x", True, 0))
        CONFIGS["depth2x"] = dict(CONFIGS["depth2"], sched=[0, 8, 12], dt_init=8, dt_min=2, budget=2, max_it=1)
    outs = []
    with ProcessPoolExecutor(12) as pool:
        for name, exh, num in plan:
            outs.append(check_config(ctx, name, CONFIGS[name], exh, num, pool))
    for o in outs:
        judge(ctx, o)
    r0 = outs[0]["runs"][len(outs[0]["runs"]) // 2]
    ctx.sample(dict(config="small", script=r0["script"], events=[e for e, _ in r0["trace"]][:12], ended=r0["err"] or "final time"))
    r1 = max(outs[1]["runs"], key=lambda r: len(r["script"]))
    ctx.sample(dict(config="depth2", script=r1["script"], last_state=r1["trace"][-1][1], ended=r1["err"] or "final time"))
    ctx.exhaustive = False
    if not ctx.quick:
        # the lifecycle of a whole run (prepare_simulation chain, exports, after_simulation) is validated in the
        # thorough tier: spec/sys/Simulation.tla, trace/T_Simulation.tla, trace/M_Simulation.tla
        from . import sim_lifecycle

        sim_lifecycle.run(ctx)


def replay(ctx, body):
    rec = body["record"]
    if rec.get("kind") == "sim_lifecycle":
        from . import sim_lifecycle

        return sim_lifecycle.replay(ctx, body)
    c = rec["config"]
    for k in ("over", "under", "recomp"):
        c[k] = tuple(c[k])
    run_ = run_script((c, rec["script"]))
    g, _ = build_tree([run_])
    gfile = ctx.datafile("tree_replay.json", g)
    mc = dict(Schedule=[x * E8 for x in c["sched"]], TsDepth=c["ts_depth"], ItDepth=c["it_depth"])
    m, cf = tlc.gen(ctx.work / "replay", "MC_M_SimDriver", "M_SimDriver", mc, spec="MSpec", invariants=INVS, properties=PROPS)
    mon = ctx.tlc(m, cf, workers=1, env={"VERIF_GRAPH": gfile})
    ctx.case(key="replay", n=1)
    ctx.traces += 1
    ctx.sample(rec["script"])
    if mon.violated:
        ctx.violation(mon.violated, rec, "replayed")
