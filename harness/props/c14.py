"""C14 FV discretizations do not depend on how the grid is split (MPFA, MPSA, Biot).

Level: EXPLORATION - a metamorphic, black-box check.  The local systems of the schemes are not modelled; the real code
is compared with itself (one piece against a variant).  What the TLA+ side contributes:

spec/ref/SplitInvariance.tla      pure operators: the FOOTPRINT of a partial discretisation on the incidence (which face / cell
                                  rows a request of specified cells / faces / nodes targets), the subproblem cover law, the
                                  number of subproblems forced by max_memory, the catalogues (matrices with their documented
                                  shapes, tensor / Lame / coupling values, boundary types) and the fixed point judgement of
                                  doubles (39-bit limbs; <= 1e-9 pass, > 1e-6 violation, between inconclusive; relative to the
                                  power of two above max|A|)
spec/ref/SplitInvarianceEnum.tla  TLC enumerates, on the incidences exported from the real grids: per grid the derived inputs
                                  (max_memory per wanted count, boundary types, per-cell parameter values), every configuration
                                  (scheme x catalogue entry x boundary mode x variant) and every request set of a partial
                                  discretisation (cell / face / node subsets); model laws
spec/trace/J_SplitInvariance.tla  TLC judges the recorded matrices: Completes, Shapes, TargetRows, OtherRows

Python: builds the grids (recipes of _mech / _grids), executes a seeded selection of the enumerated configurations on
pp.Mpfa / pp.Mpsa / pp.Biot (A = one piece with the default inverter; B = the variant; O = the old discretisation an update
starts from), converts every stored entry to limbs and dispatches TLC's verdict records.  No clause is evaluated here."""
from __future__ import annotations

import copy
import json
import math
import os

for _v in ("OPENBLAS_NUM_THREADS", "OMP_NUM_THREADS", "MKL_NUM_THREADS"):
    os.environ.setdefault(_v, "1")

import warnings  # noqa: E402

import numpy as np  # noqa: E402
import scipy.sparse as sps  # noqa: E402

from .. import tlc  # noqa: E402
from . import _mech as M  # noqa: E402
from .c21 import grid_to_inc  # noqa: E402

LEVEL = "exploration"
CLAUSES = ["Completes", "Shapes", "TargetRows", "OtherRows"]
KW = {"mpfa": "flow", "mpsa": "mechanics", "biot": "mechanics"}
INVKEY = {"mpfa": "mpfa_inverter", "mpsa": "inverter", "biot": "inverter"}
SPECKEY = {"cells": "specified_cells", "faces": "specified_faces", "nodes": "specified_nodes"}
MODKEY = {"cells": "modified_cells", "faces": "modified_faces"}
SCHEMES = ["mpfa", "mpsa", "biot"]
BCMODES = {"mpfa": ["dir", "neu", "mix", "mix3"], "mpsa": ["dir", "neu", "mix", "mix3", "roll"],
           "biot": ["dir", "neu", "mix", "mix3", "roll"]}
FAR = 1 << 25
WORKERS = 8


def _biot_flag(r):
    """Biot.discretize with the parameter update_discretization = True indexes its dictionaries of coupling matrices with an
    index array: TypeError (unhashable type) for every request"""
    return (r["clause"] == "Completes" and r["scheme"] == "biot" and r["var"]["kind"] in ("partial", "combo")
            and r["var"]["how"] == "flag" and r.get("stage") == "B" and r.get("err", "").startswith("TypeError"))


def _degenerate_corner(recipe):
    """some cell has a corner at which the normals of its faces do not span the space (2D: two collinear edges)"""
    g = M.build(recipe)
    fn, cf = g.face_nodes.tocsc(), g.cell_faces.tocsc()
    for c in range(g.num_cells):
        faces = cf.indices[cf.indptr[c]:cf.indptr[c + 1]]
        at = {}
        for f in faces:
            for n in fn.indices[fn.indptr[f]:fn.indptr[f + 1]]:
                at.setdefault(int(n), []).append(int(f))
        for fs in at.values():
            if np.linalg.matrix_rank(g.face_normals[:g.dim, fs], tol=1e-9) < g.dim:
                return True
    return False


def _singular_overlap(r):
    """a subgrid (subproblem with overlap / active grid of a partial discretisation) cuts a cell with a degenerate corner
    out of its neighbourhood: the local system at that corner of the artificial boundary is singular, numpy's inverse
    (inverter='python') raises although the rows concerned would be discarded; the numba inverter does not raise"""
    return (r["clause"] == "Completes" and r["var"]["kind"] in ("split", "combo", "partial") and r["var"]["inv"] == "python"
            and r.get("stage") == "B" and r.get("err", "").startswith("LinAlgError") and _degenerate_corner(r["recipe"]))


MATCHERS = {"biot_update_flag_typeerror": _biot_flag, "singular_corner_in_overlap": _singular_overlap}


class HarnessError(Exception):
    pass


# ---------------------------------------------------------------------------------------------------------------
# the real code
_COUNT = [0]


def _install_counter():
    """count the subproblems the code forms (evidence only): wraps the generator _fvutils.subproblems if it exists"""
    from porepy.numerics.fv import _fvutils

    orig = getattr(_fvutils, "subproblems", None)
    if orig is None or getattr(orig, "_c14", False):
        return

    def counted(*a, **k):
        for x in orig(*a, **k):
            _COUNT[0] += 1
            yield x

    counted._c14 = True
    _fvutils.subproblems = counted


def _tensor(vals):
    import porepy as pp

    a = np.asarray(vals, dtype=float) / 2.0
    return pp.SecondOrderTensor(kxx=a[:, 0].copy(), kyy=a[:, 1].copy(), kzz=a[:, 2].copy(), kxy=a[:, 3].copy(),
                                kxz=a[:, 4].copy(), kyz=a[:, 5].copy())


def parameters(scheme, g, p):
    """parameter dictionary entries of the physical inputs p = dict(kval | lval, aval, ascalar; bfaces, bctypes)"""
    import porepy as pp

    faces = np.asarray(p["bfaces"], dtype=int)
    types = list(p["bctypes"])
    if scheme == "mpfa":
        return {"second_order_tensor": _tensor(p["kval"]), "bc": pp.BoundaryCondition(g, faces, types)}
    lv = np.asarray(p["lval"], dtype=float) / 2.0
    bc = pp.BoundaryConditionVectorial(g, faces, ["dir" if t == "rol" else t for t in types])
    for f, t in zip(faces, types):
        if t == "rol":   # first component Dirichlet, the others Neumann
            bc.is_dir[1:, f] = False
            bc.is_neu[1:, f] = True
    out = {"fourth_order_tensor": pp.FourthOrderTensor(lv[:, 0].copy(), lv[:, 1].copy()), "bc": bc}
    if scheme == "biot":
        out["scalar_vector_mappings"] = {"s": float(p["ascalar"]) / 2.0, "t": _tensor(p["aval"])}
    return out


def old_inputs(p, var, old):
    """the inputs P' of the old discretisation an update starts from (SplitInvariance: OldScale, OldAdd, FlipBc)"""
    q = copy.deepcopy(p)
    S = set(var["set"])
    if var["how"] == "flag":
        for k in ("kval", "lval", "aval"):
            if k in q:
                q[k] = [[old["scale"] * x for x in row] for row in q[k]]
        if "ascalar" in q:
            q["ascalar"] = old["scale"] * q["ascalar"]
    elif var["mode"] == "cells":
        for c in S:
            for k in ("kval", "aval"):
                if k in q:
                    q[k][c] = [x + (old["add"] if i < 3 else 0) for i, x in enumerate(q[k][c])]
            if "lval" in q:
                q["lval"][c] = [q["lval"][c][0] + old["add"], q["lval"][c][1] + old["add"] // 2]
    elif var["mode"] == "faces":
        q["bctypes"] = [old["flip"][t] if f in S else t for f, t in zip(q["bfaces"], q["bctypes"])]
    return q


def _discr(scheme):
    import porepy as pp

    return {"mpfa": pp.Mpfa, "mpsa": pp.Mpsa, "biot": pp.Biot}[scheme](KW[scheme])


def _flat(md):
    out = {}
    for k, v in md.items():
        if isinstance(v, dict):
            for kk, vv in v.items():
                out[(str(k), str(kk))] = sps.csr_matrix(vv).copy()
        else:
            out[(str(k), "")] = sps.csr_matrix(v).copy()
    return out


def one_piece(scheme, g, p, inverter=None):
    """(matrices, number of subproblems) of the plain discretisation"""
    import porepy as pp

    prm = parameters(scheme, g, p)
    if inverter:
        prm[INVKEY[scheme]] = inverter
    data = pp.initialize_data({}, KW[scheme], prm)
    _COUNT[0] = 0
    _discr(scheme).discretize(g, data)
    return _flat(data[pp.DISCRETIZATION_MATRICES][KW[scheme]]), data, _COUNT[0]


def variant(scheme, g, p, var, rec):
    """B (and O) of a variant; returns dict(B, O, nsub, af, ac, stage, err)"""
    import porepy as pp

    kw = KW[scheme]
    out = dict(B=None, O=None, nsub=0, af=[-1], ac=[-1], stage="", err="")
    part = None
    if var["kind"] in ("split", "combo"):
        part = {"num_subproblems": int(var["req"])} if var["by"] == "num" else {"max_memory": int(rec["maxmem"])}
    try:
        if var["kind"] in ("inverter", "split"):
            prm = parameters(scheme, g, p)
            prm[INVKEY[scheme]] = var["inv"]
            if part:
                prm["partition_arguments"] = part
            data = pp.initialize_data({}, kw, prm)
            out["stage"] = "B"
            _COUNT[0] = 0
            _discr(scheme).discretize(g, data)
        else:
            ids = np.asarray(var["set"], dtype=int)
            if var["how"] == "fresh":
                prm = parameters(scheme, g, p)
                prm[INVKEY[scheme]] = var["inv"]
                prm[SPECKEY[var["mode"]]] = ids
                if part:
                    prm["partition_arguments"] = part
                data = pp.initialize_data({}, kw, prm)
                out["stage"] = "B"
                _COUNT[0] = 0
                _discr(scheme).discretize(g, data)
            else:
                out["stage"] = "O"
                O, data, _n = one_piece(scheme, g, old_inputs(p, var, rec["old"]), inverter=var["inv"])
                out["O"] = O
                data[pp.PARAMETERS][kw].update(parameters(scheme, g, p))
                out["stage"] = "B"
                _COUNT[0] = 0
                if var["how"] == "flag":
                    data[pp.PARAMETERS][kw][SPECKEY[var["mode"]]] = ids
                    data[pp.PARAMETERS][kw]["update_discretization"] = True
                    _discr(scheme).discretize(g, data)
                else:
                    data["update_discretization"] = {MODKEY[var["mode"]]: ids}
                    _discr(scheme).update_discretization(g, data)
            prm_after = data[pp.PARAMETERS][kw]
            for key, name in (("af", "active_faces"), ("ac", "active_cells")):
                v = prm_after.get(name)
                if v is not None:
                    out[key] = sorted({int(x) for x in np.atleast_1d(v)})
        out["nsub"] = _COUNT[0]
        out["B"] = _flat(data[pp.DISCRETIZATION_MATRICES][kw])
        out["stage"] = ""
    except (HarnessError, MemoryError, KeyboardInterrupt):
        raise
    except Exception as e:  # noqa: BLE001 - an exception of the code under test is an observation
        out["err"] = f"{type(e).__name__}: {e}"[:300]
    return out


# ---------------------------------------------------------------------------------------------------------------
# doubles -> limbs
def _exponent(a):
    """e with max|a| <= 2^e < 2 max|a| (0 for a zero matrix)"""
    m = float(np.max(np.abs(a))) if a.size else 0.0
    if not math.isfinite(m):
        raise HarnessError("non-finite entry in the one-piece matrix")
    if m == 0.0:
        return 0
    fr, ex = math.frexp(m)   # m = fr * 2^ex, 0.5 <= fr < 1
    return ex - 1 if fr == 0.5 else ex


def _limbs(x, e):
    """array of doubles -> (n, 3) int array: limbs of round(x / 2^e * 2^39); FAR for |x| > 2^(e + 10) or non-finite"""
    x = np.asarray(x, dtype=float)
    bad = ~np.isfinite(x) | (np.abs(x) > math.ldexp(1.0, e + 10))
    y = np.where(bad, 0.0, x)
    X = np.rint(np.ldexp(y, 39 - e)).astype(np.int64)
    s = np.where(X < 0, -1, 1).astype(np.int64)
    Xa = np.abs(X)
    out = np.stack([s * (Xa >> 26), s * ((Xa >> 13) & 8191), s * (Xa & 8191)], axis=1)
    if np.any(bad):
        out[bad] = np.stack([np.where(np.signbit(x[bad]), -FAR, FAR), np.zeros(bad.sum(), int), np.zeros(bad.sum(), int)], axis=1)
    return out


def _unlimb(t):
    """limbs -> double in units of s (for messages only)"""
    if abs(t[0]) >= (1 << 24):
        return "far"
    return round((t[0] * (1 << 26) + t[1] * 8192 + t[2]) / float(1 << 39), 9)


def encode_matrix(key, A, B, O):
    """one matrix record for TLC; rows only when the three shapes agree"""
    rec = dict(key=key[0], sub=key[1], sa=list(A.shape), sb=list(B.shape) if B is not None else [0, 0],
               so=list(O.shape) if O is not None else [0, 0], e=0, rows=[], nent=0)
    if B is None or A.shape != B.shape or (O is not None and O.shape != A.shape):
        return rec
    a = A.toarray()
    b = B.toarray()
    o = O.toarray() if O is not None else np.zeros_like(a)
    e = _exponent(a)
    rec["e"] = e
    mask = (a != 0) | (b != 0) | (o != 0)
    rr, cc = np.nonzero(mask)
    la, lb, lo = _limbs(a[rr, cc], e), _limbs(b[rr, cc], e), _limbs(o[rr, cc], e)
    ent = np.concatenate([cc[:, None], la, lb] + ([lo] if O is not None else []), axis=1).tolist()
    rows = [[] for _ in range(a.shape[0])]
    for r, en in zip(rr.tolist(), ent):
        rows[r].append(en)
    rec["rows"] = rows
    rec["nent"] = len(ent)
    return rec


# ---------------------------------------------------------------------------------------------------------------
# TLC: the family
GRIDS_QUICK = [("cart", (3, 3), "plain"), ("cart", (3, 2), "perturbed"), ("simplex", (2, 2), "plain"),
               ("simplex", (3, 2), "perturbed")]
GRIDS_FULL = [("cart", (2, 2), "plain"), ("cart", (3, 3), "plain"), ("cart", (3, 3), "perturbed"), ("cart", (4, 3), "perturbed"),
              ("cart", (4, 4), "plain"), ("simplex", (2, 2), "plain"), ("simplex", (2, 2), "perturbed"),
              ("simplex", (3, 2), "perturbed"), ("simplex", (3, 3), "plain"),
              ("cart", (2, 2, 2), "plain"), ("cart", (2, 2, 2), "perturbed"), ("cart", (3, 2, 2), "plain"),
              ("simplex", (1, 1, 1), "plain"), ("simplex", (2, 1, 1), "perturbed")]


class Family:
    def __init__(self, ctx, keys):
        rng = ctx.rng
        self.keys = list(keys)
        self.recipes = [M.recipe_for(k[0], list(k[1]), k[2], rng) for k in self.keys]
        self.grids = [M.build(r) for r in self.recipes]
        self.incs = [grid_to_inc(g) for g in self.grids]
        q = ctx.quick
        consts = dict(Grids=self.incs, Inverters={"python", "numba"}, Hows={"fresh", "flag", "method"},
                      MaxCells=2, MaxFaces=2, MaxNodes=2, MaxNodes3=2, LawCells=6, MaxParts=2 if q else 3, WithCombo=not q)
        m, cf = tlc.gen(ctx.work / "enum", "MC_SplitInvarianceEnum", "SplitInvarianceEnum", consts, invariants=["Emit", "Laws"])
        res = ctx.tlc(m, cf, workers=WORKERS, allow_violation=False, timeout=1800)
        self.info = {r["g"]: r for r in res.records if r["t"] == "grid"}
        # a configuration is a pair of the two emitted factors (phys, var) of a grid
        vars_ = {}
        for r in res.records:
            if r["t"] == "var":
                vars_.setdefault(r["g"], []).append(r["var"])
        self.cfgs = [dict(g=r["g"], scheme=r["scheme"], par=r["par"], bc=r["bc"], var=v)
                     for r in res.records if r["t"] == "phys" for v in vars_.get(r["g"], [])]
        self.reqs = {}
        for r in res.records:
            if r["t"] == "req":
                self.reqs.setdefault((r["g"], r["mode"]), []).append(r)
        for v in self.reqs.values():
            v.sort(key=lambda r: (len(r["set"]), r["set"]))
        self.cfgs.sort(key=lambda r: json.dumps(r, sort_keys=True))
        if len(self.info) != len(self.keys):
            raise HarnessError("TLC did not emit one record per grid")


def inputs_of(info, scheme, par, bc):
    """physical inputs P of a configuration, literally what TLC emitted for the grid"""
    p = dict(bfaces=list(info["bfaces"]), bctypes=list(info["bc"][bc]))
    if scheme == "mpfa":
        p["kval"] = [list(x) for x in info["kval"][par - 1]]
    else:
        p["lval"] = [list(x) for x in info["lval"][par - 1]]
        if scheme == "biot":
            p["aval"] = [list(x) for x in info["aval"][par - 1]]
            p["ascalar"] = int(info["ascalar"][par - 1])
    return p


def pick_sets(fam, gi, mode, n, rng):
    """n request sets of TLC's enumeration for (grid, mode): mostly with a non-empty footprint that is not everything"""
    allr = fam.reqs.get((gi, mode), [])
    proper = [r for r in allr if 0 < r["foot"] < r["nf"]]
    nonempty = [r for r in allr if r["foot"] > 0]
    out = []
    for j in range(n):
        pool = proper if (proper and (j % 3 != 2)) else (nonempty if (nonempty and j % 6 != 5) else allr)
        out.append(pool[rng.randrange(len(pool))])
    return out


def plan(ctx, fam):
    """executable records: a seeded selection of cfg x req"""
    rng = ctx.rng
    q = ctx.quick
    recs = []
    bycfg = {}
    for c in fam.cfgs:
        bycfg.setdefault((c["g"], c["scheme"], c["par"], c["bc"]), []).append(c["var"])
    for gi in range(1, len(fam.keys) + 1):
        info = fam.info[gi]
        dim3 = info["dim"] == 3
        for si, scheme in enumerate(SCHEMES):
            modes = BCMODES[scheme]
            npairs = 2
            for j in range(npairs):
                par = (gi + si + j) % 3 + 1
                bc = modes[(2 * gi + si + 2 * j) % len(modes)]
                vs = bycfg[(gi, scheme, par, bc)]
                base = dict(gi=gi, recipe=fam.recipes[gi - 1], gkey=list(map(str, fam.keys[gi - 1])), scheme=scheme, par=par, bc=bc,
                            inputs=inputs_of(info, scheme, par, bc), old=info["old"])
                rot = gi + si + j
                chosen = []
                splits = sorted((v for v in vs if v["kind"] == "split"), key=lambda v: (v["inv"], v["by"], v["req"]))
                partial = sorted((v for v in vs if v["kind"] == "partial"), key=lambda v: (v["how"], v["mode"]))
                combos = sorted((v for v in vs if v["kind"] == "combo"), key=lambda v: (v["mode"], v["req"]))
                chosen += [(v, None) for v in vs if v["kind"] == "inverter"]
                py = [v for v in splits if v["inv"] == "python"]
                nb = [v for v in splits if v["inv"] == "numba"]
                if q:
                    chosen += [(py[(rot + 3 * t) % len(py)], None) for t in range(2)]
                    # always the split into n_cells parts (faces that lie in the overlap of three and more sub-problems)
                    chosen += [(v, None) for v in py if v["req"] in (info["nc"], info["nc"] // 2) and v["by"] == "num"
                               and all(v is not w for w, _ in chosen)]
                    if rot % 3 == 0:
                        chosen.append((nb[rot % len(nb)], None))
                    fresh = [v for v in partial if v["how"] == "fresh"]
                    upd = [v for v in partial if v["how"] != "fresh"]
                    for v in fresh:
                        chosen += [(v, s) for s in pick_sets(fam, gi, v["mode"], 1, rng)]
                    for t in range(2):
                        v = upd[(rot + 2 * t) % len(upd)]
                        chosen += [(v, s) for s in pick_sets(fam, gi, v["mode"], 1, rng)]
                else:
                    # five of the eight python splits (always the one into n_cells parts by num_subproblems), two numba splits
                    py = [v for v in py if not (dim3 and v["req"] == info["nc"] and v["by"] == "mem")]
                    keep = [v for i, v in enumerate(py) if (i + rot) % 8 not in (1, 4, 6) or (v["req"] == info["nc"] and v["by"] == "num")]
                    chosen += [(v, None) for v in keep]
                    chosen += [(v, None) for i, v in enumerate(nb) if (i + rot) % (8 if dim3 else 4) == 0 and not (dim3 and v["req"] == info["nc"])]
                    for i, v in enumerate(partial):
                        nsets = 2 if (v["how"] == "fresh" and not (dim3 and (i + rot) % 2)) else 1
                        chosen += [(v, s) for s in pick_sets(fam, gi, v["mode"], nsets, rng)]
                    for i, v in enumerate(combos):
                        if (i + rot) % (3 if dim3 else 2) == 0:
                            chosen += [(v, s) for s in pick_sets(fam, gi, v["mode"], 1, rng)]
                for v, s in chosen:
                    var = dict(v, set=list(s["set"]) if s else [])
                    r = dict(base, var=var)
                    if var["by"] == "mem":
                        mm = next(x for x in info["mem"] if x["k"] == var["req"])
                        r["maxmem"] = mm["mpfa" if scheme == "mpfa" else "mpsa"]
                    recs.append(r)
    return recs


# ---------------------------------------------------------------------------------------------------------------
# execute + judge
class Runner:
    def __init__(self, ctx):
        self.ctx = ctx
        self.cacheA = {}
        self.cacheG = {}
        _install_counter()

    def grid(self, recipe):
        k = json.dumps(recipe, sort_keys=True)
        if k not in self.cacheG:
            g = M.build(recipe)
            self.cacheG[k] = (g, grid_to_inc(g))
        return self.cacheG[k]

    def reference(self, rec, g):
        k = json.dumps([rec["recipe"], rec["scheme"], rec["inputs"]], sort_keys=True)
        if k not in self.cacheA:
            try:
                A, _d, n = one_piece(rec["scheme"], g, rec["inputs"])
                self.cacheA[k] = (A, n, "")
            except (HarnessError, MemoryError, KeyboardInterrupt):
                raise
            except Exception as e:  # noqa: BLE001
                self.cacheA[k] = (None, 0, f"{type(e).__name__}: {e}"[:300])
        return self.cacheA[k]

    def execute(self, rec):
        """one case for TLC + observations"""
        g, inc = self.grid(rec["recipe"])
        var = rec["var"]
        with warnings.catch_warnings():
            warnings.simplefilter("ignore")
            A, nA, errA = self.reference(rec, g)
            v = variant(rec["scheme"], g, rec["inputs"], var, rec) if A is not None else dict(
                B=None, O=None, nsub=0, af=[-1], ac=[-1], stage="A", err=errA)
        hasold = var["kind"] in ("partial", "combo") and var["how"] in ("flag", "method")
        okB = v["B"] is not None
        okO = (not hasold) or v["O"] is not None
        mats, nent = [], 0
        if A is not None and okB:
            for key in sorted(A):
                m = encode_matrix(key, A[key], v["B"].get(key), v["O"].get(key) if (hasold and v["O"]) else None)
                nent += m.pop("nent")
                mats.append(m)
        out = dict(okA=A is not None, okB=okB, okO=bool(okO), err=v["err"], stage=v["stage"], af=v["af"], ac=v["ac"], mats=mats)
        case = dict(G=inc, scheme=rec["scheme"], var=dict(kind=var["kind"], mode=var["mode"], how=var["how"], set=var["set"]),
                    out=out)
        obs = dict(nsubA=nA, nsub=v["nsub"], err=v["err"], stage=v["stage"], nent=nent, nc=inc["nc"], nf=inc["nf"])
        return case, obs


def describe(rec, obs):
    v = rec["var"]
    what = {"inverter": f"inverter={v['inv']}",
            "split": f"split {v['by']}={v['req'] if v['by'] == 'num' else rec.get('maxmem')} (wanted {v['req']}, formed "
                     f"{obs['nsub']}) inverter={v['inv']}",
            "partial": f"partial {v['how']} specified_{v['mode']}={v['set']}",
            "combo": f"partial {v['how']} specified_{v['mode']}={v['set']} + num_subproblems={v['req']}"}[v["kind"]]
    return (f"{rec['scheme']} {rec['gkey'][0]}{rec['gkey'][1]}/{rec['gkey'][2]} par={rec['par']} bc={rec['bc']} {what} "
            f"{obs.get('where', '')} {('raised in ' + obs['stage'] + ': ' + obs['err']) if obs['err'] else ''}")


def class_key(rec, obs):
    v = rec["var"]
    foot = obs.get("foot", -1)
    fclass = "all" if foot == obs["nf"] else ("none" if foot == 0 else "part")
    return (rec["scheme"], rec["gkey"][0], rec["gkey"][1], rec["gkey"][2], rec["par"], rec["bc"], v["kind"], v["mode"], v["how"],
            v["by"], v["inv"], v["req"], min(obs["nsub"], 4), fclass)


def _judge_files(ctx, cases):
    """_casefiles.judge_files with compact JSON (the case files are large: TLC's time goes into reading them)"""
    tag = f"jf{len(ctx.tlc_runs)}"
    d = ctx.work / tag / "cases"
    d.mkdir(parents=True, exist_ok=True)
    for i, c in enumerate(cases, 1):
        with open(d / f"{i}.json", "w") as f:
            json.dump(c, f, separators=(",", ":"))
    empty = ctx.datafile(f"empty_{tag}.json", [])
    m, cf = tlc.gen(ctx.work / tag, "MC_J_SplitInvariance", "J_SplitInvariance", dict(CaseDir=str(d), NumCases=len(cases)),
                    spec="FSpec", invariants=["Judgement"])
    res = ctx.tlc(m, cf, workers=WORKERS, env={"VERIF_CASES": empty}, allow_violation=False, timeout=3000)
    import shutil

    shutil.rmtree(d, ignore_errors=True)
    return res.records


def run_batch(ctx, runner, recs):
    cases, obss = [], []
    for r in recs:
        c, o = runner.execute(r)
        cases.append(c)
        obss.append(o)
    out = _judge_files(ctx, cases)
    viol = {}
    for v in out:
        i = v["case"] - 1
        tag = v.get("tag")
        if tag == "rows":
            obss[i]["foot"], obss[i]["crows"] = v["val"]["foot"], v["val"]["crows"]
        elif tag == "where":
            w = v["val"]
            obss[i].setdefault("wheres", {})["TargetRows" if w["demand"] == 1 else "OtherRows"] = (
                f"[{w['key']}{'/' + w['sub'] if w['sub'] else ''} row {w['row']} col {w['col']}: "
                f"A={_unlimb(w['entry'][1:4])} B={_unlimb(w['entry'][4:7])}"
                + (f" O={_unlimb(w['entry'][7:10])}" if len(w["entry"]) >= 10 else "") + " (units of s)]")
        elif tag == "inconclusive":
            ctx.inconclusive += 1
        elif tag == "outside":
            raise HarnessError(f"case outside the family handed to the judge: {describe(recs[i], obss[i])}")
        elif tag == "footprint":
            ctx.drift(f"active_faces of the code differ from the documented footprint: {describe(recs[i], obss[i])} "
                      f"spec={v['val']['spec']} code={v['val']['code']}")
        elif tag == "stencil":
            ctx.drift(f"active_cells of the code do not contain the interaction regions of the footprint: "
                      f"{describe(recs[i], obss[i])}")
        elif tag == "unknown":
            ctx.extra.setdefault("matrices_not_in_catalogue", [])
            if v["val"] not in ctx.extra["matrices_not_in_catalogue"]:
                ctx.extra["matrices_not_in_catalogue"].append(v["val"])
        elif "clause" in v:
            viol.setdefault(i, []).append(v["clause"])
    for i, clauses in sorted(viol.items()):
        r, o = recs[i], obss[i]
        for cl in clauses:
            o["where"] = o.get("wheres", {}).get(cl, "")
            ctx.violation(cl, dict(r, err=o["err"], stage=o["stage"], where=o["where"]), describe(r, o))
    for r, o in zip(recs, obss):
        v = r["var"]
        nontrivial = (v["kind"] == "inverter" or (v["kind"] == "split" and o["nsub"] >= 2)
                      or (v["kind"] in ("partial", "combo") and o.get("foot", 0) > 0))
        ctx.case(key=class_key(r, o), nontrivial=nontrivial)
        h = ctx.extra.setdefault("subproblems_formed", {})
        if v["kind"] in ("split", "combo"):
            k = f"wanted {v['req']} by {v['by']}: formed {o['nsub']}"
            h[k] = h.get(k, 0) + 1
        ctx.extra["entries_judged"] = ctx.extra.get("entries_judged", 0) + o["nent"]
    return cases, obss


def run(ctx):
    ctx.rule = ("TLC enumerates, on the incidences of real grids (Cartesian / structured simplex, 2D and - thorough - small 3D, plain "
                "and lattice-perturbed / sheared): (scheme mpfa | mpsa | biot) x (3 tensor / Lame / coupling catalogue entries: "
                "homogeneous, heterogeneous isotropic, heterogeneous full tensor) x (boundary mode dir | neu | mix | mix3 with Robin | "
                "roll) x variant, variants = other inverter; split into a wanted number of subproblems k in {1, 2, 3, n_cells div 2, n_cells} "
                "requested by num_subproblems or by the max_memory value TLC derives from the peak-memory model, with either "
                "inverter; partial discretisation with specified cells / faces / nodes (TLC enumerates the subsets) requested as "
                "fresh / parameter flag update_discretization / method update_discretization; partial + split.  The harness "
                "executes a seeded selection; evaluations = variants executed and judged; class = (scheme, grid, catalogue entry, "
                "boundary mode, variant kind, mode, how, by, inverter, wanted count, subproblems formed, footprint none/part/all); "
                "non-trivial = other inverter, >= 2 subproblems formed, or a non-empty footprint")
    ctx.assumptions = [
        "EXPLORATION level: metamorphic black-box comparison of the code with itself; the local systems are not modelled",
        "A = one piece with the default inverter (numba); the variants of the partial discretisations use inverter='python'",
        "doubles are judged by TLC in fixed point relative to s = the power of two with max|A| <= s < 2 max|A| per matrix: "
        "|a - b| <= 1e-9 s pass, > 1e-6 s violation, between inconclusive (DESIGN section 8)",
        "rows targeted by a partial discretisation: face rows = the footprint TLC computes from the incidence as documented in "
        "_fvutils.cell_ind_for_partial_update; cell rows (Biot divergence / consistency matrices) = cells all of whose faces are in "
        "the footprint (the code calls its own choice of cell rows a best guess); method update_discretization: all cell rows",
        "requests combining several of specified_cells / _faces / _nodes are outside the family (documented as untested)",
        "update of an existing discretisation: the old state O is a one-piece discretisation with all tensors doubled (flag) or "
        "with the tensors of the modified cells / the boundary types of the modified faces changed (method)",
        "the number of subproblems is a request: partition() may form another number (recorded under subproblems_formed)",
        "pymetis is not installed: the split path partitions with partition_structured / partition_coordinates",
    ]
    fam = Family(ctx, GRIDS_QUICK if ctx.quick else GRIDS_FULL)
    ctx.extra["configurations_enumerated"] = len(fam.cfgs)
    ctx.extra["request_sets_enumerated"] = sum(len(v) for v in fam.reqs.values())
    _check_peak_model(ctx, fam)
    recs = plan(ctx, fam)
    ctx.extra["variants_executed"] = len(recs)
    runner = Runner(ctx)
    # batches bounded by the amount of data TLC has to read
    lo = 0
    sampled = set()
    while lo < len(recs):
        hi, w = lo, 0
        while hi < len(recs) and (hi == lo or (w < 5000000 and hi - lo < 1000)):
            g = fam.info[recs[hi]["gi"]]
            w += g["nf"] * g["dim"] ** 2 * {"mpfa": 8, "mpsa": 60, "biot": 90}[recs[hi]["scheme"]]
            hi += 1
        cases, obss = run_batch(ctx, runner, recs[lo:hi])
        for r, c, o in zip(recs[lo:hi], cases, obss):
            k = (r["scheme"], r["var"]["kind"], r["var"]["how"])
            if k not in sampled and len(ctx.samples) < 6 and c["out"]["mats"] and (r["var"]["kind"] != "split" or o["nsub"] > 1):
                sampled.add(k)
                m0 = c["out"]["mats"][0]
                ctx.sample(dict(scheme=r["scheme"], grid=r["gkey"], par=r["par"], bc=r["bc"], var=r["var"], subproblems=o["nsub"],
                                footprint_faces=o.get("foot"), cell_rows=o.get("crows"), matrix=m0["key"], shape=m0["sa"],
                                first_entries=[row[0] for row in m0["rows"] if row][:2]))
        lo = hi
    ctx.exhaustive = False  # cfg x req is sampled


def _check_peak_model(ctx, fam):
    """mechanism: the peak-memory model of the spec against the code's private estimate (DRIFT if they differ)"""
    import porepy as pp

    for gi, g in enumerate(fam.grids, 1):
        for name, obj, attr in (("mpfa", pp.Mpfa("flow"), "_estimate_peak_memory"), ("mpsa", pp.Mpsa("mechanics"), "_estimate_peak_memory_mpsa")):
            fn = getattr(obj, attr, None)
            if fn is None:
                continue
            try:
                code = int(fn(g))
            except Exception:  # noqa: BLE001
                continue
            if code != fam.info[gi]["peak"][name]:
                ctx.drift(f"peak memory estimate of {name} on grid {fam.keys[gi - 1]}: spec model {fam.info[gi]['peak'][name]}, code {code}")


def replay(ctx, body):
    rec = body["record"]
    r = {k: rec[k] for k in ("gi", "recipe", "gkey", "scheme", "par", "bc", "inputs", "old", "var") if k in rec}
    if "maxmem" in rec:
        r["maxmem"] = rec["maxmem"]
    runner = Runner(ctx)
    cases, obss = run_batch(ctx, runner, [r])
    ctx.sample(dict(scheme=r["scheme"], grid=r["gkey"], var=r["var"], observed=obss[0]))
