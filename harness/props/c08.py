"""C08 Stored time-step and iterate histories behave as sliding windows.

spec/sys/HistoryStore.tla (heap model of the storage helpers), spec/trace/T_HistoryStore.tla (conformance),
spec/trace/M_HistoryStore.tla (TLC model-checks the C08 clauses on the transition graph recorded from the
real code).  Two bindings: the data-dictionary helpers pp.set/get/shift_solution_values and the
EquationSystem wrappers set/get_variable_values, shift_time_step_values, shift_iterate_values."""
from __future__ import annotations

import re
from concurrent.futures import ThreadPoolExecutor

import numpy as np

from .. import explore as ex
from .. import tlc

LEVEL = "model_checking"
INVS = ["LatestAtZero", "Window", "WindowAvailable", "NoAlias"]
PROPS = ["AdditiveEmptyRejected", "GetReturnsStored", "ReadsDoNotWrite", "OthersIndependent"]
BUMP = 10
SETV, ADDV = (1, 2), (1,)
CLIENT_CAP = 2


def _content(arrs):
    vals = np.concatenate([np.asarray(a, dtype=float).ravel() for a in arrs])
    if vals.size == 0 or not np.all(vals == vals[0]) or vals[0] != int(vals[0]):
        return -1
    return int(vals[0])


class Store:
    """Common driver; subclasses say how to call the real code."""

    def __init__(self, depth):
        self.depth = depth  # dict ts/it -> M (0 = None)
        self.client = []  # list of groups (lists of arrays)
        self.last = dict(ev="init", res="ok", val=0)

    # groups of arrays stored per location, index order
    def stored(self, loc):
        raise NotImplementedError

    def push(self, group):
        self.client.append(group)
        if len(self.client) > CLIENT_CAP:
            self.client.pop(0)


class DictStore(Store):
    NAME = "x"

    def __init__(self, depth):
        super().__init__(depth)
        self.data = {}

    def _key(self, loc):
        import porepy as pp

        return pp.TIME_STEP_SOLUTIONS if loc == "ts" else pp.ITERATE_SOLUTIONS

    def stored(self, loc):
        d = self.data.get(self._key(loc), {}).get(self.NAME, {})
        keys = sorted(d.keys())
        bad = np.array([-999.0, -998.0])   # a gap is reported as a slot with inconsistent content (-1)
        top = (max(keys) + 1) if keys else 0
        return [[d.get(k, bad)] for k in range(top)]

    def set(self, loc, v, add):
        import porepy as pp

        a = np.full(3, float(v))
        kw = {}
        if loc in ("ts", "both"):
            kw["time_step_index"] = 0
        if loc in ("it", "both"):
            kw["iterate_index"] = 0
        self.push([a])
        pp.set_solution_values(self.NAME, a, self.data, additive=add, **kw)

    def get(self, loc, i):
        import porepy as pp

        kw = {"time_step_index": i} if loc == "ts" else {"iterate_index": i}
        r = pp.get_solution_values(self.NAME, self.data, **kw)
        self.push([r])
        return r

    def shift(self, loc):
        import porepy as pp

        M = self.depth[loc]
        pp.shift_solution_values(self.NAME, self.data, self._key(loc), max_index=(M or None))

    # the other quantity: another name in the same data dictionary
    def other_stored(self):
        d = self.data.get(self._key("ts"), {}).get("y", {})
        return [_content([d[k]]) for k in sorted(d)]

    def other_set(self, v):
        import porepy as pp

        pp.set_solution_values("y", np.full(2, float(v)), self.data, time_step_index=0)

    def other_shift(self):
        import porepy as pp

        pp.shift_solution_values("y", self.data, self._key("ts"), max_index=(self.depth["ts"] or None))


_ES_CACHE = {}


class EqSysStore(Store):
    """Through EquationSystem on a one-subdomain md-grid with two variables (cell dofs; cell+face dofs)."""

    def __init__(self, depth):
        import porepy as pp

        super().__init__(depth)
        if "es" not in _ES_CACHE:
            g = pp.CartGrid([2, 1])
            g.compute_geometry()
            g2 = pp.CartGrid([3])
            g2.compute_geometry()
            mdg = pp.MixedDimensionalGrid()
            mdg.add_subdomains([g, g2])
            es = pp.ad.EquationSystem(mdg)
            a = es.create_variables("a", {"cells": 1}, subdomains=[g, g2])
            b = es.create_variables("b", {"cells": 1, "faces": 1}, subdomains=[g])
            mine = [v for v in a.sub_vars if v.domain is g] + list(b.sub_vars)
            other = [v for v in a.sub_vars if v.domain is g2]
            _ES_CACHE["es"] = (mdg, g, g2, es, mine, other)
        self.mdg, self.g, self.g2, self.es, self.mine, self.other = _ES_CACHE["es"]
        self.data = self.mdg.subdomain_data(self.g)
        self.data2 = self.mdg.subdomain_data(self.g2)
        for d in (self.data, self.data2):
            for k in (pp.TIME_STEP_SOLUTIONS, pp.ITERATE_SOLUTIONS):
                d.pop(k, None)
        self.n_mine = int(sum(len(self.es.dofs_of([v])) for v in self.mine))

    def stored(self, loc):
        import porepy as pp

        key = pp.TIME_STEP_SOLUTIONS if loc == "ts" else pp.ITERATE_SOLUTIONS
        da = self.data.get(key, {}).get("a", {})
        db = self.data.get(key, {}).get("b", {})
        keys = sorted(set(da) | set(db))
        # an index present for one variable only (or a gap) is an observation, not a harness error: the slot is
        # reported with the inconsistent content -1 (a sentinel array makes the group non-uniform)
        bad = np.array([-999.0])
        top = (max(keys) + 1) if keys else 0
        return [[da.get(k, bad), db.get(k, bad)] for k in range(top)]

    def set(self, loc, v, add):
        a = np.full(self.n_mine, float(v))
        kw = {}
        if loc in ("ts", "both"):
            kw["time_step_index"] = 0
        if loc in ("it", "both"):
            kw["iterate_index"] = 0
        self.push([a])
        self.es.set_variable_values(a, self.mine, additive=add, **kw)

    def get(self, loc, i):
        kw = {"time_step_index": i} if loc == "ts" else {"iterate_index": i}
        r = self.es.get_variable_values(self.mine, **kw)
        self.push([r])
        return r

    def shift(self, loc):
        M = self.depth[loc]
        if loc == "ts":
            self.es.shift_time_step_values(self.mine, max_index=(M or None))
        else:
            self.es.shift_iterate_values(self.mine, max_index=(M or None))

    # the other quantity: the same variable name "a" on the other subdomain
    def other_stored(self):
        import porepy as pp

        d = self.data2.get(pp.TIME_STEP_SOLUTIONS, {}).get("a", {})
        return [_content([d[k]]) for k in sorted(d)]

    def other_set(self, v):
        self.es.set_variable_values(np.full(3, float(v)), self.other, time_step_index=0)

    def other_shift(self):
        self.es.shift_time_step_values(self.other, max_index=(self.depth["ts"] or None))


def apply(s: Store, e):
    ev = e["ev"]
    if ev == "set":
        try:
            s.set(e["loc"], e["v"], e["add"])
            s.last = dict(ev="set", res="ok", val=0)
        except ValueError:
            s.last = dict(ev="set", res="ValueError", val=0)
    elif ev == "get":
        try:
            r = s.get(e["loc"], e["i"])
            s.last = dict(ev="get", res="ok", val=_content([r]))
        except KeyError:
            s.last = dict(ev="get", res="KeyError", val=0)
    elif ev == "shift":
        s.shift(e["loc"])
        s.last = dict(ev="shift", res="ok", val=0)
    elif ev == "oset":
        s.other_set(e["v"])
        s.last = dict(ev="other", res="ok", val=0)
    elif ev == "oshift":
        s.other_shift()
        s.last = dict(ev="other", res="ok", val=0)
    elif ev == "mut":
        for a in s.client[e["k"] - 1]:
            a += BUMP
        s.last = dict(ev="mut", res="ok", val=0)
    else:
        raise ValueError(e)
    return {}


def project(s: Store):
    ts, it = s.stored("ts"), s.stored("it")
    groups = ts + it + list(s.client)
    first = []
    for p, gp in enumerate(groups):
        f = p + 1
        for q in range(p):
            if any(np.shares_memory(x, y) for x in groups[q] for y in gp):
                f = q + 1
                break
        first.append(f)
    return dict(nts=len(ts), nit=len(it), ncl=len(s.client), contents=[_content(g) for g in groups],
                first=first, last=dict(s.last), other=s.other_stored())


def actions(p):
    acts = []
    for loc in ("ts", "it", "both"):
        for v in SETV:
            acts.append(dict(ev="set", loc=loc, v=v, add=False))
        for v in ADDV:
            empty = {"ts": p["nts"] == 0, "it": p["nit"] == 0}
            if loc == "both" and empty["ts"] != empty["it"]:
                continue  # outcome of a half-rejected write is not fixed by the property
            acts.append(dict(ev="set", loc=loc, v=v, add=True))
    for loc, n in (("ts", p["nts"]), ("it", p["nit"])):
        for i in range(n + 1):
            acts.append(dict(ev="get", loc=loc, i=i))
        acts.append(dict(ev="shift", loc=loc))
    for k in range(1, p["ncl"] + 1):
        acts.append(dict(ev="mut", k=k))
    if len(p["other"]) < 2:
        acts.append(dict(ev="oset", v=7 + len(p["other"])))
        if p["other"]:
            acts.append(dict(ev="oshift"))
    if max(p["contents"] or [0]) > 40:
        return []
    return acts


def consts_of(depth):
    return dict(Depth=depth, SetValues=set(SETV), AddValues=set(ADDV), Bump=BUMP, MaxContent=60,
                CopyOnSet=True, CopyOnGet=True, CopyOnShift=True)


def check_config(ctx, idx, kind, depth, L, max_nodes, workers):
    wd = ctx.work / f"cfg{idx}"
    cls = DictStore if kind == "dict" else EqSysStore
    g = ex.explore_paths(lambda: cls(depth), actions=actions, apply=apply, project=project,
                         max_depth=L, max_nodes=max_nodes)
    gfile = ctx.datafile(f"graph{idx}.json", g)
    out = dict(kind=kind, depth=depth, L=L, graph=g, idx=idx)
    m, cf = tlc.gen(wd, "MC_M_HistoryStore", "M_HistoryStore", dict(Depth=depth), spec="MSpec",
                    invariants=INVS, properties=PROPS)
    out["monitor"] = ctx.tlc(m, cf, workers=workers, env={"VERIF_GRAPH": gfile})
    m, cf = tlc.gen(wd, "MC_T_HistoryStore", "T_HistoryStore", consts_of(depth), spec="TSpec",
                    invariants=["EmitVia"], view="TView")
    out["trace"] = ctx.tlc(m, cf, workers=workers, env={"VERIF_GRAPH": gfile})
    return out


def design(ctx, depth, level):
    wd = ctx.work / f"design_{depth['ts']}_{depth['it']}"
    m, cf = tlc.gen(wd, "MC_HistoryStore", "HistoryStore", consts_of(depth),
                    invariants=["LatestAtZero", "Window", "DepthRespected", "WindowGrows", "NoAlias"],
                    constraint="Lim", view="Canon",
                    extra_defs=f'Lim == Bounded /\\ TLCGet("level") <= {level}')
    return ctx.tlc(m, cf, workers=8, allow_violation=False, coverage=True)


def _events_of(mon, g):
    ids = [int(x) for blk in tlc.counterexample(mon) for x in re.findall(r"/\\ node = (\d+)", blk)]
    events = []
    for a, b in zip(ids, ids[1:]):
        for e in g["edges"][a - 1]:
            if e["dst"] == b:
                events.append({k: v for k, v in e.items() if k != "dst"})
                break
    return ids, events


def run(ctx):
    ctx.rule = ("per (binding, depth pair) every history of set(ts|it|both, overwrite|additive)/get/shift/client-write calls up "
                "to length L is executed on the real storage code (path re-execution, states merged by contents + memory-sharing "
                "pattern); evaluations = recorded real transitions; a configuration is non-trivial when its graph contains "
                "shifts at full depth, additive writes and client writes (always the case for L >= 3)")
    ctx.assumptions = ["vectors are written as constant arrays (content = one integer); index gaps are not generated",
                       "the caller keeps at most the two most recent arrays it passed or received"]
    depths = [dict(ts=1, it=1), dict(ts=2, it=1), dict(ts=2, it=2), dict(ts=3, it=2), dict(ts=0, it=2)]
    Ld = 4 if ctx.quick else 5
    Le = 3 if ctx.quick else 4
    jobs = []
    for d in depths:
        jobs.append(("dict", d, Ld, 40000))
    for d in (depths[2:4] if ctx.quick else depths):
        jobs.append(("eqsys", d, Le, 20000))
    des = design(ctx, dict(ts=2, it=2), 5 if ctx.quick else 6)
    ctx.extra["design_states"] = des.distinct
    outs = []
    # real-code exploration is GIL-bound and the EqSys driver shares one EquationSystem: run sequentially
    for i, (kind, d, L, mx) in enumerate(jobs):
        outs.append(check_config(ctx, i, kind, d, L, mx, 8))
    for o in outs:
        g = o["graph"]
        ne = ex.n_edges(g)
        ctx.traces += ne
        ctx.case(key=(o["kind"], o["depth"]["ts"], o["depth"]["it"], o["L"]), n=ne)
        ctx.extra["real_nodes"] = ctx.extra.get("real_nodes", 0) + len(g["nodes"])
        mon = o["monitor"]
        if mon.violated:
            ids, events = _events_of(mon, g)
            ctx.violation(mon.violated, dict(binding=o["kind"], depth=o["depth"], events=events,
                                             final=g["nodes"][ids[-1] - 1] if ids else None),
                          f"binding={o['kind']} depth={o['depth']} after {len(events)} calls")
        taken = {tuple(r) for r in o["trace"].records}
        missing = [(n, i, e) for n, es in enumerate(g["edges"], 1) for i, e in enumerate(es, 1) if (n, i) not in taken]
        for n, i, e in missing[:3]:
            ctx.drift(f"edge rejected by HistoryStore ({o['kind']} {o['depth']}): from={g['nodes'][n-1]} ev={e} to={g['nodes'][e['dst']-1]}")
        for _ in missing[3:]:
            ctx.drift("")
    g0 = outs[0]["graph"]
    ctx.sample(dict(binding=outs[0]["kind"], depth=outs[0]["depth"], path=ex.path_to(g0, len(g0["nodes"])),
                    reached=g0["nodes"][-1]))
    ctx.exhaustive = not any(o["graph"]["truncated"] for o in outs)


def replay(ctx, body):
    rec = body["record"]
    cls = DictStore if rec["binding"] == "dict" else EqSysStore
    s = cls(rec["depth"])
    nodes, edges = [project(s)], []
    for i, e in enumerate(rec["events"], 1):
        apply(s, e)
        nodes.append(project(s))
        edges.append([dict(e, dst=i + 1)])
    edges.append([])
    g = dict(nodes=nodes, edges=edges, truncated=False, cut=[False] * len(nodes))
    gfile = ctx.datafile("graph_replay.json", g)
    m, cf = tlc.gen(ctx.work / "replay", "MC_M_HistoryStore", "M_HistoryStore", dict(Depth=rec["depth"]), spec="MSpec",
                    invariants=INVS, properties=PROPS)
    mon = ctx.tlc(m, cf, workers=1, env={"VERIF_GRAPH": gfile})
    ctx.case(key="replay", n=len(edges))
    ctx.sample(rec["events"])
    if mon.violated:
        ctx.violation(mon.violated, rec, "replayed")
