"""C44 Geometric clipping keeps exactly the parts inside the domain.

spec/ref/Clip.tla          exact inside-intervals of a lattice segment w.r.t. a lattice polygon; cell / area predicates
spec/ref/ClipFamilies.tla  the calls TLC enumerates (+ model law)
spec/trace/J_Clip.tla      LineClipInside / LineClipUnion / LineClipTags, PolyClipInside / PolyClipArea

Python only: builds the numpy arguments, runs lines_by_polygon / polygons_by_polyhedron, converts returned coordinates
to exact rationals over a common denominator."""
from __future__ import annotations

from fractions import Fraction
from math import lcm

import numpy as np

from .. import codec, tlc

LEVEL = "translation_validation"
FNS = ["lines_by_polygon", "polygons_by_polyhedron"]
CLAUSES = ["LineClipInside", "LineClipUnion", "LineClipTags", "PolyClipInside", "PolyClipArea",
           "PolyClipInsideEdgeInPlane", "PolyClipAreaEdgeInPlane", "PolyClipInsideVertexTouch", "PolyClipAreaVertexTouch"]
MAXDEN = 1000
MAXM = 500      # polygons_by_polyhedron: common denominator of all piece vertices of a case
MAXM_LINE = 200 # lines_by_polygon: denominator of one end point (true values: <= 128)
def _area_n(verts, nrm):
    """n . sum of cross products (v_i - v_1) x (v_{i+1} - v_1): 2 |n| x signed area for exact integer vertices"""
    v0 = verts[0]
    tot = [0, 0, 0]
    for a, b in zip(verts, verts[1:] + verts[:1]):
        u = [a[k] - v0[k] for k in range(3)]
        w = [b[k] - v0[k] for k in range(3)]
        c = [u[1] * w[2] - u[2] * w[1], u[2] * w[0] - u[0] * w[2], u[0] * w[1] - u[1] * w[0]]
        tot = [tot[k] + c[k] for k in range(3)]
    return sum(tot[k] * nrm[k] for k in range(3))


def _loses_area(r):
    """the returned pieces (all inside, says the sibling clause) cover LESS than the polygon: part of the intersection is lost"""
    poly = r["in"]["poly"]
    v0 = poly[0]
    nrm = [0, 0, 0]
    for a, b in zip(poly, poly[1:] + poly[:1]):
        u = [a[k] - v0[k] for k in range(3)]
        w = [b[k] - v0[k] for k in range(3)]
        c = [u[1] * w[2] - u[2] * w[1], u[2] * w[0] - u[0] * w[2], u[0] * w[1] - u[1] * w[0]]
        nrm = [nrm[k] + c[k] for k in range(3)]
    m = r["out"]["m"]
    got = sum(abs(_area_n(pc["verts"], nrm)) for pc in r["out"]["pieces"])
    return got < m * m * abs(_area_n(poly, nrm))


MATCHERS = {
    # degenerate placement (an edge of the polyhedron lies in the plane of the polygon - the class is the clause, decided
    # by TLC): the function returns normally, every piece is inside, but part of the intersection is lost (area deficit).
    # Pieces outside (clause PolyClipInsideEdgeInPlane), surplus area, exceptions and all non-degenerate placements are NOT matched.
    "polyclip_edge_in_plane_loses_area": lambda r: r["clause"] == "PolyClipAreaEdgeInPlane" and r["fn"] == "polygons_by_polyhedron"
    and r["ok"] is True and r["out"]["x"] is True and _loses_area(r),
    # the polygon lies in one closed cell and touches its boundary with exactly one vertex (class = clause, decided by TLC):
    # the in-polyhedron safeguard sees mixed vertices and hits `assert False`.  Wrong pieces or any other error are NOT matched.
    "polyclip_single_vertex_touch_asserts": lambda r: r["clause"] in ("PolyClipInsideVertexTouch", "PolyClipAreaVertexTouch")
    and r["fn"] == "polygons_by_polyhedron" and r["ok"] is False and r.get("err", "").startswith("AssertionError"),
}


def _fr(v):
    return [Fraction(*codec.rat(float(c), MAXDEN)) for c in np.asarray(v, float).ravel()]


def _common(vs):
    m = lcm(*[c.denominator for v in vs for c in v]) if vs else 1
    if m > MAXM_LINE:
        raise codec.Inexact(m)
    return [[int(c * m) for c in v] for v in vs], m


def call(fn, inp):
    import porepy as pp

    cg = pp.constrain_geometry
    if fn == "lines_by_polygon":
        poly = np.array(inp["poly"], float).T
        pts = np.array(inp["pts"], float).T
        edges = np.array(inp["edges"], dtype=int).T
        ipts, iedges, kept = cg.lines_by_polygon(poly, pts, edges)
        pieces, x = [], True
        ncol = iedges.shape[1]
        if not (len(kept) == ncol):
            raise RuntimeError(f"edges_kept has {len(kept)} entries for {ncol} pieces")
        for k in range(ncol):
            try:
                (p,), mp = _common([_fr(ipts[:, int(iedges[0, k])])])
                (q,), mq = _common([_fr(ipts[:, int(iedges[1, k])])])
            except codec.Inexact:
                x, p, q, mp, mq = False, [0, 0], [0, 0], 1, 1
            pieces.append(dict(p=p, mp=mp, q=q, mq=mq, edge=int(kept[k]), tag=int(iedges[2, k])))
        return dict(x=x, pieces=pieces)
    if fn == "polygons_by_polyhedron":
        poly = np.array(inp["poly"], float).T
        raw = []
        for ci, cell in enumerate(inp["cells"], 1):
            faces = [np.array(f, float).T for f in cell]
            out, ind = cg.polygons_by_polyhedron(poly.copy(), faces)
            for pc, o in zip(out, np.asarray(ind).ravel()):
                raw.append((ci, int(o), [_fr_or_none(pc[:, j]) for j in range(pc.shape[1])]))
        x = all(v is not None for _, _, vs in raw for v in vs)
        m = 1
        if x:
            m = lcm(*[c.denominator for _, _, vs in raw for v in vs for c in v]) if raw else 1
            x = m <= MAXM
        pieces = []
        for ci, o, vs in raw:
            pieces.append(dict(cell=ci, orig=o, verts=[[int(c * m) for c in v] for v in vs] if x else [[0, 0, 0]] * 3))
        return dict(x=x, m=m if x else 1, pieces=pieces)
    raise ValueError(fn)


def _fr_or_none(v):
    try:
        return _fr(v)
    except codec.Inexact:
        return None


def execute(rec):
    fn = rec["fn"]
    inp = {k: v for k, v in rec.items() if k != "fn"}
    try:
        out, ok, err = call(fn, inp), True, ""
    except Exception as e:
        out, ok, err = dict(x=False, m=1, pieces=[]), False, f"{type(e).__name__}: {e}"[:200]
    return dict(fn=fn, **{"in": inp}, ok=ok, out=out, err=err)


def judge_cases(ctx, cases, tag=None):
    for v in ctx.judge("J_Clip", cases, CLAUSES, tag=tag, timeout=1800):
        c = cases[v["case"] - 1]
        i = {k: v_ for k, v_ in c["in"].items() if k != "cells"}
        ctx.violation(v["clause"], c, f"{c['fn']} in={i} ok={c['ok']} {c.get('err', '')} out={c['out']}"[:500])


def run(ctx):
    import os

    fns = [f for f in FNS if f in os.environ.get("VERIF_ONLY", ",".join(FNS)).split(",")]  # development aid
    ctx.rule = ("TLC enumerates lattice segments (single and tagged triples) against six convex / non-convex lattice polygons "
                "(segments running along the boundary excluded by the exact predicate OverlapsBoundary) and planar lattice polygons "
                "against every cell of convex tilings (8 cubes, 6 Kuhn tetrahedra); every call runs on the real code; TLC checks "
                "pieces-inside, union = exact inside-intervals, tags, and for polyhedra containment + area conservation over the "
                "tiling; key = function x polygon x number of pieces")
    ctx.assumptions = ["segments overlapping the polygon boundary are excluded (the code drops them on purpose)",
                       "isolated touching points carry no piece",
                       "polygons_by_polyhedron is validated through tilings: containment of piece vertices / edge mid points and "
                       "area conservation (weaker than an exact clipped polygon); the plane of the polygon is not a cell face plane",
                       "returned coordinates must be rationals with common denominator <= 500 (true for lattice input)"]
    m, cf = tlc.gen(ctx.work / "enum", "MC_ClipFamilies", "ClipFamilies", dict(Fns=set(fns), Big=not ctx.quick),
                    invariants=["Emit", "LawCover"])
    res = ctx.tlc(m, cf, workers=8, allow_violation=False, timeout=1800)
    cases = [execute(r) for r in res.records]
    per_fn = {}
    for c in cases:
        per_fn[c["fn"]] = per_fn.get(c["fn"], 0) + 1
        ctx.case(key=(c["fn"], str(c["in"]["poly"]), len(c["out"]["pieces"])), nontrivial=c["ok"] and len(c["out"]["pieces"]) > 0)
        if c["ok"] and not c["out"]["x"]:
            ctx.inconclusive += 1
    for fn in FNS:
        ex = next((c for c in cases if c["fn"] == fn and len(c["out"]["pieces"]) >= 2), None)
        if ex is not None:
            s = {k: v for k, v in ex.items() if k != "err"}
            if fn == "polygons_by_polyhedron":
                s = dict(s, **{"in": dict(poly=ex["in"]["poly"], n_cells=len(ex["in"]["cells"]))})
            ctx.sample(s)
    ctx.extra["calls_emitted_by_tlc"] = len(res.records)
    ctx.extra["calls_per_function"] = per_fn
    judge_cases(ctx, cases)
    ctx.exhaustive = True


def replay(ctx, body):
    rec = body["record"]
    c = execute(dict(rec["in"], fn=rec["fn"]))
    ctx.case(key=("replay", c["fn"]))
    ctx.sample({k: v for k, v in c.items() if k != "in"})
    judge_cases(ctx, [c], tag="replay")
