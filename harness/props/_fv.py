"""Shared driver for C11 (MPFA), C12 (TPFA) and C18 (RT0 / MVEM).

Nothing here decides a property.  The functions
  * ask TLC (spec/ref/FvOracleEnum.tla) for the configurations of a family,
  * build the porepy grid of a configuration (via _grids.build), export its topology for TLC,
  * obtain the exact input data (cell-centre pressures, boundary values) from TLC (J_FvOracle!TellInputs),
  * run the real discretisations,
  * convert the doubles they return to <<n, d, cls>> triples (closest rational with denominator <= 1e5 and
    the band of the deviation: 0 within 1e-9, 1 within 1e-6, 2 beyond - relative to max(1, |x|)),
  * hand the recorded cases to TLC (J_FvOracle!MpfaAll / TpfaAll / MixedAll) and dispatch its verdict records.
"""
from __future__ import annotations

import json
import warnings
from fractions import Fraction

import numpy as np
import scipy.sparse as sps

from .. import tlc
from . import _grids as G

MAXDEN = 10 ** 5
WORKERS = 8


# ---------------------------------------------------------------------------------------------------------------
# number conversion
def enc(x):
    """double -> [n, d, cls]"""
    x = float(x)
    if not abs(x) < 2.0 ** 13:  # no exact value of the families is that large
        if x != x or abs(x) == float("inf"):
            return [-(2 ** 29 + 1) if x < 0 else 2 ** 29 + 1, 1, 2]  # not a finite number
        return [-(2 ** 29) if x < 0 else 2 ** 29, 1, 2]  # finite but out of range: only its sign is kept
    f = Fraction(x).limit_denominator(MAXDEN)
    dev = abs(float(f) - x)
    s = max(1.0, abs(x))
    cls = 0 if dev <= 1e-9 * s else (1 if dev <= 1e-6 * s else 2)
    return [f.numerator, f.denominator, cls]


def enc_vec(v):
    return [enc(x) for x in np.asarray(v, dtype=float).ravel()]


def enc_rows(m, shape=None):
    """sparse matrix -> per row the list of [column (1-based), n, d, cls] of its entries that are not exactly
    representable as 0 (entries with |x| <= 1e-9 convert to [0, 1, 0] and are dropped)"""
    m = sps.csr_matrix(m)
    m.sum_duplicates()
    out = []
    for i in range(m.shape[0]):
        row = []
        for k in range(m.indptr[i], m.indptr[i + 1]):
            e = enc(m.data[k])
            if e[0] == 0 and e[2] == 0:
                continue
            row.append([int(m.indices[k]) + 1] + e)
        out.append(row)
    return out


def to_float(r):
    return float(Fraction(int(r[0]), int(r[1])))


# ---------------------------------------------------------------------------------------------------------------
# enumeration
def enumerate_configs(ctx, prop, sizes, mods, nvar, nk, nmask, exhnb, nti=1, tag="enum"):
    consts = dict(Prop=prop, Seed=int(ctx.seed) % 997, Sizes=set(tuple(s) for s in sizes), Mods=set(mods),
                  NVar=nvar, NK=nk, NMask=nmask, ExhNB=exhnb, NTI=nti)
    m, cf = tlc.gen(ctx.work / tag, "MC_FvOracleEnum", "FvOracleEnum", consts, invariants=["Emit", "LawSizes"])
    res = ctx.tlc(m, cf, workers=WORKERS, allow_violation=False)
    recs = sorted(res.records, key=lambda r: (r["base"]["dim"], r["base"]["id"], r["base"]["kmode"],
                                              str(r["base"]["kc"][0]), r["base"]["mask"]))
    return recs


# ---------------------------------------------------------------------------------------------------------------
# one configuration -> grid, exported case skeleton
def recipe_of(base):
    b = dict(kind=base["kind"], axes=base["axes"])
    if base["kind"] == "tensor":
        b["cart"] = True
    ops = []
    if base["scale"] != 1:
        ops.append(dict(op="scale", k=base["scale"]))
    if base["pert"]:
        ops.append(dict(op="perturb", d=base["pert"]))
    if base["shear"]:
        ops.append(dict(op="affine", A=base["shear"]))
    return dict(base=b, ops=ops)


class Setup:
    """grid (with the geometry porepy computed), exported topology, boundary types of one configuration"""

    def __init__(self, cfg):
        self.cfg = cfg
        base = cfg["base"]
        self.base = base
        self.dim = base["dim"]
        self.error = ""
        g, _ = G.build(recipe_of(base))
        self.export = G.export(g)  # integer nodes of the pre-image
        self.motion = None
        if cfg.get("embedded"):
            mo = cfg["motion"]
            R = np.asarray(mo["M"], dtype=float) / mo["n"]
            g.nodes = R @ g.nodes + np.asarray(mo["t"], dtype=float).reshape((3, 1))
            self.motion = mo
        self.g = g
        with warnings.catch_warnings():
            warnings.simplefilter("ignore")
            try:
                g.compute_geometry()
            except Exception as e:  # observation: the grid of an in-family configuration could not be set up
                self.error = f"compute_geometry: {type(e).__name__}: {e}"[:200]
        # boundary faces from the topology: faces that belong to exactly one cell, ascending
        count = np.zeros(g.num_faces, dtype=int)
        for cell in self.export["cf"]:
            for f, _s in cell:
                count[f - 1] += 1
        self.bfaces = [int(f) for f in np.flatnonzero(count == 1)]
        mask = base["mask"]
        if len(mask) != len(self.bfaces):
            raise RuntimeError(f"mask of length {len(mask)} for {len(self.bfaces)} boundary faces")
        self.bc = ["int"] * g.num_faces
        for f, b in zip(self.bfaces, mask):
            self.bc[f] = "dir" if b else "neu"
        self.het = base["kmode"] != "const"
        # heterogeneous tensors: only the constant field is meaningful
        self.fields = [f for f in base["fields"] if (not self.het) or f["g"] == [0, 0, 0]]
        self.strict = not base["pert"]

    def sub(self):
        """the configuration as a member of its grid's case"""
        return dict(kc=self.base["kc"], bc=self.bc, nfld=len(self.fields), raised=self.error, out={})

    def grid_key(self):
        b = self.base
        return json.dumps([b["kind"], b["axes"], b["scale"], b["pert"], b["shear"], self.cfg.get("motion")])

    # ---- porepy objects
    def perm(self):
        import porepy as pp

        if self.motion is not None:
            n2 = float(self.motion["n"]) ** 2
            k = np.asarray(self.cfg["rotk"], dtype=float) / n2
            kc = np.tile(k, (self.g.num_cells, 1))
        else:
            kc = np.asarray(self.base["kc"], dtype=float)
        return pp.SecondOrderTensor(kxx=kc[:, 0].copy(), kyy=kc[:, 1].copy(), kzz=kc[:, 2].copy(),
                                    kxy=kc[:, 3].copy(), kxz=kc[:, 4].copy(), kyz=kc[:, 5].copy())

    def bcond(self):
        import porepy as pp

        bf = np.asarray(self.bfaces, dtype=int)
        return pp.BoundaryCondition(self.g, bf, [self.bc[f] for f in self.bfaces])


def key_of(s, scheme):
    b = s.base
    nd = sum(b["mask"])
    bcclass = "alldir" if nd == len(b["mask"]) else ("onedir" if nd == 1 else "mixed")
    full = any(k[3] or k[4] or k[5] for k in b["kc"])
    return (scheme, b["dim"], b["kind"], b["mod"], tuple(b["n"]), b["kmode"], "full" if full else "diag", bcclass,
            bool(s.cfg.get("embedded")))


# ---------------------------------------------------------------------------------------------------------------
# cases: one per grid, with all configurations run on it
class Group:
    def __init__(self, first):
        self.setups = []
        self.members = []  # global configuration indices
        self.export, self.strict, self.fields = first.export, first.strict, first.base["fields"]

    def case(self, subs=None):
        return dict(g=self.export, strict=self.strict, fields=self.fields,
                    subs=subs if subs is not None else [s.sub() for s in self.setups])


def group(setups):
    groups, index = [], {}
    for i, s in enumerate(setups):
        k = s.grid_key()
        if k not in index:
            index[k] = len(groups)
            groups.append(Group(s))
        g = groups[index[k]]
        g.setups.append(s)
        g.members.append(i)
    return groups


# ---------------------------------------------------------------------------------------------------------------
# pass 1: exact inputs from TLC
def exact_inputs(ctx, groups, tag):
    """per group None (outside the family) or the list per configuration of the list per field of
    dict(pc=floats, bcv=floats) - put together from what TLC returned: pressure at cell / face centres per field,
    outward flux over the boundary faces per configuration and field"""
    recs = ctx.judge("J_FvOracle", [g.case() for g in groups], ["TellInputs"], workers=WORKERS, tag=tag)
    out = [None] * len(groups)
    for r in recs:
        if r.get("tag") == "inputs":
            v, grp = r["val"], groups[r["case"] - 1]
            pc = [np.array([to_float(x) for x in row]) for row in v["pc"]]
            pf = [np.array([to_float(x) for x in row]) for row in v["pf"]]
            bf = [int(f) - 1 for f in v["bf"]]
            per_sub = []
            for k, s in enumerate(grp.setups):
                if bf != s.bfaces:
                    raise RuntimeError("boundary faces of the harness and of the spec differ")
                flds = []
                for j in range(len(s.fields)):
                    bcv = np.zeros(len(s.bc))
                    for i, f in enumerate(bf):
                        bcv[f] = pf[j][f] if s.bc[f] == "dir" else to_float(v["of"][k][j][i])
                    flds.append(dict(pc=pc[j], bcv=bcv))
                per_sub.append(flds)
            out[r["case"] - 1] = per_sub
        elif r.get("tag") == "outside":
            pass
        elif "clause" in r:
            raise RuntimeError(f"unexpected verdict in pass 1: {r}")
    return out


# ---------------------------------------------------------------------------------------------------------------
# the discretisations
def _data(s, extra=None):
    import porepy as pp

    spec = {"second_order_tensor": s.perm(), "bc": s.bcond()}
    spec.update(extra or {})
    return pp.initialize_data({}, "flow", spec)


def fv_matrices(s, scheme, inverter="python"):
    """flux, bound_flux, bound_pressure_cell, bound_pressure_face of Mpfa / Tpfa"""
    import porepy as pp

    data = _data(s, {"mpfa_inverter": inverter})
    discr = pp.Mpfa("flow") if scheme == "mpfa" else pp.Tpfa("flow")
    with warnings.catch_warnings():
        warnings.simplefilter("ignore")
        discr.discretize(s.g, data)
    M = data[pp.DISCRETIZATION_MATRICES]["flow"]
    return {k: sps.csr_matrix(M[k]) for k in ("flux", "bound_flux", "bound_pressure_cell", "bound_pressure_face")}


def run_mpfa(s, inputs, inverter="python"):
    """C11: apply the MPFA matrices to the exact data of every field"""
    case = s.sub()
    if not s.error:
        try:
            M = fv_matrices(s, "mpfa", inverter)
            q, pb = [], []
            for inp in inputs:
                q.append(enc_vec(M["flux"] @ inp["pc"] + M["bound_flux"] @ inp["bcv"]))
                pb.append(enc_vec(M["bound_pressure_cell"] @ inp["pc"] + M["bound_pressure_face"] @ inp["bcv"]))
            case["out"] = dict(q=q, pb=pb)
        except Exception as e:
            case["raised"] = f"{type(e).__name__}: {e}"[:200]
    return case


def run_tpfa(s, with_mpfa, inverter="python"):
    """C12: the four TPFA matrices entrywise (and the two MPFA flux matrices on tensor grids with diagonal K)"""
    case = s.sub()
    nf = s.g.num_faces
    empty = [[] for _ in range(nf)]
    if not s.error:
        try:
            M = fv_matrices(s, "tpfa")
            out = {k: enc_rows(M[k]) for k in M}
            out["mpfa_flux"], out["mpfa_bound_flux"] = empty, empty
            if with_mpfa:
                M2 = fv_matrices(s, "mpfa", inverter)
                out["mpfa_flux"], out["mpfa_bound_flux"] = enc_rows(M2["flux"]), enc_rows(M2["bound_flux"])
            case["out"] = out
        except Exception as e:
            case["raised"] = f"{type(e).__name__}: {e}"[:200]
    return case


_SHARED_MIXED = {}


def run_mixed(s, inputs, scheme):
    """C18: RT0 / MVEM system with Dirichlet data of every field, solved with a sparse direct solver"""
    import porepy as pp

    case = s.sub()
    if s.error:
        return case
    try:
        g = s.g
        # ONE discretisation object per scheme serves all grids one after the other, as the subdomains of a
        # mixed-dimensional grid are served by one object: nothing it keeps from an earlier grid may leak into the next.
        # The configuration it served before is recorded with the case (the replay re-executes it first).
        if scheme not in _SHARED_MIXED:
            _SHARED_MIXED[scheme] = [pp.RT0("flow") if scheme == "rt0" else pp.MVEM("flow"), None]
        discr, prev = _SHARED_MIXED[scheme]
        case["prevtag"] = json.dumps(prev)
        _SHARED_MIXED[scheme][1] = {k: v for k, v in s.cfg.items()}
        perm, bc = s.perm(), s.bcond()
        data = pp.initialize_data({}, "flow", {"second_order_tensor": perm, "bc": bc,
                                               "bc_values": np.zeros(g.num_faces)})
        with warnings.catch_warnings():
            warnings.simplefilter("ignore")
            discr.discretize(g, data)
            q, p = [], []
            for inp in inputs:
                data[pp.PARAMETERS]["flow"]["bc_values"] = inp["bcv"].copy()
                A, b = discr.assemble_matrix_rhs(g, data)
                up = sps.linalg.spsolve(sps.csc_matrix(A), b)
                q.append(enc_vec(discr.extract_flux(g, up, data)))
                p.append(enc_vec(discr.extract_pressure(g, up, data)))
        mass = sps.csr_matrix(data[pp.DISCRETIZATION_MATRICES]["flow"]["mass"])
        dense = mass.toarray()
        scale = float(np.max(np.abs(dense))) or 1.0
        asym = float(np.max(np.abs(dense - dense.T))) / scale
        try:
            np.linalg.cholesky(dense)
            chol = True
        except np.linalg.LinAlgError:
            chol = False
        case["out"] = dict(q=q, p=p, mass=enc_rows(mass), asym=int(min(2 ** 30, round(asym * 1e15))), chol=chol)
    except Exception as e:
        case["raised"] = f"{type(e).__name__}: {e}"[:200]
    return case


# ---------------------------------------------------------------------------------------------------------------
# pass 2: verdicts
def judge(ctx, invariant, groups, subs, cfgs, schemes, tag):
    """groups[i] with subs[i] (list of recorded configurations, aligned with groups[i].members); cfgs / schemes are
    indexed by the global configuration index.  Dispatches violations / counts; returns the indices of the groups
    TLC found outside the family"""
    cases = [g.case(sb) for g, sb in zip(groups, subs)]
    recs = ctx.judge("J_FvOracle", cases, [invariant], workers=WORKERS, tag=tag)
    outside = set()
    singular = {(r["case"] - 1, r["sub"] - 1): r["val"] for r in recs if r.get("tag") == "singular"}
    degenerate = {(r["case"] - 1, r["sub"] - 1): r["val"] for r in recs if r.get("tag") == "degenerate"}
    for r in recs:
        t = r.get("tag")
        gi = r["case"] - 1
        if t == "outside":
            outside.add(gi)
            continue
        k = r["sub"] - 1
        i = groups[gi].members[k]
        if t == "inconclusive":
            ctx.inconclusive += int(r["val"])
        elif t == "degenerate":
            ctx.extra["configurations_with_degenerate_corners"] = ctx.extra.get("configurations_with_degenerate_corners", 0) + 1
        elif t == "singular":
            ctx.extra["configurations_with_singular_faces"] = ctx.extra.get("configurations_with_singular_faces", 0) + 1
        elif t in ("noref", "skipped"):
            ctx.extra[t] = ctx.extra.get(t, 0) + int(r["val"])
        elif t == "refdiff":
            ctx.drift("TPFA matrices differ from the transcribed two-point formula on a configuration that is not "
                      "K-orthogonal: " + describe(cfgs[i]), dict(cfg=cfgs[i]))
        elif "clause" in r:
            rec = dict(cfg=cfgs[i], scheme=schemes[i], raised=subs[gi][k]["raised"], observed=_digest(subs[gi][k]),
                       prev=json.loads(subs[gi][k].get("prevtag") or "null"),
                       singular_faces=singular.get((gi, k), []), degenerate_corners=degenerate.get((gi, k), []))
            ctx.violation(r["clause"], rec, describe(cfgs[i], schemes[i]))
    return outside


def _digest(case):
    """a short excerpt of the recorded output for the replay file (the replay recomputes everything)"""
    out = case.get("out") or {}
    d = {}
    for k, v in out.items():
        if isinstance(v, list):
            d[k] = v[:2] if not v or not isinstance(v[0], list) else [x[:6] for x in v[:2]]
        else:
            d[k] = v
    return d


def describe(cfg, scheme=""):
    b = cfg["base"]
    return (f"{scheme} {b['kind']} n={b['n']} mod={b['mod']} var={b['var']} K={b['kmode']}:{b['kc'][0]} "
            f"mask={''.join(map(str, b['mask']))}" + (f" motion n={cfg['motion']['n']}" if cfg.get("embedded") else ""))
