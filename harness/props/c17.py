"""C17 Upwinding picks the upstream cell and transports conservatively.

spec/ref/Upwind.tla       reference: upstream cell per face, supports of the boundary matrices, transcription of
                          Upwind.discretize (law Impl = Ref on nonzero-flux faces), exact explicit step + ValidStep
spec/ref/UpwindEnum.tla   TLC enumerates grids x flux-sign patterns x boundary-condition patterns x components and
                          stream functions (divergence-free integer fluxes) and checks the laws
spec/trace/J_Upwind.tla   TLC judges the matrices produced by pp.Upwind

Python builds the grids, calls Upwind.discretize / assemble_matrix_rhs and exports the integer matrices."""
from __future__ import annotations

import warnings

import numpy as np

from .. import codec, tlc
from .c21 import build, entries, grid_to_inc, inc_to_grid

LEVEL = "model_checking"
CLAUSES = ["InFamily", "Selection", "DirSupport", "NeuSupport", "TransportConserves", "TransportBounds"]
MACHINERY = {"InFamily"}
CAP = 8
KW = "transport"


def mat(m):
    return dict(shape=[int(m.shape[0]), int(m.shape[1])], ent=entries(m))


def discretize(g, flux, dir_faces, n):
    """Upwind.discretize on g; returns the three stored matrices."""
    import porepy as pp

    up = pp.Upwind(KW)
    bc = pp.BoundaryCondition(g, np.array(dir_faces, dtype=int), "dir") if dir_faces else pp.BoundaryCondition(g)
    # the data dictionary is first discretised with the COMPLEMENTARY boundary types (same flux), then with the types of the
    # case: what is judged is the second discretisation, which must follow the current parameters and nothing kept from
    # the first (a model re-discretises the same dictionary whenever its parameters change)
    bnd = np.where(g.tags["domain_boundary_faces"])[0]
    other = np.setdiff1d(bnd, np.array(dir_faces, dtype=int))
    bc0 = pp.BoundaryCondition(g, other, "dir") if other.size else pp.BoundaryCondition(g)
    data = pp.initialize_data(g, {}, KW, {up.flux_array_key: np.array(flux, dtype=float), "bc": bc0,
                                         "num_components": int(n), "bc_values": np.zeros(g.num_faces)})
    up.discretize(g, data)
    data[pp.PARAMETERS][KW]["bc"] = bc
    up.discretize(g, data)
    md = data[pp.DISCRETIZATION_MATRICES][KW]
    return up, data, dict(U=mat(md[up.upwind_matrix_key]), D=mat(md[up.bound_transport_dir_matrix_key]),
                          N=mat(md[up.bound_transport_neu_matrix_key]))


EXPS = [-40, 0, 30]  # flux magnitudes 2^e: ~1e-12, 1, ~1e9 (powers of two: every conversion stays exact)


def run_sel(g, G, s, bc, n, exps):
    base = [si * (1 + (f % 3)) for f, si in enumerate(s)]  # only the sign may matter
    dir_faces = [f for f, b in enumerate(bc) if b == "dir"]
    outs = []
    for e in exps:
        flux = [x * 2.0 ** e for x in base]
        try:
            _, _, out = discretize(g, flux, dir_faces, n)
            out.update(ok=True, e=e)
        except Exception as ex:  # noqa: BLE001 - a crash on an input of the family is "no matrix"
            z = dict(shape=[0, 0], ent=[])
            out = dict(ok=False, e=e, U=z, D=z, N=z, error=f"{type(ex).__name__}: {ex}"[:200])
        outs.append(out)
    return dict(kind="sel", g=G, s=s, bc=bc, n=n, flux=base, exps=list(exps), outs=outs)


def _unscale(m, e):
    """Matrix / vector in units of 2^e (exact: division by a power of two)."""
    return m * (2.0 ** (-e))


def run_tr(g, G, vol, r, exps):
    outs = []
    for e in exps:
        try:
            up, data, _ = discretize(g, [x * 2.0 ** e for x in r["flux"]], [], 1)
            A, rhs = up.assemble_matrix_rhs(g, data)
            rhs = _unscale(np.asarray(rhs, dtype=float).ravel(), e)
            if not np.array_equal(rhs, np.round(rhs)):
                raise RuntimeError(f"non-integer right-hand side {rhs}")
            out = dict(ok=True, e=e, A=entries(_unscale(A.tocsr(), e)), rhs=[int(x) for x in rhs])
        except RuntimeError:
            raise
        except Exception as ex:  # noqa: BLE001 - a crash on an input of the family is "no step"
            out = dict(ok=False, e=e, A=[], rhs=[0] * G["nc"], error=f"{type(ex).__name__}: {ex}"[:200])
        outs.append(out)
    return dict(kind="tr", g=G, flux=r["flux"], psi=r["psi"], vol=vol, inits=r["inits"], dts=r["dts"],
                exps=list(exps), outs=outs)


def tgrid(recipe):
    """Transport grid: incidence, orientation of each face normal relative to the stored node order
    (+1: normal = tangent n0 -> n1 rotated clockwise), cell volumes as rationals."""
    g = build(recipe)
    g.compute_geometry()
    G = grid_to_inc(g)
    orient = []
    for f in range(g.num_faces):
        a, b = G["fn"][f]
        t = g.nodes[:, b] - g.nodes[:, a]
        d = float(g.face_normals[0, f] * t[1] - g.face_normals[1, f] * t[0])
        if abs(d) < 1e-12:
            raise RuntimeError("degenerate face")
        orient.append(1 if d > 0 else -1)
    return g, dict(G=G, orient=orient, vol=[codec.rat(v) for v in g.cell_volumes])


def judge_cases(ctx, cases, tag, chunk=6000):
    recs = []
    for k in range(0, len(cases), chunk):  # bounded batches keep TLC's memory for the case file small
        for v in ctx.judge("J_Upwind", cases[k:k + chunk], CLAUSES, tag=f"{tag}{k // chunk}", workers=8):
            recs.append(dict(clause=v["clause"], case=v["case"] + k))
    seen = {}
    for v in sorted(recs, key=lambda r: (r["clause"], r["case"])):
        case = cases[v["case"] - 1]
        if v["clause"] in MACHINERY:
            raise RuntimeError(f"case outside the family handed to the judge: {str(case)[:400]}")
        seen[v["clause"]] = seen.get(v["clause"], 0) + 1
        if seen[v["clause"]] > CAP:
            continue
        ctx.violation(v["clause"], dict(case), _describe(case))
    if seen:
        ctx.extra["failing_cases_per_clause"] = seen


def _describe(c):
    if c["kind"] == "sel":
        return f"src={c['src']} signs={c['s']} bc={c['bc']} n={c['n']} U(2^e)={[(o['e'], o['U']['ent']) for o in c['outs']]}"[:500]
    return f"src={c['src']} flux={c['flux']} A/2^e={[(o['e'], o['A']) for o in c['outs']]}"[:500]


def run(ctx):
    warnings.filterwarnings("ignore")
    ctx.rule = ("selection: every (grid, sign pattern, boundary-condition pattern, components) emitted by TLC - all sign "
                "assignments on 1D chains, periodic base-3 patterns on 2D/3D grids, complexes with reversed normals "
                "and split faces instantiated with pp.Grid, real Cartesian / fractured grids - plus seeded random sign / "
                "condition assignments on larger real grids (2D, 3D, simplex, two fractures) is discretised with "
                "pp.Upwind at flux magnitudes 2^-40 (~1e-12), 1 and 2^30 (~1e9) and the three matrices of every "
                "magnitude are judged by TLC on the faces with nonzero flux; transport (same three magnitudes, dt "
                "scaled inversely so that the exact step is the same): every "
                "integer stream function on the interior nodes gives a divergence-free no-flow flux, the matrix of "
                "assemble_matrix_rhs is used by TLC for exact explicit steps (3 initial states x 2 steps) judged for "
                "conservation and the min/max principle; keys = (kind, grid, #nonzero faces, #dir, n) / (tr, grid, "
                "#faces with flux)")
    if ctx.quick:
        boxes = {("chain", 1, 1), ("chain", 2, 1), ("chain", 3, 1), ("quad", 2, 2), ("tri", 1, 1)}
        consts = dict(Boxes=boxes, MaskBits=2, SplitChoices={-1, 1}, MaxCells=8, SignPeriod=3, BcPeriod=2,
                      PsiVals={-1, 0, 2}, MaxChainFaces=4, Masks={0, 1})
        sel_recipes = [["cart", [2, 2]], ["cart", [3, 2]], ["frac", [[[1, 1], [0, 1]]], [2, 2], 0]]
        t_recipes = [["cart", [3, 3]]]
    else:
        boxes = {("chain", 1, 1), ("chain", 2, 1), ("chain", 3, 1), ("chain", 4, 1), ("quad", 2, 2), ("tri", 1, 1),
                 ("tri", 2, 1)}
        consts = dict(Boxes=boxes, MaskBits=2, SplitChoices={-1, 1}, MaxCells=8, SignPeriod=4, BcPeriod=3,
                      PsiVals={-2, -1, 0, 1, 2}, MaxChainFaces=5, Masks={0, 1, 2})
        sel_recipes = [["cart", [2, 2]], ["cart", [3, 2]], ["cart", [2, 1, 1]], ["stri", [2, 1]],
                       ["frac", [[[1, 1], [0, 1]]], [2, 2], 0], ["frac", [[[1, 2], [1, 1]]], [3, 2], 0],
                       ["frac", [[[1, 1, 1, 1], [0, 1, 1, 0], [0, 0, 1, 1]]], [2, 1, 1], 0]]
        t_recipes = [["cart", [3, 3]], ["stri", [3, 3]], ["cart", [4, 2]]]
    sel_grids = [build(rc) for rc in sel_recipes]
    sel_G = [grid_to_inc(g) for g in sel_grids]
    tg = [tgrid(rc) for rc in t_recipes]
    consts.update(SelGrids=sel_G, TGrids=[t for _, t in tg], ScaleExps=set(EXPS))
    res = ctx.tlc(*tlc.gen(ctx.work / "enum", "MC_UpwindEnum", "UpwindEnum", consts, spec="USpec",
                           invariants=["ULaws", "UEmit"]), allow_violation=False, workers=8)
    cases = []
    for r in res.records:
        if r["src"] == "complex":
            g = inc_to_grid(r["g"], r["xy"])
            c = run_sel(g, r["g"], r["s"], r["bc"], r["n"], r["exps"])
            c["src"] = dict(kind="complex", tag=r["tag"], xy=r["xy"])
        elif r["src"] == "real":
            gi = r["gi"]
            c = run_sel(sel_grids[gi - 1], sel_G[gi - 1], r["s"], r["bc"], r["n"], r["exps"])
            c["src"] = dict(kind="real", recipe=sel_recipes[gi - 1], tag=r["tag"])
        else:
            gi = r["gi"]
            g, t = tg[gi - 1]
            c = run_tr(g, t["G"], t["vol"], r, r["exps"])
            c["src"] = dict(kind="tr", recipe=t_recipes[gi - 1])
        cases.append(c)
    # seeded random flux signs / boundary conditions / component counts on (larger) real grids
    rnd_recipes = sel_recipes + [["cart", [4, 3]], ["cart", [2, 2, 2]], ["stri", [2, 2]],
                                 ["frac", [[[1, 3], [1, 1]], [[2, 2], [0, 2]]], [4, 2], 0]]
    for rc in rnd_recipes:
        g = build(rc)
        G = grid_to_inc(g)
        for _ in range(25 if ctx.quick else 100):
            pz = ctx.rng.choice([0.0, 0.2, 0.5])
            s = [0 if ctx.rng.random() < pz else ctx.rng.choice([-1, 1]) for _ in range(G["nf"])]
            bc = ["int" if len(ps) == 2 else ctx.rng.choice(["dir", "neu"]) for ps in G["cf"]]
            c = run_sel(g, G, s, bc, ctx.rng.randint(1, 3), EXPS)
            c["src"] = dict(kind="real", recipe=rc, tag="random")
            cases.append(c)
    judge_cases(ctx, cases, "judge")
    for c in cases:
        if c["kind"] == "sel":
            nz = sum(1 for x in c["s"] if x)
            nd = sum(1 for b in c["bc"] if b == "dir")
            lab = str(c["src"].get("recipe") or c["src"]["tag"][:3]) + str(c["src"]["tag"] == "random")
            ctx.case(key=("sel", lab, nz, nd, c["n"]), nontrivial=nz > 0)
        else:
            nzf = sum(1 for x in c["flux"] if x)
            ctx.case(key=("tr", str(c["src"]["recipe"]), nzf), nontrivial=nzf > 0, n=len(c["inits"]) * len(c["dts"]))
    s1 = next(c for c in cases if c["kind"] == "sel" and c["src"]["kind"] == "real" and sum(map(abs, c["s"])) > 3)
    ctx.sample(dict(src=s1["src"], s=s1["s"], bc=s1["bc"], n=s1["n"], exps=s1["exps"],
                    U=s1["outs"][0]["U"]["ent"], D=s1["outs"][0]["D"]["ent"]))
    t1 = [c for c in cases if c["kind"] == "tr" and any(c["flux"])]
    if t1:
        ctx.sample(dict(src=t1[0]["src"], psi=t1[0]["psi"], flux=t1[0]["flux"], dts=t1[0]["dts"], exps=t1[0]["exps"],
                        A_in_units_of_scale=t1[0]["outs"][0]["A"]))
    ctx.exhaustive = True
    ctx.extra["selection_cases"] = sum(1 for c in cases if c["kind"] == "sel")
    ctx.extra["transport_cases"] = sum(1 for c in cases if c["kind"] == "tr")


def replay(ctx, body):
    warnings.filterwarnings("ignore")
    rec = body["record"]
    src = rec["src"]
    if rec["kind"] == "sel":
        if src["kind"] == "complex":
            g, G = inc_to_grid(rec["g"], src["xy"]), rec["g"]
        else:
            g = build(src["recipe"])
            G = grid_to_inc(g)
        case = run_sel(g, G, rec["s"], rec["bc"], rec["n"], rec["exps"])
    else:
        g, t = tgrid(src["recipe"])
        case = run_tr(g, t["G"], t["vol"], rec, rec["exps"])
    case["src"] = src
    ctx.case(key="replay")
    ctx.sample(dict(src=src, outs=str(case["outs"])[:400]))
    judge_cases(ctx, [case], "replay")
