"""C11 MPFA reproduces linear pressure fields exactly.

spec/ref/FvOracle.tla      exact oracle on integer-coordinate grids: ExactFlux(f) = -(n_f . K g),
                           ExactBoundPressure(f) = p(x_f), boundary data, model laws (divergence theorem)
spec/ref/FvOracleEnum.tla  TLC enumerates grid recipe x SPD tensor x Dirichlet/Neumann mask (+ the linear fields)
spec/trace/J_FvOracle.tla  pass 1 (TellInputs): family membership and the exact input data; pass 2 (MpfaAll):
                           TLC compares every face flux / boundary pressure with the oracle

Python: builds the grid of every emitted configuration with the porepy constructors, discretises with pp.Mpfa,
applies flux * p + bound_flux * bc and bound_pressure_cell * p + bound_pressure_face * bc to the data TLC
returned, converts the doubles.  Black-box oracle: the spec fixes the required output on the enumerated family;
the local interaction-region systems are not modelled."""
from __future__ import annotations

from . import _fv

LEVEL = "exploration"
INVARIANT = "MpfaAll"
CLAUSES = ["Discretises", "FluxExact", "ConstantGivesZero", "BoundaryPressureExact"]


# Known-finding matcher.  TLC (FvOracle!DegenerateCorners) found a corner node - one cell, dim boundary faces - whose
# one-cell interaction region has a singular local system: the rows K n_f (Neumann faces) and x_f - x_c (Dirichlet
# faces) are linearly dependent.  Mpfa then returns matrices with entries ~1e16 and wrong fluxes without a diagnostic.
MATCHERS = {"mpfa_singular_corner_interaction_region":
            lambda r: r["clause"] in ("FluxExact", "ConstantGivesZero", "BoundaryPressureExact", "Discretises")
            and len(r.get("degenerate_corners") or []) > 0}


def tier(ctx):
    if ctx.quick:
        return dict(sizes=[(1, 1), (2, 1), (2, 2), (3, 2), (1, 1, 1), (2, 1, 1)], mods=["none", "tensor", "pert", "shear"],
                    nvar=1, nk=2, nmask=2, exhnb=4)
    return dict(sizes=[(1, 1), (2, 1), (2, 2), (3, 2), (3, 3), (1, 1, 1), (2, 1, 1), (2, 2, 1), (2, 2, 2), (3, 2, 2)],
                mods=["none", "tensor", "pert", "shear"], nvar=2, nk=2, nmask=4, exhnb=6, nti=3)


def execute(ctx, cfgs, tag, inverter_of=lambda i: "python"):
    setups = [_fv.Setup(c) for c in cfgs]
    groups = _fv.group(setups)
    inputs = _fv.exact_inputs(ctx, groups, f"{tag}_in")
    kept = [(g, inp) for g, inp in zip(groups, inputs) if inp is not None]
    ctx.extra["outside_family"] = ctx.extra.get("outside_family", 0) + sum(len(g.members) for g, inp in zip(groups, inputs) if inp is None)
    schemes = {i: f"mpfa/{inverter_of(i)}" for i in range(len(cfgs))}
    subs = [[_fv.run_mpfa(s, inp[k], inverter_of(i)) for k, (s, i) in enumerate(zip(g.setups, g.members))] for g, inp in kept]
    _fv.judge(ctx, INVARIANT, [g for g, _ in kept], subs, cfgs, schemes, f"{tag}_out")
    for g, _ in kept:
        for s in g.setups:
            ctx.case(key=_fv.key_of(s, "mpfa"), nontrivial=s.g.num_cells > 1 or sum(s.base["mask"]) < len(s.base["mask"]))
    return [g for g, _ in kept], subs


def run(ctx):
    ctx.rule = ("TLC enumerates (grid recipe: Cartesian/tensor, structured triangles / Kuhn tetrahedra, sizes <= 3 per "
                "direction, unit / non-uniform spacing / lattice perturbation / integer shear) x (integer SPD tensor from a "
                "catalogue, diagonal and full) x (Dirichlet/Neumann mask: all masks on grids with few boundary faces, "
                "all-Dirichlet + seeded masks otherwise); each configuration is discretised with pp.Mpfa and applied to a "
                "constant and 4 linear fields.  One evaluation = one configuration (all fields, all faces) judged by TLC; "
                "classes = (dim, kind, modification, size, tensor class, mask class); non-trivial = several cells or a "
                "mixed mask")
    ctx.assumptions = ["integer node coordinates, planar faces, valid cells (decided by TLC on the exported topology)",
                       "local systems inverted with mpfa_inverter='python' (quick); thorough runs every 50th configuration with 'numba'",
                       "doubles are compared through their closest rational with denominator <= 1e5: agreement within "
                       "1e-9, violation beyond 1e-6 (relative to max(1,|x|)), in between inconclusive (DESIGN section 8)",
                       "black-box oracle: the local interaction-region mechanism is not modelled"]
    t = tier(ctx)
    cfgs = _fv.enumerate_configs(ctx, "C11", **t)
    ctx.extra["configurations"] = len(cfgs)
    inv = (lambda i: "python") if ctx.quick else (lambda i: "numba" if i % 50 == 7 else "python")
    B = 1500
    for k in range(0, len(cfgs), B):
        groups, subs = execute(ctx, cfgs[k:k + B], f"b{k // B}", inv)
        for j in range(0, len(groups), max(1, len(groups) // 3)):
            s = groups[j].setups[-1]
            ctx.sample(dict(config=_fv.describe(s.cfg), cells=s.g.num_cells, faces=s.g.num_faces,
                            flux_last_field=subs[j][-1]["out"].get("q", [[]])[-1][:4]))
    ctx.exhaustive = True  # every emitted configuration was executed and judged


def replay(ctx, body):
    rec = body["record"]
    inverter = rec.get("scheme", "mpfa/python").split("/")[-1]
    execute(ctx, [rec["cfg"]], "replay", lambda i: inverter)
    ctx.sample(dict(config=_fv.describe(rec["cfg"])))
