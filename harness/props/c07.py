"""C07 Schur complement reduction reproduces the full solution.

spec/ref/SchurRef.tla (block composition of a primary/secondary split), spec/ref/SchurEnum.tla (TLC enumerates
sequences of admissible splits assembled on the SAME EquationSystem), spec/trace/J_Schur.tla (verdict).  Per
case a strictly diagonally dominant integer system with a manufactured integer solution dx* is built; for every
split of the sequence the real assemble_schur_complement_system -> spsolve -> expand_schur_complement_solution
(default inverter and a custom inverter) must return the solution of the full system; on a labelled copy of the
system the primary block and the secondary block handed to the inverter are read back label by label."""
from __future__ import annotations

import numpy as np
import scipy.sparse as sps
import scipy.sparse.linalg as spla

from .. import eqsys_fixture as fx
from .. import tlc
from .c06 import B, LabelledSystem

LEVEL = "model_checking"
CLAUSES = ["Assembles", "FullSolves", "ReducedReproducesFull", "CustomInverterReproducesFull", "PrimaryBlock",
           "SecondaryBlock"]


def catalogue():
    d = fx.domains()
    sds, intfs = d[0], d[3]
    g13 = [sds[0], sds[2]]
    cat = [dict(grids=sds, per=dict(cells=1, faces=0, nodes=0)),
           dict(grids=intfs, per=dict(cells=1, faces=0, nodes=0)),
           dict(grids=g13, per=dict(cells=1, faces=1, nodes=1))]
    vars_spec = [("a", 1, sds), ("b", 1, intfs), ("c", 2, g13)]
    return cat, vars_spec


def new_system():
    cat, vars_spec = catalogue()
    return LabelledSystem(vars_spec=vars_spec, cat=cat)


def var_of(s):
    """VarOf[e][g] (1-based sequences; 0 = none): counterpart variable of equation e on grid g."""
    names = {1: "a", 2: "b", 3: "c"}
    out = []
    for e in (1, 2, 3):
        row = [0] * len(s.gs)
        for r in s.vreg:
            if r["name"] == names[e]:
                row[r["g"] - 1] = r["vid"]
        out.append(row)
    return out


def numeric_system(s, rng):
    """Strictly diagonally dominant sparse integer J (rows: catalogue order, cols: s.col_label order) whose
    diagonal pairs row (e, g, k) with column (VarOf[e][g], k); small coupled groups + a few far couplings."""
    n = len(s.row_label)
    assert n == len(s.col_label)
    vo = var_of(s)
    col_of_row = [s.col_id[(vo[e - 1][g - 1], k)] for (e, g, k) in s.row_label]
    J = np.zeros((n, n), dtype=np.int64)
    idx = list(range(n))
    rng.shuffle(idx)
    groups, i = [], 0
    while i < n:
        k = rng.choice([1, 1, 2, 2, 3])
        groups.append(idx[i:i + k])
        i += k
    for g in groups:
        for r in g:
            for r2 in g:
                if r != r2 and rng.random() < 0.85:
                    J[r, col_of_row[r2]] = rng.choice([-2, -1, 1, 2])
    for _ in range(n):
        r, r2 = rng.randrange(n), rng.randrange(n)
        if r != r2:
            J[r, col_of_row[r2]] = rng.choice([-1, 1])
    for r in range(n):
        J[r, col_of_row[r]] = 2 + int(np.abs(J[r]).sum()) + rng.randrange(2)
    dx = np.array([rng.randint(-3, 3) for _ in range(n)], dtype=np.int64)   # in s.col_label order
    return J, J @ dx, dx


def prim_args(s, split, as_operator):
    names = {1: "a", 2: "b", 3: "c"}
    vo = var_of(s)
    if split[0][1]:
        eqs = {(s.ops[e] if as_operator else f"e{e}"): [s.gs[g - 1][1] for g in gl] for e, _, gl in split}
        pv = [s.var_obj[vo[e - 1][g - 1]] for e, _, gl in split for g in gl]
    else:
        eqs = [s.ops[e] if as_operator else f"e{e}" for e, _, _ in split]
        pv = [names[e] for e, _, _ in split]
    return eqs, pv


def ints(x):
    x = np.asarray(x, dtype=float).ravel()
    r = np.round(x)
    return [int(v) if abs(v - w) < 1e-8 and abs(v) < 10 ** 6 else 999999 for v, w in zip(r, x)]


def global_order(s, vec_in_col_label_order):
    """dx* is generated in s.col_label order; the solvers return vectors in global dof order."""
    out = np.zeros(len(s.col_label))
    for r in s.vreg:
        dofs = s.es.dofs_of([s.var_obj[r["vid"]]])
        for j, gd in enumerate(dofs):
            out[gd] = vec_in_col_label_order[s.col_id[(r["vid"], j)]]
    return out


def execute(case, seed, lab):
    """One sequence of splits on one real EquationSystem (numeric) + label read-back on `lab` (coded system)."""
    import random

    rng = random.Random(seed)
    s = new_system()
    J, b, dx = numeric_system(s, rng)
    s.numeric = (J, b)
    s.apply_history([["set", 1], ["set", 2], ["set", 3]])
    dxg = global_order(s, dx)
    out = dict(splits=case["splits"], vreg=s.vreg, dxstar=ints(dxg), res=[], seed=seed)
    for k, split in enumerate(case["splits"]):
        r = dict(error="", full=[], expanded=[], expandedc=[], prows=[], pcols=[], srows=[], scols=[])
        try:
            A, rhs = s.es.assemble()
            r["full"] = ints(spla.spsolve(sps.csc_matrix(A), rhs))
            eqs, pv = prim_args(s, split, as_operator=bool(k % 2))
            S, rs = s.es.assemble_schur_complement_system(eqs, pv)
            xp = np.atleast_1d(spla.spsolve(sps.csc_matrix(S), rs))
            r["expanded"] = ints(s.es.expand_schur_complement_solution(xp))
            S2, rs2 = s.es.assemble_schur_complement_system(
                eqs, pv, inverter=lambda M: sps.csr_matrix(np.linalg.inv(M.toarray())))
            xp2 = np.atleast_1d(spla.spsolve(sps.csc_matrix(S2), rs2))
            r["expandedc"] = ints(s.es.expand_schur_complement_solution(xp2))
            # label read-back on the coded system: a zero "inverse" makes S = A_pp and rhs_S = b_p
            seen = {}

            def zero_inv(M):
                seen["A_ss"] = M.copy()
                return sps.csr_matrix(M.shape)

            eqs_l, pv_l = prim_args(lab, split, as_operator=False)
            S0, rs0 = lab.es.assemble_schur_complement_system(eqs_l, pv_l, inverter=zero_inv)
            r["prows"], r["pcols"], _ = lab.decode(S0, -(-rs0))
            ss = seen["A_ss"]
            jr, jc, _ = lab.decode(ss, np.zeros(ss.shape[0]))
            r["srows"], r["scols"] = jr, jc
        except Exception as e:  # an exception of the code under test on an admissible split is an observation
            r["error"] = f"{type(e).__name__}: {e}"[:200]
        out["res"].append(r)
    return out


def consts(s, max_splits):
    cat, _ = catalogue()
    vreg = [dict(vid=r["vid"], name=r["name"], g=r["g"],
                 ndof=s.ndof[r["vid"]]) for r in s.vreg]
    return dict(Grids=fx.grid_consts(), DofTypes=fx.DOF_TYPES, EqCat=cat, VarOf=var_of(s), EqIds={1, 2, 3},
                GridChoices={"all", "first", "last", "ends", "none"}, MaxSplits=max_splits, VReg=vreg)


def judge(ctx, outs, s, prefix=""):
    cat, _ = catalogue()
    jc = dict(Grids=fx.grid_consts(), DofTypes=fx.DOF_TYPES, EqCat=cat, VarOf=var_of(s))
    for v in ctx.judge("J_Schur", outs, CLAUSES, consts=jc):
        o = outs[v["case"] - 1]
        if v["clause"] in ("PrimaryBlock", "SecondaryBlock"):
            # the block composition is mechanism: another row/column order of the blocks gives the same solution
            ctx.drift(f"{v['clause']}: block labels differ from SchurRef for splits={o['splits']}")
            continue
        ctx.violation(v["clause"], dict(splits=o["splits"], seed=o["seed"], res=o["res"], dxstar=o["dxstar"]),
                      f"{prefix}splits={o['splits']} errors={[r['error'] for r in o['res'] if r['error']]}")


def run(ctx):
    ctx.rule = ("TLC enumerates sequences of 1..3 admissible primary/secondary splits (subsets of 3 equations by name, or restricted "
                "to all/first/last/ends/none of their grids, with the counterpart variables as primary variables) assembled one after "
                "the other on the same EquationSystem; each is solved on a seeded strictly diagonally dominant integer system with a "
                "manufactured integer solution; a case is non-trivial when it has >= 2 different splits or a grid restriction")
    ctx.assumptions = ["the linear solves (scipy spsolve, block inverter) are black boxes: results within 1e-8 of integers are rounded, "
                       "anything else fails the clause", "systems are strictly diagonally dominant (condition numbers O(10))"]
    lab = new_system()
    lab.apply_history([["set", 1], ["set", 2], ["set", 3]])
    # all single splits exhaustively (with the model laws) ...
    m, cf = tlc.gen(ctx.work / "enum", "MC_SchurEnum", "SchurEnum", consts(lab, 1),
                    invariants=["Emit", "LawRowsPartition", "LawColsPartition", "LawSquare"])
    res = ctx.tlc(m, cf, workers=16, allow_violation=False, timeout=1500)
    singles = res.records
    # ... and simulated sequences of up to 3 splits on the same system (the history matters for the inverter)
    m, cf = tlc.gen(ctx.work / "sim", "MC_SchurSim", "SchurEnum", consts(lab, 3), invariants=["Emit"])
    sim = ctx.tlc(m, cf, workers=1, simulate=f"num={150 if ctx.quick else 4000}", depth=6, timeout=1500)
    seen, seqs = set(), []
    for r in sim.records:
        k = str(r["splits"])
        if len(r["splits"]) > 1 and k not in seen:
            seen.add(k)
            seqs.append(r)
    total = len(singles) + len(seqs)
    recs = singles + seqs
    if ctx.quick and len(recs) > 450:
        recs = ctx.rng.sample(singles, min(len(singles), 300)) + seqs[:150]
    outs = []
    for i, c in enumerate(recs):
        o = execute(c, ctx.seed * 100003 + i, lab)
        outs.append(o)
        sp = c["splits"]
        ctx.case(key=("case", i), nontrivial=len({str(x) for x in sp}) >= 2 or any(e[1] for x in sp for e in x))
    judge(ctx, outs, lab)
    ctx.extra["enumerated_cases"] = total
    ctx.extra["executed_cases"] = len(recs)
    ctx.exhaustive = len(recs) == total
    for o in outs[:1] + outs[-1:]:
        ctx.sample(dict(splits=o["splits"], dxstar=o["dxstar"][:8], first=dict(full=o["res"][0]["full"][:8],
                                                                               expanded=o["res"][0]["expanded"][:8],
                                                                               prows=o["res"][0]["prows"][:3], srows=o["res"][0]["srows"][:3])))


def replay(ctx, body):
    rec = body["record"]
    lab = new_system()
    lab.apply_history([["set", 1], ["set", 2], ["set", 3]])
    o = execute(dict(splits=rec["splits"]), rec["seed"], lab)
    ctx.case(key="replay")
    ctx.sample(rec["splits"])
    judge(ctx, [o], lab, prefix="replayed: ")
