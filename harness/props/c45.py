"""C45 Operator hash keys identify operator trees.

spec/ref/OperatorKeys.tla      operator trees as records, StructEq / Differ, single-site mutations
spec/ref/OperatorKeysEnum.tla  TLC enumerates pairs (t1, t2 = t1 rebuilt | one mutation of t1)
spec/trace/J_OperatorKeys.tla  TLC judges  _key() / hash() equality of the real operators against StructEq / Differ

Python builds every tree with the real porepy classes on the shared md-grid fixture (t1 and t2 from scratch, no shared
objects) and records two booleans: keys equal, hashes equal."""
from __future__ import annotations

import json
import operator

import numpy as np
import scipy.sparse as sps

from .. import eqsys_fixture as fx
from .. import tlc

LEVEL = "model_checking"
CLAUSES = ["EqualKeys", "DistinctKeys", "HashFollowsKey"]
DRIFT = ["KeyAsModelled"]
R = tlc.Raw
BATCH = 5000
PYOP = {"add": operator.add, "sub": operator.sub, "mul": operator.mul, "div": operator.truediv,
        "matmul": operator.matmul, "pow": operator.pow}
VARLIKE = ("var", "mdvar", "tdarray")


# ------------------------------------------------------------------------------------------ grid catalogue
_CAT = {}


def catalogue():
    """[(kind, grid)]: subdomains, then interfaces, then boundary grids of the fixture md-grid (1-based in the spec)."""
    if "c" not in _CAT:
        m = fx.mdg()
        _CAT["c"] = ([("sd", g) for g in m.subdomains()] + [("intf", g) for g in m.interfaces()]
                     + [("bg", g) for g in m.boundaries()])
    return _CAT["c"]


def ngrids():
    c = catalogue()
    return [sum(1 for k, _ in c if k == x) for x in ("sd", "intf", "bg")]


# ------------------------------------------------------------------------------------------ leaf catalogue (TLA text)
def leaf_sets(ctx):
    nsd, nif, nbg = ngrids()
    i1 = nsd + 1  # first interface
    b1 = nsd + nif + 1  # first boundary grid
    core = ['Scalar(1)', 'Dense(<<1, 2>>)', 'Sparse("csr", 2, 2, <<1, 0, 0, 2>>)', 'Var("p", 1, 0, 0)',
            'MdVar("p", <<1, 2>>, 0, 0)', 'TdArray("s", <<1>>, 0)', 'Proj(<<0, 1>>, <<1, 0>>, 3, 4, FALSE)']
    more = ['Scalar(2)', 'Dense(<<1, 2, 3>>)', 'Sparse("csc", 2, 3, <<1, 0, 2, 0, 3, 0>>)', 'Var("p", 1, 1, 0)',
            'Var("p", 1, 0, 1)', 'Var("q", 2, 2, 0)', f'Var("p", {i1}, 0, 0)', 'MdVar("p", <<1, 2>>, 1, 0)',
            f'MdVar("q", <<{i1}, {i1 + 1}>>, 0, 1)', 'TdArray("s", <<1>>, 1)', f'TdArray("s", <<{b1}>>, 0)',
            'Proj(<<0, 1>>, <<1, 0>>, 3, 4, TRUE)', 'Proj(<<0, 2>>, <<0, 1>>, 3, 2, FALSE)', 'Proj(<<0, 1>>, <<0, 1>>, 2, 2, FALSE)',
            'ProjLong(1200, 0)', 'ProjLong(1200, 600)',
            # the same leaves on permuted domain lists (the order of the domains is the order of the values)
            'TdArray("s", <<1, 2>>, 0)', 'TdArray("s", <<2, 1>>, 0)', 'MdVar("p", <<2, 1>>, 0, 0)']
    core2q = ['Scalar(1)', 'Var("p", 1, 0, 0)', 'Proj(<<0, 1>>, <<1, 0>>, 3, 4, FALSE)']
    core2t = core2q + ['TdArray("s", <<1>>, 1)']
    st = lambda xs: R("{" + ", ".join(xs) + "}")
    tags = {"add", "sub", "mul", "div", "matmul", "pow"}
    if ctx.quick:
        return dict(NGrids=[nsd, nif, nbg], AllLeaves=st(core + more), CoreLeaves=st(core), Core2=st(core2q), Tags1=tags,
                    Tags2={"add", "matmul"})
    return dict(NGrids=[nsd, nif, nbg], AllLeaves=st(core + more), CoreLeaves=st(core + more[:3] + more[3:5]), Core2=st(core2t),
                Tags1=tags, Tags2={"add", "sub", "matmul"})


# ------------------------------------------------------------------------------------------ real operators
def _grid(d):
    return catalogue()[d - 1][1]


def _shift(op, ts, it, chain):
    """direct: one call with steps = ts / it, nothing hashed.  chain: single steps, the operator hashed before each."""
    for n, f in ((ts, "previous_timestep"), (it, "previous_iteration")):
        if n and chain:
            for _ in range(n):
                hash(op)
                op = getattr(op, f)()
        elif n:
            op = getattr(op, f)(steps=n)
    return op


def build(t, route="direct", n=[0]):
    """Packed tree -> real operator by a build route (OperatorKeys!Routes); transposes alternate between .T and
    .transpose()."""
    import porepy as pp

    if not isinstance(route, str):
        r, s, base = route
        if r in ("treeT", "treeI"):
            op = build(base, "direct")
            for _ in range(s):
                hash(op)
                op = op.previous_timestep() if r == "treeT" else op.previous_iteration()
            return op
        route = r
    chain = route == "chain"
    k = t[0]
    if len(t) == 9:
        _, name, a, b, m, nn, ts, it, flag = t
        if k == "scalar":
            return pp.ad.Scalar(m)
        if k == "dense":
            return pp.ad.DenseArray(np.array(a, dtype=float))
        if k == "sparse":
            mat = np.array(a, dtype=float).reshape(m, nn)
            return pp.ad.SparseArray({"csr": sps.csr_matrix, "csc": sps.csc_matrix}[name](mat))
        if k == "var":
            return _shift(pp.ad.Variable(name, {"cells": 1}, _grid(a[0])), ts, it, chain)
        if k == "mdvar":
            return _shift(pp.ad.MixedDimensionalVariable([pp.ad.Variable(name, {"cells": 1}, _grid(d)) for d in a]), ts, it, chain)
        if k == "tdarray":
            return _shift(pp.ad.TimeDependentDenseArray(name, [_grid(d) for d in a]), ts, 0, chain)
        if k == "proj":
            p = pp.ad.Projection(np.array(a, dtype=int), np.array(b, dtype=int), m, nn)
            if flag:
                n[0] += 1
                p = p.T if n[0] % 2 else p.transpose()
            return p
        if k == "projlong":
            rng = np.arange(m)
            if nn:
                rng[[nn, nn + 1]] = rng[[nn + 1, nn]]
            return pp.ad.Projection(np.arange(m), rng, m, m)
        raise ValueError(k)
    ch = [build(c, route) for c in t[2]]
    if k == "op":
        return PYOP[t[1]](ch[0], ch[1])
    if k == "fn":
        return pp.ad.Function(getattr(pp.ad.functions, t[1]), t[1])(*ch)
    if k == "plist":
        return pp.ad.sum_projection_list(ch)
    raise ValueError(k)


def execute(pair):
    route = pair.get("route") or ["direct", 0, pair["t2"]]
    out = dict(t1=pair["t1"], t2=pair["t2"], route=route, keyeq=False, hasheq=False, err="", k1="", k2="")
    try:
        o1, o2 = build(pair["t1"], "direct"), build(pair["t2"], route)
        k1, k2 = o1._key(), o2._key()
        out.update(keyeq=bool(k1 == k2), hasheq=bool(hash(o1) == hash(o2)), k1=k1[:300], k2=k2[:300])
    except Exception as e:  # an exception on an in-family tree is an observation: the clauses fail in TLC
        out["err"] = f"{type(e).__name__}: {e}"[:200]
    return out


# ------------------------------------------------------------------------------------------ structural diff (bookkeeping, matchers)
def sites(t1, t2, path="", under=()):
    """Where two packed trees differ: list of (path, kind, field, ancestors' kinds); field 'shape' if not comparable."""
    if len(t1) != len(t2) or t1[0] != t2[0]:
        return [(path, t1[0], "shape", under)]
    if len(t1) == 9:
        names = ("k", "name", "a", "b", "m", "n", "ts", "it", "flag")
        return [(path, t1[0], names[i], under) for i in range(1, 9) if t1[i] != t2[i]]
    out = []
    if t1[1] != t2[1]:
        out.append((path, t1[0], "name", under))
    if len(t1[2]) != len(t2[2]):
        return out + [(path, t1[0], "shape", under)]
    for i, (c1, c2) in enumerate(zip(t1[2], t2[2])):
        out += sites(c1, c2, f"{path}/{i}", under + (t1[0],))
    return out


def _tokens(t, erase_fn):
    if len(t) == 9:
        return [tuple(map(str, t))]
    head = ("fn",) if (t[0] == "fn" and erase_fn) else (t[0], t[1], len(t[2]))
    return [head] + [x for c in t[2] for x in _tokens(c, erase_fn)]


def _has(t, kind):
    return t[0] == kind or (len(t) == 3 and any(_has(c, kind) for c in t[2]))


def _ids(a):
    c = catalogue()
    return [c[d - 1][1].id for d in a]


def _leaf_at(t, path):
    for i in [int(x) for x in path.split("/") if x]:
        t = t[2][i]
    return t


def _m_fn(rec):
    """The trees contain function calls and become identical once the function names and argument groupings of the
    calls are erased (exp(p) / log(p); f(g(a), b) / f(g(a, b))): `evaluate` nodes print neither."""
    return (rec["clause"] == "DistinctKeys" and _has(rec["t1"], "fn")
            and _tokens(rec["t1"], True) == _tokens(rec["t2"], True))


def _m_domain_kind(rec):
    """All differences are domains of variables / time-dependent arrays, and the exchanged domains are grids of another
    kind (subdomain / interface / boundary grid) with the same id."""
    s = sites(rec["t1"], rec["t2"])
    if rec["clause"] != "DistinctKeys" or not s or not all(k in VARLIKE and f == "a" for _, k, f, _ in s):
        return False
    return all(_ids(_leaf_at(rec["t1"], p)[2]) == _ids(_leaf_at(rec["t2"], p)[2]) for p, _, _, _ in s)


def _m_plist(rec):
    """All differences lie inside a ProjectionList, in data its key (the repr of the projections) does not show:
    index values and the range size (the repr shows the domain size and the number of indices only)."""
    s = sites(rec["t1"], rec["t2"])
    if rec["clause"] != "DistinctKeys" or not s:
        return False
    for p, k, f, under in s:
        if "plist" not in under or k != "proj":
            return False
        transposed = _leaf_at(rec["t1"], p)[8]
        if not (f in ("a", "b") or f == ("m" if transposed else "n")):
            return False
    return True


def _m_tree_shift(rec):
    """t2 was built by pushing back a composite tree whose key had been cached (route treeT / treeI) and its key is
    still that of the tree the route started from: t2 rebuilt differs from itself (EqualKeys), or t1 is that start tree
    (DistinctKeys)."""
    r, s, base = rec["route"]
    if r not in ("treeT", "treeI"):
        return False
    return (rec["clause"] == "EqualKeys" and rec["t1"] == rec["t2"]) or (rec["clause"] == "DistinctKeys" and rec["t1"] == base)


def _m_long(rec):
    """All differences are index values in the middle of index arrays with more than 1000 entries."""
    s = sites(rec["t1"], rec["t2"])
    return rec["clause"] == "DistinctKeys" and bool(s) and all(k == "projlong" and f == "n" for _, k, f, _ in s)


MATCHERS = {
    "function_not_in_key": _m_fn,
    "domain_kind_not_in_key": _m_domain_kind,
    "projection_list_key_from_repr": _m_plist,
    "long_index_array_abbreviated": _m_long,
    "tree_shift_keeps_cached_key": _m_tree_shift,
}


# ------------------------------------------------------------------------------------------ driver
def _show(t):
    if len(t) == 9:
        k, name, a, b, m, n, ts, it, flag = t
        d = {"scalar": f"Scalar({m})", "dense": f"Dense({a})", "sparse": f"Sparse({name},{m}x{n},{a})",
             "var": f"Var({name},dom{a},ts={ts},it={it})", "mdvar": f"MdVar({name},doms{a},ts={ts},it={it})",
             "tdarray": f"TdArray({name},doms{a},ts={ts})",
             "proj": f"Proj(dom={a},rng={b},ds={m},rs={n}){'.T' if flag else ''}", "projlong": f"ProjLong(len={m},swap@{n})"}
        return d[k]
    return f"{t[1] or t[0]}(" + ", ".join(_show(c) for c in t[2]) + ")"


def _class_key(c):
    s = sites(c["t1"], c["t2"])
    root = c["t1"][0] if len(c["t1"]) == 9 else c["t1"][0] + ":" + str(c["t1"][1])
    return (root, c["route"][0], tuple(sorted({(k, f) for _, k, f, _ in s})))


def judge(ctx, cases, prefix=""):
    for b in range(0, len(cases), BATCH):
        chunk = cases[b:b + BATCH]
        slim = [{k: c[k] for k in ("t1", "t2", "route", "keyeq", "hasheq", "err")} for c in chunk]
        for v in ctx.judge("J_OperatorKeys", slim, CLAUSES + DRIFT, consts=dict(NGrids=ngrids(), TreeShiftKeepsKey=False), workers=8,
                           tag=f"j{len(ctx.tlc_runs)}"):
            if "clause" not in v:
                continue
            c = chunk[v["case"] - 1]
            if v["clause"] in DRIFT:
                ctx.drift(f"{v['clause']}: t1={_show(c['t1'])} t2={_show(c['t2'])} keys equal: {c['keyeq']}; key1={c['k1'][:100]!r} key2={c['k2'][:100]!r}")
                continue
            ctx.violation(v["clause"], c, prefix + f"t1={_show(c['t1'])}  t2={_show(c['t2'])} built by {c['route'][0]}"
                          + (f"({c['route'][1]} steps from {_show(c['route'][2])})" if c["route"][0].startswith("tree") else "")
                          + f"  keys equal: {c['keyeq']}, hashes equal: "
                          f"{c['hasheq']}" + (f", raised {c['err']}" if c["err"] else f"; key1={c['k1'][:120]!r} key2={c['k2'][:120]!r}"))


def run(ctx):
    ctx.rule = ("TLC enumerates pairs (t1, t2): t1 over all catalogue leaves (Scalar, DenseArray, SparseArray, Variable, "
                "MixedDimensionalVariable, TimeDependentDenseArray, Projection incl. transposed and > 1000 indices), all depth-1 trees "
                "over the core leaves (6 operations, function calls with 1-2 arguments, projection lists) and depth-2 trees over a "
                "reduced leaf set (both association shapes, nested calls, projection list @ leaf); t2 = t1 rebuilt from scratch or one "
                "single-site mutation (scalar value, array entry / length, sparse entry / position / shape / format, variable name / "
                "domain / domain kind / time shift / iterate shift, projection domain size / range size / index / transposition, "
                "operation tag, function name, child order, regrouping). Every pair is built with the real classes on a real md-grid; "
                "evaluations = judged pairs; distinct = (root kind, mutated field) classes")
    ctx.assumptions = ["variables / arrays are built directly (pp.ad.Variable(name, ndof, grid), ...), not looked up in an EquationSystem",
                       "t1 is built 'direct' (one previous_timestep(steps=ts) / previous_iteration(steps=it) per leaf, nothing hashed); t2 "
                       "by every build route: chains of single shifts with the operator hashed before each step, and - for composite "
                       "trees whose time-dependent leaves are all pushed back - whole-tree previous_timestep / previous_iteration of "
                       "the hashed unshifted tree",
                       "two descriptions of one projection matrix (transpose of transposed data) are not judged either way",
                       "1-D dense arrays only; sparse matrices of the scipy *_matrix classes in csr / csc format"]
    consts = leaf_sets(ctx)
    m, cf = tlc.gen(ctx.work / "enum", "MC_OperatorKeysEnum", "OperatorKeysEnum", consts,
                    invariants=["Emit", "LawExclusive", "LawMutantsNotEqual", "LawRouteReachesTree", "LawPackRoundTrip"])
    res = ctx.tlc(m, cf, workers=8, allow_violation=False)
    cases = [execute(p) for p in sorted(res.records, key=lambda r: json.dumps(r, sort_keys=True))]
    for c in cases:
        ctx.case(key=_class_key(c), nontrivial=c["t1"] != c["t2"])
    judge(ctx, cases)
    ctx.programs = len(cases)
    ctx.exhaustive = True
    ctx.extra["identical_pairs"] = sum(1 for c in cases if c["t1"] == c["t2"])
    ctx.extra["pairs_with_equal_keys"] = sum(1 for c in cases if c["keyeq"])
    picks = [c for c in cases if c["t1"] != c["t2"]]
    for c in picks[:2] + picks[len(picks) // 2:len(picks) // 2 + 2] + picks[-2:]:
        ctx.sample(dict(t1=_show(c["t1"]), t2=_show(c["t2"]), keys_equal=c["keyeq"], hashes_equal=c["hasheq"]))


def replay(ctx, body):
    rec = body["record"]
    c = execute(dict(t1=rec["t1"], t2=rec["t2"], route=rec.get("route")))
    ctx.case(key="replay")
    ctx.sample(dict(t1=_show(c["t1"]), t2=_show(c["t2"]), keys_equal=c["keyeq"], hashes_equal=c["hasheq"], key1=c["k1"], key2=c["k2"]))
    judge(ctx, [c], prefix="replayed: ")
