"""C36 Array slicers act exactly like their projection matrices.

spec/ref/SlicerRef.tla   reference (explicit 0/1 projection matrices over the integers, value of the expression as
                         written), mechanism model (heap objects with one pending slot), program interpreter
spec/sys/Slicer.tla      TLC enumerates slicer programs: New / Transpose / MatmulSlicer / ROp / Apply statements over
                         all names bound so far (reuse of a slicer in a later statement included); design laws
spec/trace/J_Slicer.tla  TLC judges every Apply the real code executed

Python only builds the operands TLC wrote down, runs the statements on real ArraySlicer objects (second binding:
pp.ad.Projection operators evaluated by an EquationSystem) and turns the returned arrays into integer matrices."""
from __future__ import annotations

import json
import operator
import zlib

import numpy as np
import scipy.sparse as sps

from .. import tlc

LEVEL = "model_checking"
CLAUSES = ["ApplyEqualsRef"]
DRIFT = ["Mechanism"]
R = tlc.Raw
OPS = {"*": operator.mul, "/": operator.truediv, "+": operator.add, "-": operator.sub, "**": operator.pow,
       "@": operator.matmul}
BATCH = 5000


# ------------------------------------------------------------------------------------------ scenarios
def _S(dom, rng, ds, rs, mode):
    return dict(s=dict(dom=dom, rng=rng, ds=ds, rs=rs), mode=mode)


# three slicers per scenario whose sizes allow many chains; permutations, restrictions, injections, partial maps
SCENARIOS = [
    [_S([1, 0, 2], [0, 1, 2], 3, 3, "dom"), _S([0, 2], [0, 1], 3, 2, "dominf"), _S([0, 1], [2, 0], 2, 3, "rng")],
    [_S([0, 2], [1, 0], 3, 3, "full"), _S([0, 1, 2], [2, 0, 1], 3, 3, "rnginf"), _S([2, 1, 0], [0, 1, 2], 3, 3, "domrs")],
    [_S([3, 1], [0, 1], 4, 2, "dom"), _S([0, 1], [2, 0], 2, 4, "rng"), _S([0, 2, 3], [3, 0, 1], 4, 4, "infer")],
    [_S([1], [0], 2, 1, "dominf"), _S([0], [1], 1, 2, "rnginf"), _S([1, 0], [0, 1], 2, 2, "dom")],
]


ALLK = {"vec", "mat", "sp", "ad", "sc"}
ALLSCALAR = {"*", "/", "+", "-", "**"}
ALLSPARSE = R('{<<"@", "csr">>, <<"*", "csc">>, <<"@", "arr">>}')


def _cfg(name, scen, stmts, **kw):
    c = dict(name=name, Scenarios=scen, MaxStmts=stmts, ScalarOps=R("{}"), SparseOps=R("{}"), ScalarFmts={"int"},
             SparseFmts={"csr"}, KindsFinal=ALLK, KindsMid=R("{}"), AllowT=False, AllowMM=False, AllowOver=False, Variants=False)
    c.update(kw)
    return c


def _tla(v):
    """tlc.tla with verbatim Raw expressions inside records."""
    if isinstance(v, tlc.Raw):
        return str(v)
    if isinstance(v, dict):
        return "[" + ", ".join(f"{k} |-> {_tla(x)}" for k, x in v.items()) + "]"
    return tlc.tla(v)


def _scen(ss):
    return R("{%s}" % ", ".join(tlc.tla(s) for s in ss))


def configs(ctx):
    """Enumeration configurations (a TLC behaviour picks one):
    single   every slicer of the size box, every constructor form, optionally transposed, every operand kind
    pending  x op S for every documented left operand / operation on catalogue slicers
    multi    all programs of <= 3 statements over three catalogue slicers (chains, reuse, pending overwrites)
    deep     4 statements (thorough)
    reuse    one slicer object applied to two different sparse / AD operands of equal shape and entry count"""
    mm = dict(KindsMid={"vec"}, AllowT=True, AllowMM=True, AllowOver=True)
    if ctx.quick:
        return [
            _cfg("single", R("SingleScenarios(3)"), 2, AllowT=True, KindsFinal={"vec", "sp", "ad", "sc"}),
            _cfg("pending", _scen(SCENARIOS[:1]), 2, ScalarOps=ALLSCALAR, SparseOps=ALLSPARSE,
                 ScalarFmts={"int", "float", "np"}, SparseFmts={"csc"}),
            _cfg("multi", _scen(SCENARIOS[:1]), 3, ScalarOps={"*"}, SparseOps=R('{<<"@", "csr">>}'), KindsFinal={"vec", "ad"}, **mm),
            _cfg("reuse", _scen([SCENARIOS[0], SCENARIOS[2]]), 2, KindsMid={"sp", "ad"}, KindsFinal={"sp", "ad"},
                 SparseFmts={"csr", "csc"}, Variants=True),
        ]
    return [
        _cfg("single", R("SingleScenarios(4)"), 2, AllowT=True),
        _cfg("formats", R("SingleScenarios(3)"), 2, AllowT=True, KindsFinal={"sp", "sc"}, SparseFmts={"csc", "coo"},
             ScalarFmts={"float", "np"}),
        _cfg("pending", _scen(SCENARIOS), 2, ScalarOps=ALLSCALAR, SparseOps=ALLSPARSE, ScalarFmts={"int", "float", "np"},
             SparseFmts={"csr", "csc", "coo"}),
        _cfg("multi", _scen(SCENARIOS), 3, ScalarOps={"*", "-"}, SparseOps=R('{<<"@", "csr">>}'),
             KindsFinal={"vec", "sp", "ad"}, **mm),
        _cfg("deep", _scen(SCENARIOS[:1]), 4, SparseOps=R('{<<"@", "csr">>}'), KindsFinal={"vec"},
             AllowMM=True, AllowOver=True),
        _cfg("reuse", _scen(SCENARIOS), 2, KindsMid={"sp", "ad"}, KindsFinal={"sp", "ad"}, SparseFmts={"csr", "csc", "coo"},
             AllowT=True, Variants=True),
        _cfg("reuse3", _scen(SCENARIOS[2:3]), 3, KindsMid={"sp", "ad"}, KindsFinal={"sp", "ad"}, Variants=True),
    ]


def _vacuity_cfg():
    return _cfg("vac", _scen(SCENARIOS[:1]), 2, KindsFinal={"vec"}, AllowMM=True)


# ------------------------------------------------------------------------------------------ real code
def _value(kind, fmt, val, jac=None):
    import porepy as pp

    a = np.array(val, dtype=float)
    if kind == "vec":
        return a[:, 0].copy()
    if kind == "mat":
        return a
    if kind == "sp":
        return {"csr": sps.csr_matrix, "csc": sps.csc_matrix, "coo": sps.coo_matrix, "arr": sps.csr_array}[fmt](a)
    if kind == "ad":
        return pp.ad.AdArray(a[:, 0].copy(), sps.csr_matrix(np.array(jac, dtype=float)))
    if kind == "sc":
        c = val[0][0]
        return {"int": int, "float": float, "np": np.float64}[fmt](c)
    raise ValueError(kind)


def _ints(a):
    a = np.asarray(a)
    if a.dtype == object or a.ndim != 2:
        raise ValueError("not a numeric 2-D array")
    r = np.round(a.astype(float))
    if not np.all(np.isfinite(a.astype(float))) or not np.array_equal(r, a.astype(float)) or np.abs(r).max(initial=0) >= 2 ** 30:
        raise ValueError("non-integer entries")
    return [[int(x) for x in row] for row in r]


def _encode(r):
    import porepy as pp

    try:
        if isinstance(r, pp.ad.AdArray):
            return dict(kind="ad", val=_ints(np.asarray(r.val).reshape(-1, 1)), jac=_ints(r.jac.toarray()))
        if sps.issparse(r):
            return dict(kind="sp", val=_ints(r.toarray()), jac=[])
        if isinstance(r, np.ndarray) and r.ndim == 1:
            return dict(kind="vec", val=_ints(r.reshape(-1, 1)), jac=[])
        if isinstance(r, np.ndarray) and r.ndim == 2:
            return dict(kind="mat", val=_ints(r), jac=[])
    except ValueError as e:
        return dict(kind="bad", val=[], jac=[], err=f"{e}: {r!r}"[:200])
    return dict(kind="bad", val=[], jac=[], err=f"unexpected result type {type(r).__name__}"[:200])


def _new_slicer(dom, rng, ds, rs, mode):
    from porepy.numerics.linalg.matrix_operations import ArraySlicer

    d, r = np.array(dom, dtype=int), np.array(rng, dtype=int)
    if mode == "full":
        return ArraySlicer(domain_indices=d, range_indices=r, range_size=rs, domain_size=ds)
    if mode == "dom":
        return ArraySlicer(domain_indices=d, domain_size=ds)
    if mode == "dominf":
        return ArraySlicer(domain_indices=d)
    if mode == "domrs":
        return ArraySlicer(domain_indices=d, range_size=rs, domain_size=ds)
    if mode == "rng":
        return ArraySlicer(range_indices=r, range_size=rs, domain_size=ds)
    if mode == "rnginf":
        return ArraySlicer(range_indices=r)
    if mode == "infer":
        return ArraySlicer(domain_indices=d, range_indices=r)
    raise ValueError(mode)


def execute(prog):
    """Run the statements on real ArraySlicer objects; one encoded result per `app` statement."""
    names, outs = [], []
    for q in prog:
        st = q[0]
        try:
            if st == "new":
                names.append(_new_slicer(*q[1:6]))
            elif st == "T":
                s = names[q[1] - 1]
                names.append(s.T if len(names) % 2 else s.transpose())
            elif st == "mm":
                names.append(names[q[1] - 1] @ names[q[2] - 1])
            elif st == "rop":
                names.append(OPS[q[1]](_value(q[3], q[4], q[5]), names[q[2] - 1]))
            elif st == "app":
                outs.append(_encode(names[q[1] - 1] @ _value(q[2], q[3], q[4], q[5])))
        except Exception as e:  # an exception of the code under test is an observation
            err = dict(kind="exc", val=[], jac=[], err=f"{type(e).__name__}: {e}"[:200])
            if st == "app":
                outs.append(err)
            else:
                names.append(_Raises(err))
    return outs


class _Raises:
    """Stands for a name whose defining statement raised: every later use reports that exception."""

    def __init__(self, err):
        self.err = err

    def _fail(self, *a):
        raise RuntimeError("defining statement raised " + self.err["err"])

    __matmul__ = __rmatmul__ = __rmul__ = __rtruediv__ = __radd__ = __rsub__ = __rpow__ = _fail
    T = property(_fail)
    transpose = _fail


_ES = {}


def ad_expressible(prog):
    for q in prog:
        if q[0] == "rop" and not ((q[3] == "sc" and q[1] == "*") or (q[3] == "sp" and q[1] == "@")):
            return False
        if q[0] == "app" and q[2] not in ("vec", "sp", "sc"):
            return False
    return True


def execute_ad(prog):
    """The same program with pp.ad.Projection leaves in operator trees, evaluated by an EquationSystem."""
    import porepy as pp

    from .. import eqsys_fixture as fx

    if "es" not in _ES:
        _ES["es"] = pp.ad.EquationSystem(fx.mdg())
    es = _ES["es"]

    def leaf(kind, fmt, val):
        v = _value(kind, "csr" if kind == "sp" and fmt == "arr" else fmt, val)
        if kind == "vec":
            return pp.ad.DenseArray(v)
        if kind == "sp":
            return pp.ad.SparseArray(v)
        return pp.ad.Scalar(v)

    names, outs = [], []
    for q in prog:
        st = q[0]
        try:
            if st == "new":
                names.append(pp.ad.Projection(np.array(q[1], dtype=int), np.array(q[2], dtype=int), q[3], q[4]))
            elif st == "T":
                p = names[q[1] - 1]
                names.append(p.T if len(names) % 2 else p.transpose())
            elif st == "mm":
                names.append(names[q[1] - 1] @ names[q[2] - 1])
            elif st == "rop":
                names.append(OPS[q[1]](leaf(q[3], q[4], q[5]), names[q[2] - 1]))
            elif st == "app":
                outs.append(_encode(es.evaluate(names[q[1] - 1] @ leaf(q[2], q[3], q[4]))))
        except Exception as e:
            err = dict(kind="exc", val=[], jac=[], err=f"{type(e).__name__}: {e}"[:200])
            if st == "app":
                outs.append(err)
            else:
                names.append(_Raises(err))
    return outs


# ------------------------------------------------------------------------------------------ known-finding matcher
def _tainted_apps(prog):
    """Applies (1-based, program order) of names whose expression attached a pending operand to a slicer object that
    already carried one (ArraySlicer has a single pending slot: the older operand is silently dropped)."""
    pending, taint, hit, k = [], [], [], 0
    for q in prog:
        if q[0] in ("new", "T"):
            pending.append(False), taint.append(False)
        elif q[0] == "mm":
            i, j = q[1] - 1, q[2] - 1
            taint.append(taint[i] or taint[j] or pending[j]), pending.append(True)
        elif q[0] == "rop":
            i = q[2] - 1
            taint.append(taint[i] or pending[i]), pending.append(True)
        elif q[0] == "app":
            k += 1
            if taint[q[1] - 1]:
                hit.append(k)
    return hit


def _m_pending_overwritten(rec):
    return rec["clause"] == "ApplyEqualsRef" and rec["k"] in _tainted_apps(rec["prog"])


MATCHERS = {"pending_operand_overwritten": _m_pending_overwritten}


# ------------------------------------------------------------------------------------------ driver
def _shape_key(prog, k, binding):
    kinds, n = [], 0
    for q in prog:
        if q[0] == "new":
            continue
        if q[0] == "app":
            n += 1
            kinds.append("app:" + q[2] if n == k else "app")
            if n == k:
                break
        else:
            kinds.append(q[0] + (":" + q[1] if q[0] == "rop" else ""))
    return (binding,) + tuple(kinds)


def judge(ctx, cases, prefix=""):
    nviol, told = 0, False
    for b in range(0, len(cases), BATCH):
        chunk = cases[b:b + BATCH]
        slim = [dict(prog=c["prog"], k=c["k"], out={x: c["out"][x] for x in ("kind", "val", "jac")}) for c in chunk]
        bad = [v for v in ctx.judge("J_Slicer", slim, ["Verdict"], workers=8, tag=f"j{len(ctx.tlc_runs)}") if "clause" in v]
        viol = [v for v in bad if v["clause"] in CLAUSES]
        expected = {}
        # expected values are only fetched for the report text of violations that are not known findings
        fresh = [v for v in viol if not any(fn(dict(chunk[v["case"] - 1], clause=v["clause"])) for fn in MATCHERS.values())]
        if fresh and not told:
            told = True
            idx = sorted({v["case"] for v in fresh})[:60]
            tell = ctx.judge("J_Slicer", [slim[i - 1] for i in idx], ["TellRef"], workers=2, tag=f"t{len(ctx.tlc_runs)}")
            expected = {idx[t["case"] - 1]: t["val"] for t in tell if t.get("tag") == "ref"}
        for v in bad:
            c = chunk[v["case"] - 1]
            if v["clause"] in CLAUSES:
                nviol += 1
                exp = expected.get(v["case"])
                ctx.violation(v["clause"], c, prefix + f"binding={c['binding']} apply #{c['k']} of {_show(c['prog'])}: got {_short(c['out'])}"
                              + (f", the expression as written is {_short(exp)}" if exp else ""))
            else:
                ctx.drift(f"{v['clause']}: binding={c['binding']} apply #{c['k']} of {_show(c['prog'])} returned {_short(c['out'])}")
    return nviol


def _short(o):
    if o.get("kind") in ("exc", "bad"):
        return o.get("kind") + " " + o.get("err", "")
    s = f"{o['kind']} {o['val']}"
    return s + (f" jac {o['jac']}" if o.get("jac") else "")


def _show(prog):
    out, n = [], 0
    for q in prog:
        if q[0] != "app":
            n += 1
        if q[0] == "new":
            out.append(f"S{n}=Slicer(dom={q[1]},rng={q[2]},ds={q[3]},rs={q[4]},{q[5]})")
        elif q[0] == "T":
            out.append(f"S{n}=S{q[1]}.T")
        elif q[0] == "mm":
            out.append(f"S{n}=S{q[1]}@S{q[2]}")
        elif q[0] == "rop":
            out.append(f"S{n}=<{q[3]}{'' if q[3] != 'sc' else ' ' + str(q[5][0][0])}>{q[1]}S{q[2]}")
        else:
            out.append(f"S{q[1]}@<{q[2]}>")
    return "; ".join(out)


def enumerate_programs(ctx, cfgs, copy_on_matmul=True, invariants=("Emit", "ImplIsRef", "RefDefined", "SliceLaw"), allow=False):
    consts = dict(Configs=R("<<%s>>" % ", ".join(_tla({k: v for k, v in c.items() if k != "Scenarios"}) for c in cfgs)),
                  Scen=R("<<%s>>" % ", ".join(str(c["Scenarios"]) for c in cfgs)), CopyOnMatmul=copy_on_matmul)
    m, cf = tlc.gen(ctx.work / f"enum{len(ctx.tlc_runs)}", "MC_Slicer", "Slicer", consts, invariants=list(invariants))
    return ctx.tlc(m, cf, workers=8, allow_violation=allow)


def run(ctx):
    ctx.rule = ("TLC enumerates slicer programs: (single) every partial injection between index ranges of size <= "
                f"{3 if ctx.quick else 4}, every order of the index pairs, every constructor form, optionally transposed, applied to a "
                "1-D vector / 2-D array / sparse matrix / AdArray / scalar; (pending) x op S for scalar * / + - ** and "
                "sparse @ (*) left operands on catalogue slicers; (multi, deep) all programs of <= 3 (deep: 4) statements Transpose / "
                "S_i @ S_j / x op S_i / S_i @ y over three catalogue slicers and every name bound so far (chains up to length 3-4, "
                "reuse of a slicer after it was an operand). Each program runs on real ArraySlicer objects (and, where expressible, "
                "on pp.ad.Projection operator trees); one evaluation = one executed Apply judged by TLC against explicit "
                "projection matrices; distinct = binding x statement-kind sequence x operand kind")
    ctx.assumptions = ["index sets are partial injections (no repeated domain or range index) and operands have exactly domain_size rows",
                       "left operands are Python/numpy scalars, scipy sparse matrices or slicers; numpy arrays and AdArrays as LEFT operands "
                       "are documented as unsupported and not generated",
                       "division only where every entry of the sliced array divides the scalar; ** only with non-negative entries; "
                       "/ and ** not applied to AdArrays (non-integer derivatives); sparse * AdArray is rejected by AdArray"]
    if not ctx.quick:
        # vacuity of the design law: the pre-fix mechanism (S_i @ S_j writes into S_j) must be distinguishable in this family
        vac = enumerate_programs(ctx, [_vacuity_cfg()], copy_on_matmul=False, invariants=["ImplIsRef"], allow=True)
        if vac.violated != "ImplIsRef":
            raise RuntimeError("the enumerated family cannot tell the in-place S_i @ S_j mechanism from the reference")
    res = enumerate_programs(ctx, configs(ctx))
    cases, per = [], {}
    recs = sorted(res.records, key=lambda r: json.dumps(r, sort_keys=True))   # TLC's output order depends on thread timing
    for r in recs:
        p, tag = r["prog"], r["cfg"]
        n = zlib.crc32(json.dumps(p).encode())
        per[tag] = per.get(tag, 0) + 1
        for k, o in enumerate(execute(p), 1):
            cases.append(dict(prog=p, k=k, out=o, binding="slicer"))
        if tag != "single" and ad_expressible(p) and n % 3 == 0:
            for k, o in enumerate(execute_ad(p), 1):
                cases.append(dict(prog=p, k=k, out=o, binding="ad"))
    ctx.programs = len(res.records)
    ctx.extra["programs_per_config"] = per
    for c in cases:
        ctx.case(key=_shape_key(c["prog"], c["k"], c["binding"]), nontrivial=True)
    judge(ctx, cases)
    ctx.exhaustive = True
    ctx.extra["applies_on_projection_operators"] = sum(1 for c in cases if c["binding"] == "ad")
    for c in (cases[:1] + cases[len(cases) // 2:len(cases) // 2 + 1] + cases[-2:]):
        ctx.sample(dict(program=_show(c["prog"]), apply=c["k"], binding=c["binding"], returned=_short(c["out"])))


def replay(ctx, body):
    rec = body["record"]
    outs = execute_ad(rec["prog"]) if rec.get("binding") == "ad" else execute(rec["prog"])
    k = rec["k"]
    c = dict(prog=rec["prog"], k=k, out=outs[k - 1], binding=rec.get("binding", "slicer"))
    ctx.case(key="replay")
    ctx.sample(dict(program=_show(c["prog"]), apply=k, returned=_short(c["out"])))
    judge(ctx, [c], prefix="replayed: ")
