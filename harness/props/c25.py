"""C25 Fractured mixed-dimensional grids are geometrically conforming.

spec/ref/FracMesh.tla      PART 1: the unique conforming md-grid of a LATTICE network (fractures along the grid lines /
                           planes of a Cartesian mesh) in doubled-centre coordinates: cells of every grid, coupling pairs;
                           PART 2: the seven clauses of the property as validity predicates on an exported md-grid
spec/ref/FracMeshEnum.tla  TLC enumerates all admissible lattice networks of bounded boxes (ordered fracture sequences)
spec/trace/J_FracMesh.tla  TLC judges the md-grid the real code built for each network

Lattice family (model_checking): every emitted network is meshed with pp.meshing.cart_grid (a seeded sample also through
pp.create_mdg "cartesian" / "tensor_grid"), the whole md-grid is exported (per subdomain: incidence, face / cell nodes,
tags, geometry; per interface: the (mortar cell, primary face) and (mortar cell, secondary cell) entries of
primary_to_mortar_int / secondary_to_mortar_int, the side of every mortar cell) and TLC compares it with the expected
structure and evaluates the clauses exactly (tolerance 0).
Scaled family: lattice networks (0-2 fractures) on Cartesian grids whose physical dimensions differ from the number of
cells - cart_grid(.., physdims=L) and create_mdg("cartesian", cell sizes), with n in {3, 5, 6, 7} cells on extents 1, 2, 3
(cell sizes that are not representable) and with target cell sizes that do not divide the extent; the fracture vertices
are the doubles k * (L / n); all clauses, the expected structure compared through scaled lattice coordinates.
Tensor family: a seeded sample of the lattice networks on non-uniform tensor grids (pp.meshing.tensor_grid), validity
clauses only.  Simplex family (validation): a catalogue of integer-vertex networks (non axis-aligned, X / T / L, touching the boundary)
meshed by gmsh through pp.create_mdg("simplex", ..) at several mesh sizes; only the validity clauses, float-judged.

Python drives porepy, converts doubles to fixed-point integers (units of 2^-26; lattice values are multiples of 1/2 and
therefore exact) and dispatches TLC's verdicts."""
from __future__ import annotations

import warnings

import numpy as np

from .. import tlc

LEVEL = "model_checking"
CLAUSES = ["EachCellCoupledBothSides", "FacesCoincideWithCell", "OppositeNormalsC", "FractureTagsExact", "HostVolume",
           "CellsOnFracture", "MortarSidesMatch"]
SELF = ["InFamily"]
FXU = 2 ** 26
CLAMP = 15.0
POOL = 8
BATCH = 2500


# ---------------------------------------------------------------------------------------------------
# known-finding matcher (structural): the meshing raised an AssertionError on a 3D network of axis-aligned rectangles in
# which two pairwise intersection segments lie on the same line and overlap PARTIALLY (neither contains the other) -
# FractureNetwork3d.split_intersections then fails (sort_point_pairs), depending on the order of the fractures
def _unit_edges(verts):
    import itertools

    lo = [min(v[i] for v in verts) for i in range(3)]
    hi = [max(v[i] for v in verts) for i in range(3)]
    if sum(1 for i in range(3) if lo[i] == hi[i]) != 1:
        return None
    return {q for q in itertools.product(*[range(2 * lo[i], 2 * hi[i] + 1) for i in range(3)])
            if sum(x % 2 for x in q) == 1}


def partially_overlapping_intersection_segments(rec):
    import itertools

    i = rec["in"]
    if i["dim"] != 3 or not rec["observed"]["err"].startswith("AssertionError"):
        return False
    es = [_unit_edges(v) for v in i.get("fracs", [])]
    if any(e is None for e in es):
        return False
    segs = [a & b for a, b in itertools.combinations(es, 2) if a & b]
    return any((s & t) and (s - t) and (t - s) for s, t in itertools.combinations(segs, 2))


MATCHERS = {"partially_overlapping_intersection_segments": partially_overlapping_intersection_segments}


# ---------------------------------------------------------------------------------------------------
# numbers
def fx(x):
    """double -> integer in units of 2^-26 (clamped to +-15, nan -> 15: no exported quantity of the families is that big)"""
    v = float(x)
    if not (abs(v) < CLAMP):
        v = CLAMP if not (v < 0) else -CLAMP
    return int(round(v * FXU))


def fxv(a):
    return [fx(x) for x in np.asarray(a, dtype=float).ravel()]


def fxflat(m, cols=None):
    """3 x N array -> flat list x1, y1, z1, x2, .. (of the given columns)"""
    m = np.asarray(m, dtype=float)
    if m.ndim != 2 or m.shape[0] != 3:
        return []
    if cols is not None:
        m = m[:, cols]
    return fxv(m.T)


# ---------------------------------------------------------------------------------------------------
# export of a real md-grid (see FracMesh.tla PART 2; flat vectors, only what the clauses read)
def export_sd(sd, top, sel):
    """sel: the faces of sd that occur in the mortar maps of the interfaces whose primary grid sd is"""
    import scipy.sparse as sps

    nc, nf = int(sd.num_cells), int(sd.num_faces)
    out = dict(dim=int(sd.dim), nc=nc, nf=nf, vol=fxv(sd.cell_volumes), cc=fxflat(sd.cell_centers), fc=[], tfrac=[],
               fsel=[], sfa=[], sfn=[], sncf=[], scell=[], ssign=[], sptr=[0], spts=[], cptr=[0], cpts=[])
    if sd.dim == 0 or nf == 0:
        return out
    out["fc"] = fxflat(sd.face_centers)
    out["tfrac"] = [int(f) for f in np.where(np.asarray(sd.tags["fracture_faces"]))[0]]
    sel = sorted(f for f in set(sel) if 0 <= f < nf)
    cf = sps.csr_matrix(sd.cell_faces)
    cf.sum_duplicates()
    fn = sd.face_nodes.tocsc()
    nodes = np.asarray(sd.nodes, dtype=float)
    for f in sel:
        lo, hi = cf.indptr[f], cf.indptr[f + 1]
        ent = [(int(c), int(v)) for c, v in zip(cf.indices[lo:hi], cf.data[lo:hi]) if v != 0]
        out["fsel"].append(int(f))
        out["sfa"].append(fx(sd.face_areas[f]))
        out["sfn"] += fxv(sd.face_normals[:, f])
        out["sncf"].append(len(ent))
        out["scell"].append(ent[0][0] if ent else -1)
        out["ssign"].append(ent[0][1] if ent else 0)
        nd = fn.indices[fn.indptr[f]:fn.indptr[f + 1]]
        out["spts"] += fxflat(nodes, nd)
        out["sptr"].append(len(out["spts"]) // 3)
    if sd.dim < top:
        cn = sd.cell_nodes().tocsc()
        for c in range(nc):
            out["cpts"] += fxflat(nodes, cn.indices[cn.indptr[c]:cn.indptr[c + 1]])
            out["cptr"].append(len(out["cpts"]) // 3)
    return out


def _entries(m):
    import scipy.sparse as sps

    m = sps.coo_matrix(m).tocsr()
    m.sum_duplicates()
    m = m.tocoo()
    e = sorted((int(r), int(c), fx(v)) for r, c, v in zip(m.row, m.col, m.data) if v != 0)
    return [t[0] for t in e], [t[1] for t in e], [t[2] for t in e]


def export_mdg(mdg, top):
    sds = list(mdg.subdomains())
    idx = {id(sd): i for i, sd in enumerate(sds)}
    intfs, sel = [], {i: [] for i in range(len(sds))}
    for intf in mdg.interfaces():
        pri, sec = mdg.interface_to_subdomain_pair(intf)
        nm = int(intf.num_cells)
        side = [0] * nm
        for k, (proj, _) in enumerate(intf.project_to_side_grids()):
            for m in proj.tocoo().col:
                side[int(m)] = k + 1
        pmr, pmf, pmw = _entries(intf.primary_to_mortar_int())
        smr, smc, smw = _entries(intf.secondary_to_mortar_int())
        sel[idx[id(pri)]] += pmf
        intfs.append(dict(pri=idx[id(pri)], sec=idx[id(sec)], nsides=int(intf.num_sides()), nm=nm, pmr=pmr, pmf=pmf,
                          pmw=pmw, smr=smr, smc=smc, smw=smw, mside=side, mvol=fxv(intf.cell_volumes)))
    return dict(err="", sds=[export_sd(sd, top, sel[i]) for i, sd in enumerate(sds)], intfs=intfs)


# ---------------------------------------------------------------------------------------------------
# driving the real code
def corners(lo, hi):
    """vertex list of the lattice box [lo, hi]: its two end points (segment) or four corners in order (rectangle)"""
    ext = [i for i in range(3) if lo[i] < hi[i]]
    if len(ext) == 1:
        return [list(lo), list(hi)]
    a, b = ext
    out = []
    for sa, sb in ((0, 0), (1, 0), (1, 1), (0, 1)):
        p = list(lo)
        p[a] = hi[a] if sa else lo[a]
        p[b] = hi[b] if sb else lo[b]
        out.append(p)
    return out


def _prod(v):
    out = 1
    for x in v:
        out *= x
    return out


def lattice_input(rec, path="cart_grid"):
    fr = [[list(f[0]), list(f[1])] for f in rec["fracs"]]
    return dict(family="lattice", dim=rec["dim"], box=list(rec["box"]), fracs=[corners(f[0], f[1]) for f in fr],
                lat=dict(dim=rec["dim"], box=list(rec["box"]), fracs=fr), path=path, args=dict(none=0),
                vol=[_prod(rec["box"][:rec["dim"]]), 1])


AXMAP = [0, 1, 3, 4]   # lattice index -> node coordinate of the non-uniform tensor grids


def tensor_input(rec):
    """the lattice network rec on a NON-UNIFORM tensor grid (integer node coordinates AXMAP): judged by the validity
    clauses only (family 'tensor')"""
    mp = lambda p: [AXMAP[p[0]], AXMAP[p[1]], AXMAP[p[2]]]  # noqa: E731
    return dict(family="tensor", dim=rec["dim"], box=[AXMAP[b] for b in rec["box"]], lbox=list(rec["box"]),
                vol=[_prod([AXMAP[b] for b in rec["box"][:rec["dim"]]]), 1],
                fracs=[[mp(v) for v in corners(f[0], f[1])] for f in rec["fracs"]], path="tensor_grid", args=dict(none=0))


def scaled_input(dim, n, L, fracs, path, cs=None):
    """the lattice network `fracs` (index coordinates, n[i] cells per direction) on the Cartesian grid of the domain
    [0, L[i]] (L: Fractions); cs: target cell sizes (Fractions) handed to create_mdg, None = L / n"""
    from fractions import Fraction

    n = list(n) + [0] * (3 - len(n))
    L = [Fraction(x) for x in L] + [Fraction(0)] * (3 - len(L))
    if path == "create_mdg_cellsize" and cs is None:
        cs = [L[i] / n[i] for i in range(dim)]
    cs = [Fraction(x) for x in (cs or [])] + [Fraction(0)] * (3 - len(cs or []))
    vol = _prod([L[i] for i in range(dim)])
    return dict(family="scaled", dim=dim, box=n, lat=dict(dim=dim, box=n, fracs=[[list(f[0]), list(f[1])] for f in fracs]),
                scale=[[n[i], L[i].numerator, L[i].denominator] if n[i] else [0, 0, 1] for i in range(3)],
                cs=[[c.numerator, c.denominator] for c in cs], vol=[vol.numerator, vol.denominator], path=path,
                args=dict(none=0))


def _scaled_fracs(inp):
    """fracture vertices as a user writes them: k * (L / n) in floating point"""
    d = inp["dim"]
    h = [(s[1] / s[2]) / s[0] if s[0] else 0.0 for s in inp["scale"]]
    out = []
    for lo, hi in inp["lat"]["fracs"]:
        v = np.array(corners(lo, hi), dtype=float).T
        out.append((v * np.array(h).reshape((3, 1)))[:d, :])
    return out


def _mesh_scaled(inp):
    import porepy as pp

    d = inp["dim"]
    Lf = [s[1] / s[2] for s in inp["scale"][:d]]
    fr = _scaled_fracs(inp)
    if inp["path"] == "cart_physdims":
        return pp.meshing.cart_grid(fr, np.array(inp["box"][:d]), physdims=np.array(Lf))
    bb = {"xmin": 0, "xmax": Lf[0], "ymin": 0, "ymax": Lf[1]}
    if d == 3:
        bb.update(zmin=0, zmax=Lf[2])
    net = pp.create_fracture_network([pp.LineFracture(a) if d == 2 else pp.PlaneFracture(a) for a in fr], pp.Domain(bb))
    cs = [c[0] / c[1] for c in inp["cs"][:d]]
    args = dict(cell_size=cs[0]) if len(set(cs)) == 1 else {"cell_size_" + k: c for k, c in zip("xyz", cs)}
    return pp.create_mdg("cartesian", args, net)


def _frac_arrays(inp):
    d = inp["dim"]
    return [np.array(v, dtype=float).T[:d, :] for v in inp["fracs"]]


def _network(inp):
    import porepy as pp

    d = inp["dim"]
    bb = {"xmin": 0, "xmax": inp["box"][0], "ymin": 0, "ymax": inp["box"][1]}
    if d == 3:
        bb.update(zmin=0, zmax=inp["box"][2])
    fr = [pp.LineFracture(a) if d == 2 else pp.PlaneFracture(a) for a in _frac_arrays(inp)]
    return pp.create_fracture_network(fr, pp.Domain(bb))


def mesh(inp):
    import porepy as pp

    path, d = inp["path"], inp["dim"]
    if inp["family"] == "scaled":
        return _mesh_scaled(inp)
    if path == "cart_grid":
        return pp.meshing.cart_grid(_frac_arrays(inp), np.array(inp["box"][:d]))
    if path == "tensor_grid":
        ax = [np.array(AXMAP[:n + 1], dtype=float) for n in inp["lbox"][:d]]
        return pp.meshing.tensor_grid(_frac_arrays(inp), *ax)
    if path == "create_mdg_cartesian":
        return pp.create_mdg("cartesian", dict(cell_size=1.0), _network(inp))
    if path == "create_mdg_tensor":
        ax = {k + "_pts": np.arange(inp["box"][i] + 1, dtype=float) for i, k in enumerate("xyz"[:d])}
        return pp.create_mdg("tensor_grid", ax, _network(inp))
    if path == "create_mdg_simplex":
        a = {k: v / 100.0 for k, v in inp["args"].items()}
        args = dict(cell_size=a["h100"])
        if "hf100" in a:
            args["cell_size_fracture"] = a["hf100"]
        if "hb100" in a:
            args["cell_size_boundary"] = a["hb100"]
        return pp.create_mdg("simplex", args, _network(inp))
    raise ValueError(path)


def execute(inp):
    """one case: mesh the network with the real code and export the md-grid; an exception of the meshing is an
    observation (out.err)"""
    warnings.filterwarnings("ignore")
    try:
        mdg = mesh(inp)
    except Exception as e:  # noqa: BLE001
        return {"in": inp, "out": dict(err=f"{type(e).__name__}: {e}"[:200] or "error", sds=[], intfs=[])}
    return {"in": inp, "out": export_mdg(mdg, inp["dim"])}


def _init_worker():
    warnings.filterwarnings("ignore")
    import logging

    logging.disable(logging.CRITICAL)


def execute_all(inputs, procs=POOL):
    if len(inputs) < 8 or procs <= 1:
        return [execute(i) for i in inputs]
    import multiprocessing as mp

    # porepy's numba kernels are compiled at first use: do that once, before the worker processes are forked
    seen = set()
    for i in inputs:
        k = (i["dim"], i["path"], min(len(i.get("lat", i)["fracs"]), 2))
        if k not in seen:
            seen.add(k)
            execute(i)

    from concurrent.futures import ProcessPoolExecutor

    # (a worker that dies or hangs raises BrokenProcessPool / TimeoutError here: machinery failure, never a verdict)
    with ProcessPoolExecutor(procs, mp_context=mp.get_context("fork"), initializer=_init_worker) as pool:
        return list(pool.map(execute, inputs, chunksize=max(1, min(32, len(inputs) // (4 * procs))), timeout=3000))


# ---------------------------------------------------------------------------------------------------
# simplex catalogue: (name, dim, box, fractures as integer vertex lists, mesh sizes in 1/100)
def seg(a, b):
    return [[a[0], a[1], 0], [b[0], b[1], 0]]


SIMPLEX_2D = [
    ("diag", [4, 4, 0], [seg((1, 1), (3, 2))]),
    ("x", [4, 4, 0], [seg((1, 1), (3, 3)), seg((1, 3), (3, 1))]),
    ("t_bnd", [4, 4, 0], [seg((0, 2), (4, 2)), seg((2, 2), (3, 4))]),
    ("xt3", [4, 4, 0], [seg((0, 1), (3, 3)), seg((1, 3), (3, 1)), seg((2, 2), (2, 4))]),
    ("l", [4, 4, 0], [seg((1, 1), (3, 1)), seg((3, 1), (3, 3))]),
    ("y", [4, 3, 0], [seg((0, 0), (2, 1)), seg((2, 1), (4, 0)), seg((2, 1), (2, 3))]),
    ("par", [3, 3, 0], [seg((0, 1), (3, 2)), seg((1, 0), (2, 3))]),
]
SIMPLEX_3D = [
    ("plane", [2, 2, 2], [[[1, 0, 0], [1, 2, 0], [1, 2, 2], [1, 0, 2]]]),
    ("x3", [2, 2, 2], [[[1, 0, 0], [1, 2, 0], [1, 2, 2], [1, 0, 2]], [[0, 1, 0], [2, 1, 0], [2, 1, 2], [0, 1, 2]]]),
    ("t3", [2, 2, 2], [[[1, 0, 0], [1, 2, 0], [1, 2, 2], [1, 0, 2]], [[1, 1, 0], [2, 1, 0], [2, 1, 2], [1, 1, 2]]]),
    ("diag3", [3, 3, 2], [[[1, 1, 0], [2, 2, 0], [2, 2, 2], [1, 1, 2]], [[0, 0, 1], [3, 0, 1], [3, 3, 1], [0, 3, 1]]]),
    ("inner3", [3, 3, 3], [[[1, 1, 1], [2, 1, 1], [2, 2, 2], [1, 2, 2]]]),
]


def simplex_inputs(ctx):
    out = []
    if ctx.quick:
        plan = [("x", [100]), ("xt3", [50]), ("t_bnd", [70]), ("t3", [100])]
    else:
        plan = [(n, [100, 60, 35]) for n, _, _ in SIMPLEX_2D] + [(n, [100, 70]) for n, _, _ in SIMPLEX_3D]
    cat = {n: (2, b, f) for n, b, f in SIMPLEX_2D}
    cat.update({n: (3, b, f) for n, b, f in SIMPLEX_3D})
    for name, hs in plan:
        d, box, fr = cat[name]
        for h in hs:
            out.append(dict(family="simplex", dim=d, box=box, fracs=fr, path="create_mdg_simplex", name=name,
                            vol=[_prod(box[:d]), 1],
                            args=dict(h100=h, hf100=h, hb100=max(h, 100))))
    return out


# ---------------------------------------------------------------------------------------------------
def judge_cases(ctx, cases, tag, cap=6):
    seen = {}
    for k in range(0, len(cases), BATCH):
        chunk = cases[k:k + BATCH]
        recs = ctx.judge("J_FracMesh", chunk, CLAUSES + SELF + ["Inconclusive"], tag=f"{tag}{k // BATCH}", workers=8,
                         timeout=1800)
        for v in sorted(recs, key=lambda v: (v.get("clause", ""), v["case"])):
            case = chunk[v["case"] - 1]
            if v.get("tag") == "inconclusive":
                ctx.inconclusive += 1
                continue
            if v["clause"] in SELF:
                raise RuntimeError(f"network outside the family handed to the real code: {case['in']}")
            seen[v["clause"]] = seen.get(v["clause"], 0) + 1
            if seen[v["clause"]] > cap:
                continue
            o = case["out"]
            ctx.violation(v["clause"], {"in": case["in"], "observed": summary(o)},
                          f"{case['in']['family']} dim={case['in']['dim']} box={case['in']['box']} "
                          f"fracs={case['in'].get('lat', case['in'])['fracs']} path={case['in']['path']} "
                          f"{('raised ' + o['err']) if o['err'] else ''}")
    if seen:
        ctx.extra["failing_cases_per_clause"] = seen


def summary(o):
    return dict(err=o["err"], sds=[[s["dim"], s["nc"], s["nf"], len(s["tfrac"])] for s in o["sds"]],
                intfs=[[i["pri"], i["sec"], i["nsides"], i["nm"]] for i in o["intfs"]])


def boxes(ctx):
    """(configurations enumerated and executed exhaustively, thinned configurations): <<dim, box, max #fractures,
    ordered sequences?, thinning of the 1st, 2nd, 3rd fracture, tag>>"""
    if ctx.quick:
        return [(2, (3, 3, 0), 2, True, 1, 1, 1, "lat"), (2, (3, 2, 0), 3, False, 1, 1, 1, "lat"),
                (3, (2, 2, 2), 2, False, 1, 1, 1, "lat")], []
    return ([(2, (4, 4, 0), 2, True, 1, 1, 1, "lat"), (2, (3, 3, 0), 3, False, 1, 1, 1, "lat"),
             (2, (3, 2, 0), 3, True, 1, 1, 1, "lat"), (3, (2, 2, 2), 3, False, 1, 1, 1, "lat"),
             (3, (3, 2, 2), 2, False, 1, 1, 1, "lat")],
            [(2, (4, 4, 0), 3, True, 1, 1, 150, "lat"), (2, (4, 3, 0), 3, True, 1, 1, 60, "lat"),
             (3, (3, 3, 3), 3, True, 1, 160, 150, "lat"), (3, (3, 3, 2), 3, True, 1, 60, 80, "lat")])


def scaled_plan(ctx):
    """Cartesian grids whose physical dimensions differ from the number of cells.
    (a) physdims family: n cells per direction from {3, 5, 6, 7} on the domains (1,1,1) and (2,1,3) (2D: (1,1), (2,1),
        (1,3)): cell sizes that are not exactly representable; through cart_grid(.., physdims) and create_mdg("cartesian")
    (b) target cell sizes that do NOT divide the extent (or exceed it): create_mdg("cartesian", cell_size..)
    returns [(enumerator configuration, [(L, cs or None, path), ..])]; networks of 0-2 fractures, thinned"""
    from fractions import Fraction as F

    q = ctx.quick
    t3a, t3b = (260, 1500) if q else (120, 1200)
    phys3 = [((1, 1, 1), None, "cart_physdims"), ((2, 1, 3), None, "cart_physdims"),
             ((1, 1, 1), None, "create_mdg_cellsize"), ((2, 1, 3), None, "create_mdg_cellsize")]
    phys2 = [((1, 1), None, "cart_physdims"), ((2, 1), None, "create_mdg_cellsize"), ((1, 3), None, "cart_physdims")]
    plan = [((3, (7, 5, 3), 2, False, t3a, t3b, 1, "sc"), phys3), ((3, (3, 7, 5), 2, False, t3a, t3b, 1, "sc"), phys3),
            ((3, (5, 3, 7), 2, False, t3a, t3b, 1, "sc"), phys3), ((3, (6, 6, 2), 2, False, t3a // 2, t3b, 1, "sc"), phys3),
            ((2, (7, 5, 0), 2, False, 16 if q else 2, 150 if q else 20, 1, "sc"), phys2),
            ((2, (6, 3, 0), 2, False, 12 if q else 2, 100 if q else 15, 1, "sc"), phys2)]
    t2 = (4, 40) if q else (1, 6)
    t3 = (16, 300) if q else (2, 30)
    nd = "create_mdg_cellsize"
    plan += [((2, (3, 3, 0), 2, False, t2[0], t2[1], 1, "sc"), [((1, 1), (F(3, 10), F(3, 10)), nd), ((1, 1), (F(7, 20), F(3, 10)), nd)]),
             ((2, (5, 2, 0), 2, False, t2[0], t2[1], 1, "sc"), [((2, 1), (F(2, 5), F(9, 20)), nd)]),
             ((2, (4, 3, 0), 2, False, t2[0], t2[1], 1, "sc"), [((3, 2), (F(7, 10), F(7, 10)), nd)]),
             ((2, (2, 1, 0), 2, False, 1, 1, 1, "sc"), [((1, F(2, 5)), (F(9, 20), F(9, 20)), nd)]),
             ((3, (4, 4, 1), 2, False, t3[0], t3[1], 1, "sc"), [((2, 2, F(2, 5)), (F(1, 2),) * 3, nd)]),
             ((3, (3, 3, 3), 2, False, t3[0], t3[1], 1, "sc"), [((1, 1, 1), (F(3, 10),) * 3, nd)]),
             ((3, (4, 2, 2), 2, False, t3[0], t3[1], 1, "sc"), [((2, 1, 1), (F(9, 20),) * 3, nd), ((2, 1, 1), (F(1, 2), F(9, 20), F(3, 5)), nd)])]
    return plan


def netkey(r):
    return (r["tag"], r["dim"], tuple(r["box"]), tuple(tuple(map(tuple, f)) for f in r["fracs"]))


def enumerate_networks(ctx, cfgs, tag):
    res = ctx.tlc(*tlc.gen(ctx.work / tag, "MC_FracMeshEnum", "FracMeshEnum", dict(Boxes=set(cfgs), Salt=ctx.seed % 1000),
                           invariants=["Laws", "Emit"]), allow_violation=False, timeout=1800, workers=8)
    # TLC prints in the order its workers reach the states: sort, so that seeded sampling is reproducible
    return sorted({netkey(r): r for r in res.records}.values(), key=netkey)


def run(ctx):
    warnings.filterwarnings("ignore")
    import porepy as pp  # noqa: F401  (imported before the worker processes are forked)

    ctx.rule = ("lattice family: every network emitted by TLC (box, ordered sequence of 1-3 axis-aligned fractures, "
                "admissible) is meshed by the real code and the exported md-grid is judged by TLC against the expected "
                "structure and the seven clauses (exact); simplex family: gmsh meshes of a catalogue of networks at "
                "several mesh sizes, judged by the validity clauses; a case is non-trivial when the network has an "
                "intersection; keys = (family, dim, box, #fractures, #X, #T, #L intersections, #0-d points in 3D, "
                "touches boundary, call path)")
    full, thinned = boxes(ctx)
    splan = scaled_plan(ctx)
    everything = enumerate_networks(ctx, full + thinned + [c for c, _ in splan], "enum")
    allrecs = [r for r in everything if r["tag"] == "lat"]
    fullmax = {(b[0], tuple(b[1])): b[2] for b in full}
    is_full = lambda r: len(r["fracs"]) <= fullmax.get((r["dim"], tuple(r["box"])), 0)  # noqa: E731
    recs_full = [r for r in allrecs if is_full(r)]
    recs = recs_full + [r for r in allrecs if not is_full(r)]
    ctx.extra["enumerated_networks"] = len(recs_full)
    ctx.extra["thinned_networks"] = len(recs) - len(recs_full)
    inputs = [lattice_input(r) for r in recs]
    stats = [r["stats"] for r in recs]
    # the same lattice networks through the other public entry points (seeded sample of the intersecting ones)
    alt = [r for r in recs_full if r["stats"]["n2"] > 0]
    for path in ("create_mdg_cartesian", "create_mdg_tensor"):
        for r in ctx.rng.sample(alt, min(len(alt), 40 if ctx.quick else 300)):
            inputs.append(lattice_input(r, path))
            stats.append(r["stats"])
    # ... and on non-uniform tensor grids (validity clauses only)
    small = [r for r in alt if max(r["box"]) <= 3 and AXMAP[r["box"][0]] * AXMAP[r["box"][1]] * max(1, AXMAP[r["box"][2]]) <= 27]
    for r in ctx.rng.sample(small, min(len(small), 40 if ctx.quick else 400)):
        inputs.append(tensor_input(r))
        stats.append(r["stats"])
    # scaled Cartesian grids (physical dimensions # number of cells; non-dividing target cell sizes), 0-2 fractures
    zero = dict(nf=0, n2=0, n3=0, x=0, t=0, l=0, bnd=False, pairs=0)
    for cfg, variants in splan:
        nets = [r for r in everything if r["tag"] == "sc" and (r["dim"], tuple(r["box"])) == (cfg[0], cfg[1])]
        nets = [dict(fracs=[], stats=zero)] + nets
        for j, r in enumerate(nets):
            for L, cs, path in ([variants[j % len(variants)]] if ctx.quick else variants):
                inputs.append(scaled_input(cfg[0], cfg[1][:cfg[0]], L, r["fracs"], path, cs))
                stats.append(dict(r["stats"], bnd=(tuple(map(str, L)), path, cs is not None)))
    cases = execute_all(inputs)
    sim = simplex_inputs(ctx)
    sim_cases = [execute(i) for i in sim]
    judge_cases(ctx, cases + sim_cases, "judge")
    for c, s in zip(cases, stats):
        i = c["in"]
        ctx.case(key=(i["family"], i["dim"], tuple(i["box"]), s["nf"], s["x"], s["t"], s["l"], s["n3"], str(s["bnd"]), i["path"]),
                 nontrivial=s["n2"] > 0 or (i["family"] == "scaled" and s["nf"] > 0))
    for c in sim_cases:
        i = c["in"]
        ctx.case(key=("simplex", i["name"], i["args"]["h100"]), nontrivial=len(c["out"]["intfs"]) > len(i["fracs"]))
    for c in (cases[len(cases) // 2], cases[-1], sim_cases[0]):
        ctx.sample({"in": {k: v for k, v in c["in"].items() if k != "lat"}, "observed": summary(c["out"])})
    # every network of the exhaustively enumerated boxes was executed; the thinned boxes are a sample on top
    ctx.exhaustive = True
    ctx.extra.update(lattice_cases=len(cases), simplex_cases=len(sim_cases),
                     meshing_exceptions=sum(1 for c in cases + sim_cases if c["out"]["err"]))
    ctx.assumptions += [
        "lattice family: fractures are axis-aligned, inside the box, not inside the domain boundary, pairwise without a "
        "common cell (overlapping / duplicated fractures make cart_grid raise and are outside the family); all clauses exact",
        "scaled family (Cartesian grids with physical dimensions / target cell sizes, incl. sizes that do not divide the "
        "extent): fracture vertices are handed to porepy as the doubles k * (L / n); all clauses float-judged; the expected "
        "structure is compared through the scaled lattice coordinates 2 n x / L; the number of cells for a target cell "
        "size is the documented round(extent / cell size), at least 1",
        "tensor family (lattice networks on non-uniform tensor grids, integer node coordinates) and simplex family: "
        "validity clauses only (the expected structure of FracMesh PART 1 is not compared)",
        "simplex family (validation, not exhaustive): FacesCoincideWithCell, OppositeNormals, HostVolume, CellsOnFracture "
        "and the size part of MortarSidesMatch (and the centre test inside EachCellCoupledBothSides) are float-judged on "
        "fixed-point values (2^-26): violation beyond 1e-6, pass below 3e-8, in between inconclusive; the total measure "
        "of a fracture grid is compared with resolution 5e-4",
        "CellsOnFracture is read as: the grid of a fracture is a mesh OF it (cells and nodes on the fracture, measures add "
        "up to its measure); cells of intersection grids lie on two fractures",
        "FacesCoincideWithCell also compares the node coordinates of a coupled face with those of the cell",
    ]


def replay(ctx, body):
    warnings.filterwarnings("ignore")
    inp = body["record"]["in"]
    case = execute(inp)
    ctx.case(key="replay")
    ctx.sample({"in": {k: v for k, v in inp.items() if k != "lat"}, "observed": summary(case["out"])})
    judge_cases(ctx, [case], "replay")
