"""C26 Mortar projections conserve extensive and preserve intensive quantities.

spec/ref/MortarMapsRef.tla   exact rational model of the eight projections of a 1-d mortar grid on a lattice fracture
                             (overlap length / cell length), the steps update_mortar / update_secondary / update_primary
                             as the code composes them, and the C26 clauses PER MORTAR SIDE;
spec/sys/MortarMaps.tla      state machine over a catalogue of partitions; TLC checks the clauses on every history
                             (design) and that the duplicated primary faces of update_primary before fix d70d13e66 break them (vacuity);
spec/trace/J_MortarMaps.tla  verdict: TLC judges the matrices recorded from porepy (exact rationals for 1-d interfaces,
                             fixed-point integers for the 2-d catalogue);
spec/trace/T_MortarMaps.tla  conformance: every recorded replacement is the model's step and the recorded matrices equal
                             the model's entry by entry (-> drift).

Binding: real md-grids from pp.meshing.cart_grid on integer coordinates (fracture = [0, 12] x {1} in a [0,12] x [0,2] host;
"I" one fracture, "X" with a crossing fracture), histories of replace_subdomains_and_interfaces calls (interface_map with new
side grids, sd_map with a new 1-d grid or a re-meshed host) explored by path re-execution; after every call all eight
matrices of every 1-d interface are cut into per-side blocks (entities found geometrically, ordered along the fracture) and
converted to exact rationals.  2-d interfaces: a gmsh simplex cube with one fracture, mortar / secondary replaced by
structured triangulations (match_2d); laws only."""
from __future__ import annotations

import copy
import random
import zlib

import numpy as np

from .. import codec
from .. import explore as ex
from .. import tlc

LEVEL = "model_checking"
CLAUSES = ["Accepted", "IntTotals", "AvgConstants", "Transposed"]
L = 12
MAX_REPORTED = 12
FIXED_UNIT = 10 ** 7

U2, U3, U4, U6 = [0, 6, 12], [0, 4, 8, 12], [0, 3, 6, 9, 12], [0, 2, 4, 6, 8, 10, 12]
N1, N2, N3 = [0, 1, 5, 12], [0, 5, 7, 8, 12], [0, 1, 6, 8, 12]

CONFIGS = {
    # name: fractures, initial host resolution (cells along the fracture), catalogue
    "I2": dict(fracs=[[[0, 12], [1, 1]]], nx=2, cross=False, parts=[U2, U3, U4, U6, N1, N2], host=[U2, U3, U4, U6, N2],
               um_extra=[[U3, None], [None, N1], [U3, U4]]),
    "I3": dict(fracs=[[[0, 12], [1, 1]]], nx=3, cross=False, parts=[U3, U4, N1, N2], host=[U2, U4, N2],
               um_extra=[[N2, None], [U4, U6]]),
    # crossing fracture x = 6: every partition has the breakpoint 6, the host cannot be replaced
    # (match_grids_along_1d_mortar does not support a fracture line that carries an intersection)
    "X2": dict(fracs=[[[0, 12], [1, 1]], [[6, 6], [0, 2]]], nx=2, cross=True, parts=[U2, U4, U6, N3], host=[],
               um_extra=[[U4, None], [U4, N3]]),
}
QUICK_PARTS = {"I2": [U2, U3, U4, N1], "I3": [U3, U4, N2], "X2": [U2, U4, N3]}
QUICK_HOST = {"I2": [U3, U4, N2], "I3": [U2, N2], "X2": []}
_TEMPLATES = {}


# ===================================================================== real grids on the lattice
def _fracs(c):
    return [np.array(f, dtype=float) for f in c["fracs"]]


def _line_grid(b):
    import porepy as pp

    g = pp.TensorGrid(np.array(b, dtype=float))
    g.nodes[1] = 1.0
    g.compute_geometry()
    return g


def _meshed(c, b):
    """md-grid of the configuration meshed with x-breakpoints b"""
    import porepy as pp

    return pp.meshing.tensor_grid(_fracs(c), np.array(b, dtype=float), np.array([0.0, 1.0, 2.0]))


def _on_fracture(g):
    """is the 1-d grid g the horizontal fracture y = 1?"""
    return g.dim == 1 and np.allclose(g.nodes[1], 1.0)


def _template(name):
    import porepy as pp

    if name not in _TEMPLATES:
        c = CONFIGS[name]
        mdg = pp.meshing.cart_grid(_fracs(c), np.array([c["nx"], 2]), physdims=[L, 2])
        intfs = [i for i in mdg.interfaces(dim=1)]
        # the interface the calls act on comes first
        intfs.sort(key=lambda i: 0 if _on_fracture(mdg.interface_to_subdomain_pair(i)[1]) else 1)
        geos = []
        for i in intfs:
            hi, lo = mdg.interface_to_subdomain_pair(i)
            horizontal = _on_fracture(lo)
            geo = dict(t=0 if horizontal else 1, n=1 if horizontal else 0, c=1.0 if horizontal else float(lo.nodes[0, 0]))
            # which geometric side of the fracture each mortar side faces: read off the matching start
            A = i.primary_to_mortar_int().toarray()
            sign, off = [], 0
            for side, g in i.side_grids.items():
                f = int(np.nonzero(A[off])[0][0])
                cell = hi.cell_faces.tocsr()[f].indices[0]
                sign.append(1 if hi.cell_centers[geo["n"], cell] > geo["c"] else -1)
                off += g.num_cells
            geo["sign"] = sign
            geos.append(geo)
        _TEMPLATES[name] = (mdg, intfs, geos)
    return _TEMPLATES[name]


class Drv:
    def __init__(self, name):
        self.name = name
        self.mdg, self.intfs, self.geos = copy.deepcopy(_template(name))
        self.err = ""
        self.nsteps = 0


def _ints(x):
    r = np.round(x)
    if not np.allclose(r, x, atol=1e-9):
        raise codec.Inexact(x)
    return [int(v) for v in r]


def _breaks(coords):
    v = sorted(set(_ints(np.asarray(coords).ravel())))
    return v


def _blocks(mdg, intf, geo):
    """entities of the interface per mortar side, ordered along the fracture, with their partitions"""
    hi, lo = mdg.interface_to_subdomain_pair(intf)
    t, n, c = geo["t"], geo["n"], geo["c"]
    mrows, mort, off = [], [], 0
    for g in intf.side_grids.values():
        order = np.argsort(g.cell_centers[t])
        mrows.append([int(off + k) for k in order])
        mort.append(_breaks(g.nodes[t]))
        off += g.num_cells
    scol = [int(k) for k in np.argsort(lo.cell_centers[t])]
    sec = _breaks(lo.nodes[t])
    # faces of the host on this fracture line: tagged as fracture faces, centre on the line, inside the extent
    ext = (min(sec), max(sec))
    ff = [f for f in np.where(hi.tags["fracture_faces"])[0]
          if abs(hi.face_centers[n, f] - c) < 1e-9 and ext[0] <= hi.face_centers[t, f] <= ext[1]]
    cf = hi.cell_faces.tocsr()
    fn = hi.face_nodes.tocsc()
    pcol, prim = [], []
    for sg in geo["sign"]:
        fs = [f for f in ff if (1 if hi.cell_centers[n, cf[f].indices[0]] > c else -1) == sg]
        fs.sort(key=lambda f: hi.face_centers[t, f])
        pcol.append([int(f) for f in fs])
        prim.append(_breaks(np.hstack([hi.nodes[t, fn[:, f].indices] for f in fs])) if fs else [])
    return dict(mrows=mrows, scol=scol, pcol=pcol, mort=mort, sec=sec, prim=prim, nprim=hi.num_faces)


def _cut(A, rows, cols, conv):
    return [[conv(A[r, k]) for k in cols] for r in rows]


def observe_intf(mdg, intf, geo, kind="exact", blocks=None):
    b = blocks or _blocks(mdg, intf, geo)
    conv = (lambda x: codec.rat(x, 10 ** 6)) if kind == "exact" else (lambda x: int(round(float(x) * FIXED_UNIT)))
    mats = {k: getattr(intf, f)().toarray() for k, f in (
        ("p2mI", "primary_to_mortar_int"), ("p2mA", "primary_to_mortar_avg"), ("s2mI", "secondary_to_mortar_int"),
        ("s2mA", "secondary_to_mortar_avg"), ("m2pI", "mortar_to_primary_int"), ("m2pA", "mortar_to_primary_avg"),
        ("m2sI", "mortar_to_secondary_int"), ("m2sA", "mortar_to_secondary_avg"))}
    out = dict(kind=kind, err="", shape_ok=True, prim=b["prim"], mort=b["mort"], sec=b["sec"])
    ns = len(b["mrows"])
    # a matrix of the wrong shape is an observation (the transposition clause fails), not a harness failure
    nm, nsec = sum(len(r) for r in b["mrows"]), len(b["scol"])
    want = dict(p2mI=(nm, b["nprim"]), p2mA=(nm, b["nprim"]), s2mI=(nm, nsec), s2mA=(nm, nsec),
                m2pI=(b["nprim"], nm), m2pA=(b["nprim"], nm), m2sI=(nsec, nm), m2sA=(nsec, nm))
    bad = [f"{k}: shape {mats[k].shape}, expected {want[k]}" for k in want if tuple(mats[k].shape) != want[k]]
    if bad:
        out.update(shape_ok=False, shape_msg="; ".join(bad)[:200], stray=False,
                   **{k: [] for k in want})
        return out
    for k in ("p2mI", "p2mA"):
        out[k] = [_cut(mats[k], b["mrows"][s], b["pcol"][s], conv) for s in range(ns)]
    for k in ("s2mI", "s2mA"):
        out[k] = [_cut(mats[k], b["mrows"][s], b["scol"], conv) for s in range(ns)]
    for k in ("m2pI", "m2pA"):
        out[k] = [_cut(mats[k], b["pcol"][s], b["mrows"][s], conv) for s in range(ns)]
    for k in ("m2sI", "m2sA"):
        out[k] = [_cut(mats[k], b["scol"], b["mrows"][s], conv) for s in range(ns)]
    # anything outside the per-side blocks of the primary maps (secondary maps have no outside)
    stray = False
    for s in range(ns):
        other = np.setdiff1d(np.arange(b["nprim"]), np.array(b["pcol"][s], dtype=int))
        rows = np.array(b["mrows"][s], dtype=int)
        for k in ("p2mI", "p2mA"):
            stray = stray or bool(np.any(np.abs(mats[k][np.ix_(rows, other)]) > 1e-12))
        for k in ("m2pI", "m2pA"):
            stray = stray or bool(np.any(np.abs(mats[k][np.ix_(other, rows)]) > 1e-12))
    out["stray"] = stray
    return out


def observe(d: Drv):
    if d.err:
        return dict(err=d.err, nsteps=d.nsteps, ifs=[])
    try:
        ifs = [observe_intf(d.mdg, i, g) for i, g in zip(d.intfs, d.geos)]
    except codec.Inexact:
        return dict(err="inexact", nsteps=d.nsteps, ifs=[])
    return dict(err="", nsteps=d.nsteps, ifs=ifs)


def apply(d: Drv, e):
    """one replace_subdomains_and_interfaces call on the real md-grid; an exception is an observation"""
    c = CONFIGS[d.name]
    intf = d.intfs[0]
    hi, lo = d.mdg.interface_to_subdomain_pair(intf)
    d.nsteps += 1
    try:
        if e["ev"] == "um":
            cur = _blocks(d.mdg, intf, d.geos[0])["mort"]
            new = {}
            for (side, _), b, old in zip(list(intf.side_grids.items()), e["parts"], cur):
                if b != old or e.get("force"):
                    new[side] = _line_grid(b)
            d.mdg.replace_subdomains_and_interfaces(interface_map={intf: new})
        elif e["ev"] == "us":
            if c["cross"]:
                g = [x for x in _meshed(c, e["part"]).subdomains(dim=1) if _on_fracture(x)][0]
            else:
                g = _line_grid(e["part"])
            d.mdg.replace_subdomains_and_interfaces({lo: g})
        elif e["ev"] == "up":
            g = _meshed(c, e["part"]).subdomains(dim=2)[0]
            d.mdg.replace_subdomains_and_interfaces({hi: g})
        else:
            raise ValueError(e)
    except Exception as x:  # noqa
        d.err = f"{e['ev']}: {type(x).__name__}: {x}"[:160]
        return dict(res=type(x).__name__)
    return dict(res="ok")


def make_actions(name, parts, host, depth_full, sample, seed):
    c = CONFIGS[name]

    def actions(p):
        if p["err"]:
            return []
        o = p["ifs"][0]
        acts = []
        for b in parts:
            acts.append(dict(ev="um", parts=[b, b]))
        for x, y in c["um_extra"]:
            # (a state in which the code lost a mortar side is judged as it is - shape clause - and not extended this way)
            if (x is None or x in parts) and (y is None or y in parts) and len(o["mort"]) >= 2:
                acts.append(dict(ev="um", parts=[x or o["mort"][0], y or o["mort"][1]]))
        for b in parts:
            acts.append(dict(ev="us", part=b))
        for b in host:
            acts.append(dict(ev="up", part=b))
        if p["nsteps"] >= depth_full and sample:
            r = random.Random(zlib.crc32(repr((seed, name, p["nsteps"], o["prim"], o["mort"], o["sec"])).encode()))
            acts = r.sample(acts, min(sample, len(acts)))
        return acts

    return actions


def record(name, parts, host, depth, depth_full, sample, seed, max_nodes):
    g = ex.explore_paths(lambda: Drv(name), actions=make_actions(name, parts, host, depth_full, sample, seed),
                         apply=apply, project=observe, max_depth=depth, max_nodes=max_nodes)
    g["config"] = name
    return g


# ===================================================================== 2-d catalogue (laws only)
def _tri_on_plane(n, ax, c):
    import porepy as pp

    g = pp.StructuredTriangleGrid(np.array([n, n]), np.array([1.0, 1.0]))
    x = g.nodes.copy()
    other = [a for a in range(3) if a != ax]
    nn = np.zeros_like(x)
    nn[other[0]], nn[other[1]], nn[ax] = x[0], x[1], c
    g.nodes = nn
    g.compute_geometry()
    return g


def _blocks_2d(mdg, intf, ax, c, sign):
    hi, lo = mdg.interface_to_subdomain_pair(intf)
    mrows, off = [], 0
    for g in intf.side_grids.values():
        mrows.append(list(range(off, off + g.num_cells)))
        off += g.num_cells
    scol = list(range(lo.num_cells))
    ff = [f for f in np.where(hi.tags["fracture_faces"])[0] if abs(hi.face_centers[ax, f] - c) < 1e-9]
    cf = hi.cell_faces.tocsr()
    pcol = [[int(f) for f in ff if (1 if hi.cell_centers[ax, cf[f].indices[0]] > c else -1) == sg] for sg in sign]
    return dict(mrows=mrows, scol=scol, pcol=pcol, mort=[], sec=[], prim=[], nprim=hi.num_faces)


_T2D = {}


def _template_2d():
    import porepy as pp

    if "t" not in _T2D:
        mdg, _ = pp.mdg_library.cube_with_orthogonal_fractures("simplex", {"cell_size": 0.5}, fracture_indices=[1])
        intf = mdg.interfaces()[0]
        hi, lo = mdg.interface_to_subdomain_pair(intf)
        ax = int(np.argmin(lo.nodes.max(axis=1) - lo.nodes.min(axis=1)))
        c = float(lo.nodes[ax, 0])
        A = intf.primary_to_mortar_int().toarray()
        sign, off = [], 0
        for g in intf.side_grids.values():
            f = int(np.nonzero(A[off])[0][0])
            sign.append(1 if hi.cell_centers[ax, hi.cell_faces.tocsr()[f].indices[0]] > c else -1)
            off += g.num_cells
        _T2D["t"] = (mdg, ax, c, sign)
    return _T2D["t"]


def run_2d(history):
    """execute a history of 2-d replacements on a fresh copy; returns the list of (event, case) and what was refused"""
    import porepy as pp

    mdg, ax, c, sign = copy.deepcopy(_template_2d())
    intf = mdg.interfaces()[0]
    out = []
    for e in [dict(ev="start")] + history:
        err = ""
        hi, lo = mdg.interface_to_subdomain_pair(intf)
        try:
            if e["ev"] == "um2":
                sides = list(intf.side_grids)
                pick = sides if e.get("sides", "both") == "both" else sides[:1]
                mdg.replace_subdomains_and_interfaces(interface_map={intf: {s: _tri_on_plane(e["n"], ax, c) for s in pick}})
            elif e["ev"] == "us2":
                mdg.replace_subdomains_and_interfaces({lo: _tri_on_plane(e["n"], ax, c)})
            elif e["ev"] == "us2cart":
                g = pp.CartGrid(np.array([2, 2]), np.array([1.0, 1.0]))
                x = g.nodes.copy()
                other = [a for a in range(3) if a != ax]
                nn = np.zeros_like(x)
                nn[other[0]], nn[other[1]], nn[ax] = x[0], x[1], c
                g.nodes = nn
                g.compute_geometry()
                mdg.replace_subdomains_and_interfaces({lo: g})
            elif e["ev"] == "up2":
                mdg.replace_subdomains_and_interfaces({hi: hi.copy()})
        except Exception as x:  # noqa
            err = f"{type(x).__name__}: {x}"[:120]
        if err:
            out.append((e, dict(kind="fixed", err=err)))
            break
        out.append((e, observe_intf(mdg, intf, None, kind="fixed", blocks=_blocks_2d(mdg, intf, ax, c, sign))))
    return out


HIST_2D = [
    [dict(ev="us2", n=2)], [dict(ev="us2", n=3)], [dict(ev="um2", n=2)], [dict(ev="um2", n=3)],
    [dict(ev="um2", n=2, sides="one")],
    [dict(ev="um2", n=3), dict(ev="us2", n=2)], [dict(ev="us2", n=3), dict(ev="um2", n=2)],
    [dict(ev="um2", n=2), dict(ev="um2", n=3)], [dict(ev="us2", n=2), dict(ev="us2", n=3)],
    [dict(ev="um2", n=3, sides="one"), dict(ev="us2", n=3), dict(ev="um2", n=2)],
]
# what the code refuses for 2-d interfaces (recorded in the evidence, not judged)
REFUSED_2D = [[dict(ev="us2cart")], [dict(ev="up2")]]


# ===================================================================== TLC runs
# TLC evaluates the lazily built rational matrix products of MortarMapsRef recursively; with the default 1 MB thread
# stack a worker now and then dies with a Java StackOverflowError (seen under heavy machine load, reproducible with
# -Xss600k).  All TLC runs of this module therefore get a larger thread stack.
_JVM = {"JAVA_TOOL_OPTIONS": "-Xss64m"}


def _judge(ctx, cases, workers=8, tag=None):
    """ctx.judge (spec/lib/Judge.tla idiom) with the larger thread stack"""
    tag = tag or f"j{len(ctx.tlc_runs)}"
    f = ctx.datafile(f"cases_{tag}.json", cases)
    m, cf = tlc.gen(ctx.work / tag, "MC_J_MortarMaps", "J_MortarMaps", {}, spec="JSpec", invariants=list(CLAUSES))
    return ctx.tlc(m, cf, workers=workers, env=dict(_JVM, VERIF_CASES=f), allow_violation=False).records


def design(ctx, parts, host, um_extra, steps, dup):
    idx = {tuple(b): k + 1 for k, b in enumerate(parts)}
    um = [[k, k] for k in range(1, len(parts) + 1)]
    um += [[idx.get(tuple(x), 0) if x else 0, idx.get(tuple(y), 0) if y else 0] for x, y in um_extra]
    consts = dict(L=L, Parts=parts, InitParts={1, 2}, UMChoices=tlc.Raw("{" + ", ".join(tlc.tla(x) for x in um) + "}"),
                  USChoices=set(range(1, len(parts) + 1)), UPChoices={idx[tuple(b)] for b in host if tuple(b) in idx},
                  MaxSteps=steps, DupFaces=dup)
    m, cf = tlc.gen(ctx.work / f"design_{dup}", "MC_MortarMaps", "MortarMaps", consts,
                    invariants=["PartsOK", "Laws"])
    return ctx.tlc(m, cf, workers=8, env=dict(_JVM), allow_violation=dup)


def conformance(ctx, gfile):
    m, cf = tlc.gen(ctx.work / "trace", "MC_T_MortarMaps", "T_MortarMaps", {}, spec="TSpec", view="TView")
    return ctx.tlc(m, cf, workers=8, env=dict(_JVM, VERIF_GRAPH=gfile), allow_violation=False)


def _report(ctx, cases, metas, verdicts):
    for v in sorted(verdicts, key=lambda v: (len(metas[v["case"] - 1]["history"]), v["case"], v["clause"])):
        meta = metas[v["case"] - 1]
        if len(ctx.violations) >= MAX_REPORTED:
            ctx.extra["violations_not_listed"] = ctx.extra.get("violations_not_listed", 0) + 1
            continue
        rec = dict(meta, observed=cases[v["case"] - 1])
        ctx.violation(v["clause"], rec, f"{meta['config']} interface {meta['interface']} after {meta['history']}"[:300])


def run(ctx):
    ctx.rule = ("per configuration (fractured md-grid on integer coordinates) histories of up to 3 calls of "
                "replace_subdomains_and_interfaces (new mortar side grids / new 1-d grid / re-meshed host, partitions from a "
                "catalogue of uniform and non-uniform refinements; full alphabet to depth 2, seeded sample of third calls) "
                "are executed on the real code; evaluations = judged (state, interface) pairs, all eight matrices per mortar "
                "side as exact rationals; non-trivial = the interface is non-matching (some map is not a 0/1 matrix)")
    ctx.assumptions = [
        "fractures on integer coordinates, so that every overlap weight is an exact rational (float -> rational within 1e-9)",
        "covered entities of a mortar side = the host faces lying on the fracture on that side / all cells of the 1-d grid",
        "crossing configuration: the host is not replaced (unsupported by match_grids_along_1d_mortar); 0-d interfaces are not judged",
        "2-d interfaces: gmsh geometry, laws judged in fixed point (1e-7 units, slack ~1e-6); update_primary for 2-d mortars and "
        "non-simplex 2-d grids are refused by the code (NotImplementedError / ValueError) and only recorded"]
    q = ctx.quick
    # (1) design
    des = design(ctx, [U2, U3, U4, N1], [U3, U4], [[U3, None], [U3, U4]], 2 if q else 3, False)
    ctx.extra["design_states"] = des.distinct
    if not q:
        r = design(ctx, [U2, U3, U4, N1], [U3, U4], [[U3, None]], 2, True)
        if r.violated != "Laws":
            raise RuntimeError("vacuity check: the duplicated-face mechanism does not break the laws in the model")
    # (2) real histories, 1-d interfaces
    graphs = []
    for name, c in CONFIGS.items():
        parts = QUICK_PARTS[name] if q else c["parts"]
        host = QUICK_HOST[name] if q else c["host"]
        # every history of <= 2 calls, then a seeded sample of the third call per state
        graphs.append(record(name, parts, host, 3, 2, 3 if q else 5, ctx.seed, 3000 if q else 40000))
    cases, metas = [], []
    for g in graphs:
        ctx.traces += ex.n_edges(g)
        for n, node in enumerate(g["nodes"], 1):
            hist = ex.path_to(g, n)
            if node["err"]:
                cases.append(dict(kind="exact", err=node["err"]))
                metas.append(dict(config=g["config"], interface=0, history=hist))
                ctx.case(key=(g["config"], "refused"), nontrivial=False)
                continue
            for k, o in enumerate(node["ifs"], 1):
                cases.append(o)
                metas.append(dict(config=g["config"], interface=k, history=hist))
                nonmatching = any(x[1] != 1 for s in o["p2mI"] + o["s2mI"] for row in s for x in row)
                ctx.case(key=(g["config"], k, tuple(map(tuple, o["prim"])), tuple(map(tuple, o["mort"])), tuple(o["sec"])),
                         nontrivial=nonmatching)
        ctx.extra.setdefault("graphs", []).append(dict(config=g["config"], nodes=len(g["nodes"]), edges=ex.n_edges(g),
                                                       truncated=g["truncated"]))
    # (3) 2-d catalogue
    refused = []
    for h in (HIST_2D[:6] if q else HIST_2D):
        steps = run_2d(h)
        for k, (e, case) in enumerate(steps):
            cases.append(case)
            metas.append(dict(config="cube2d", interface=1, history=h[:k]))
            ctx.case(key=("cube2d", repr(h[:k])), nontrivial=k > 0)
    for h in REFUSED_2D:
        steps = run_2d(h)
        refused.append(dict(call=h[0]["ev"], outcome=steps[-1][1].get("err") or "accepted"))
    ctx.extra["refused_for_2d_interfaces"] = refused
    verdicts = []
    for k in range(0, len(cases), 4000):
        for v in _judge(ctx, cases[k:k + 4000]):
            verdicts.append(dict(case=v["case"] + k, clause=v["clause"]))
    _report(ctx, cases, metas, verdicts)
    # (4) conformance of the 1-d histories with the model
    gfile = ctx.datafile("graphs.json", graphs)
    tr = conformance(ctx, gfile)
    taken = {tuple(r) for r in tr.records}
    for gi, g in enumerate(graphs, 1):
        reached = {1} | {g["edges"][n - 1][i - 1]["dst"] for (k, n, i) in taken if k == gi}
        missing = [(n, i, e) for n, es in enumerate(g["edges"], 1) if n in reached for i, e in enumerate(es, 1)
                   if (gi, n, i) not in taken]
        for n, i, e in missing[:2]:
            ctx.drift(f"transition not a step of MortarMaps ({g['config']}): history={ex.path_to(g, n)} call="
                      f"{ {k: v for k, v in e.items() if k != 'dst'} }")
        for _ in missing[2:]:
            ctx.drift("")
    g0 = graphs[0]
    n0 = len(g0["nodes"])
    ctx.sample(dict(config=g0["config"], history=ex.path_to(g0, n0),
                    observed={k: g0["nodes"][-1]["ifs"][0][k] for k in ("prim", "mort", "sec", "p2mI", "s2mA")}
                    if not g0["nodes"][-1]["err"] else g0["nodes"][-1]["err"]))
    ctx.exhaustive = False  # the third call of a history is sampled


def replay(ctx, body):
    rec = body["record"]
    if rec["config"] == "cube2d":
        steps = run_2d(rec["history"])
        case = steps[-1][1]
    else:
        d = Drv(rec["config"])
        for e in rec["history"]:
            apply(d, e)
        node = observe(d)
        case = dict(kind="exact", err=node["err"]) if node["err"] else node["ifs"][rec["interface"] - 1]
    ctx.case(key="replay")
    ctx.sample(rec["history"])
    for v in _judge(ctx, [case], workers=1):
        ctx.violation(v["clause"], dict(rec, observed=case), "replayed")
