"""C39 Boundary condition objects partition the boundary faces.

spec/sys/BoundaryCond.tla  state machine (per face and component one flag code; constructor = sequence of Assign
                           steps; set_bc for the vectorial class), invariants Partition / InteriorClean /
                           UnassignedNeumann checked by TLC over all programs (design); Emit prints every program;
spec/ref/BCFlags.tla       the flag algebra shared with the judge;
spec/trace/J_BoundaryCond.tla  TLC judges the flag arrays recorded from the real objects -> verdict
                           (clause Mechanism = conformance -> drift).

Every emitted program (<= 3 assignments over 4 boundary faces, duplicates included, index and boolean-mask form) is
executed on real BoundaryCondition / BoundaryConditionVectorial objects on a Cartesian grid, a simplex grid, a split
fractured grid and a fracture grid with tip faces (thorough: also an immersed-fracture host grid and 3-D grids)."""
from __future__ import annotations

import warnings
from concurrent.futures import ThreadPoolExecutor

import numpy as np

from .. import tlc

LEVEL = "model_checking"
CLAUSES = ["NoError", "Shape", "ExactlyOneOnBoundary", "NoneOnInterior", "UnassignedNeumann"]
# internal_to_dirichlet (AbstractBoundaryCondition: Dirichlet on all fracture faces) is offered as one more action of
# the vectorial class (on the scalar class the method raises IndexError - it indexes the 1-D flag arrays with two
# indices - and is documented for mixed-dimensional deformation problems only: not part of the verdict).
WITH_INTERNAL_TO_DIRICHLET = True
I2D_FIX = True  # internal_to_dirichlet clears the Robin flag (code after fix 188b3d06c)
CHUNK = 40000

_GRIDS = {}


def grids(ctx_quick):
    """name -> (sd, chosen real faces (increasing, 0-based)); built once"""
    import porepy as pp

    if _GRIDS:
        return _GRIDS
    g = pp.CartGrid([2, 2])
    g.compute_geometry()
    _GRIDS["cart2"] = (g, [0, 5, 6, 11])
    g = pp.StructuredTriangleGrid([2, 2])
    g.compute_geometry()
    _GRIDS["tri2"] = (g, [0, 6, 13, 15])
    # one fracture through the whole domain: faces along x = 1 are split, both copies are tagged fracture_faces
    mdg = pp.meshing.cart_grid([np.array([[1, 1], [0, 2]])], np.array([2, 2]))
    sd = mdg.subdomains(dim=2)[0]
    ff = np.where(sd.tags["fracture_faces"])[0]
    db = np.where(sd.tags["domain_boundary_faces"])[0]
    _GRIDS["frac2"] = (sd, sorted([int(db[0]), int(db[-1]), int(ff[0]), int(ff[-1])]))
    # an immersed fracture (does not reach the domain boundary)
    mdg = pp.meshing.cart_grid([np.array([[1, 2], [1, 1]])], np.array([3, 2]))
    sd = mdg.subdomains(dim=2)[0]
    ff = np.where(sd.tags["fracture_faces"])[0]
    db = np.where(sd.tags["domain_boundary_faces"])[0]
    _GRIDS["frac2i"] = (sd, sorted([int(db[1]), int(db[-2]), int(ff[0]), int(ff[1])]))
    # the 2-d grid OF a fracture immersed in a 3-d domain (x in [1,3], y in [1,2], z = 1 in a 3x3x2 box): its boundary
    # faces are tip faces (off the domain boundary) except one on the domain boundary; one interior face
    mdg = pp.meshing.cart_grid([np.array([[1, 3, 3, 1], [1, 1, 2, 2], [1, 1, 1, 1]])], np.array([3, 3, 2]))
    sd = mdg.subdomains(dim=2)[0]
    tips = np.where(sd.tags["tip_faces"])[0]
    db = np.where(sd.tags["domain_boundary_faces"])[0]
    assert tips.size >= 4 and db.size >= 1 and sd.num_faces > sd.get_all_boundary_faces().size
    _GRIDS["tip2"] = (sd, sorted([int(tips[0]), int(tips[2]), int(tips[-1]), int(db[0])]))
    g = pp.CartGrid([2, 1, 1])
    g.compute_geometry()
    bf = g.get_all_boundary_faces()
    _GRIDS["cart3"] = (g, [int(bf[0]), int(bf[3]), int(bf[6]), int(bf[-1])])
    g = pp.StructuredTetrahedralGrid([1, 1, 1])
    g.compute_geometry()
    bf = g.get_all_boundary_faces()
    _GRIDS["tet3"] = (g, [int(bf[0]), int(bf[2]), int(bf[5]), int(bf[-1])])
    mdg = pp.meshing.cart_grid([np.array([[1, 1, 1, 1], [0, 1, 1, 0], [0, 0, 1, 1]])], np.array([2, 1, 1]))
    sd = mdg.subdomains(dim=3)[0]
    ff = np.where(sd.tags["fracture_faces"])[0]
    db = np.where(sd.tags["domain_boundary_faces"])[0]
    _GRIDS["frac3"] = (sd, sorted([int(db[0]), int(db[-1]), int(ff[0]), int(ff[-1])]))
    return _GRIDS


def grid_const(sd, chosen):
    bnd = sd.get_all_boundary_faces()
    assert all(c in bnd for c in chosen) and chosen == sorted(chosen) and len(set(chosen)) == 4
    return dict(nf=int(sd.num_faces), dim=int(sd.dim), bnd={int(f) + 1 for f in bnd},
                frac={int(f) + 1 for f in np.where(sd.tags["fracture_faces"])[0]}, chosen=[c + 1 for c in chosen])


# ----------------------------------------------------------------- real-code driver
def _args(call, sd, chosen, strcond):
    items = call["items"]
    conds = [it["c"] for it in items]
    if call["form"] == "index":
        if not items and call["op"] == "ctor":
            return None, None  # the usual pp.BoundaryCondition(sd)
        faces = np.array([chosen[it["f"] - 1] for it in items], dtype=int)
    else:
        faces = np.zeros(sd.num_faces, dtype=bool)
        faces[[chosen[it["f"] - 1] for it in items]] = True  # items are in increasing face order (spec)
    cond = conds[0] if (strcond and conds and len(set(conds)) == 1) else conds
    return faces, cond


def codes(bc):
    d, n, r = (np.atleast_2d(np.asarray(x)).astype(int) for x in (bc.is_dir, bc.is_neu, bc.is_rob))
    return (d + 2 * n + 4 * r).tolist()


def execute(sd, chosen, vec, prog, strcond):
    import porepy as pp

    cls = pp.BoundaryConditionVectorial if vec else pp.BoundaryCondition
    bc = None
    try:
        with warnings.catch_warnings():
            warnings.simplefilter("ignore")
            for call in prog:
                if call["op"] == "i2d":
                    bc.internal_to_dirichlet(sd)
                    continue
                faces, cond = _args(call, sd, chosen, strcond)
                if call["op"] == "ctor":
                    bc = cls(sd, faces, cond) if faces is not None else cls(sd)
                else:
                    bc.set_bc(faces, cond)
    except Exception as e:  # noqa
        return dict(raised=type(e).__name__, out=[])
    return dict(raised="", out=codes(bc))


def strcond_applies(prog):
    return any(c["items"] and len({it["c"] for it in c["items"]}) == 1 for c in prog)


# ----------------------------------------------------------------- TLC enumeration
def consts(vec, max_assign, mixed, fix=True, i2d=None, i2dfix=None):
    return dict(Vectorial=vec, NComp=2 if vec else 1, FracChosen={3, 4}, MaxAssign=max_assign, MixedForms=mixed,
                RobDirFix=fix, WithI2D=WITH_INTERNAL_TO_DIRICHLET if i2d is None else i2d,
                I2DFix=I2D_FIX if i2dfix is None else i2dfix)


def enumerate_programs(ctx, tag, vec, max_assign, mixed, workers=4, i2d=None):
    invs = ["Partition", "InteriorClean", "UnassignedNeumann", "RunProgAgrees", "Emit"]
    m, cf = tlc.gen(ctx.work / f"enum_{tag}", "MC_BoundaryCond", "BoundaryCond",
                    consts(vec, max_assign, mixed, i2d=i2d), invariants=invs)
    res = ctx.tlc(m, cf, workers=workers, allow_violation=False)
    if len(res.records) != res.distinct:
        raise RuntimeError(f"emitted {len(res.records)} programs for {res.distinct} states")
    return [r["prog"] for r in res.records]


def vacuity(ctx, which):
    """the models before fix 9a25a228d / 188b3d06c must violate Partition (the invariant can fail)"""
    k = consts(True, 2, False, fix=False, i2d=False) if which == "robdir" else \
        consts(True, 1, False, i2d=True, i2dfix=False)
    m, cf = tlc.gen(ctx.work / f"vacuity_{which}", "MC_BoundaryCond", "BoundaryCond", k, invariants=["Partition"])
    res = ctx.tlc(m, cf, workers=2)
    if res.violated != "Partition":
        raise RuntimeError(f"vacuity check failed: BoundaryCond ({which} unrepaired) does not violate Partition")
    return res.violated


def judge_chunk(ctx, tag, gconst, cases):
    return ctx.judge("J_BoundaryCond", cases, CLAUSES + ["Mechanism"],
                     consts=dict(Grids=gconst, RobDirFix=True, I2DFix=I2D_FIX), workers=6, tag=tag)


def _nontrivial_key(prog):
    """class of a program: (number of calls, forms, multiset of conditions, repeated face?)"""
    items = [it for c in prog for it in c["items"]]
    faces = [it["f"] for it in items]
    return (len(prog), tuple(c["form"] for c in prog), tuple(sorted(it["c"] for it in items)),
            len(set(faces)) < len(faces))


def dispatch(ctx, cases, verdicts, names):
    n_drift = 0
    for v in verdicts:
        c = cases[v["case"] - 1]
        rec = dict(grid=names[c["g"] - 1], vec=c["vec"], prog=c["prog"], strcond=c["strcond"], raised=c["raised"],
                   out=c["out"])
        if v["clause"] == "Mechanism":
            n_drift += 1
            ctx.drift(f"flags differ from the Assign model: grid={rec['grid']} vec={c['vec']} prog={c['prog']} "
                      f"out={c['out']}" if n_drift <= 3 else "")
            continue
        if len(ctx.violations) >= 12:
            ctx.extra["violations_not_listed"] = ctx.extra.get("violations_not_listed", 0) + 1
            continue
        ctx.violation(v["clause"], rec, f"grid={rec['grid']} {'vectorial' if c['vec'] else 'scalar'} "
                      f"prog={[(x['op'], x['form'], [(i['f'], i['c']) for i in x['items']]) for x in c['prog']]} "
                      f"raised={c['raised']!r}")


def run(ctx):
    q = ctx.quick
    ctx.rule = ("TLC enumerates every program of <= 3 Assign steps over 4 boundary faces (3 conditions, repetitions, index "
                "or boolean-mask form per call; vectorial class: split over constructor + later set_bc calls); each is "
                "executed on real objects per grid (Cartesian, simplex, split fractured, the 2-d grid of an immersed "
                "fracture with tip faces; thorough: host grid of an immersed fracture, 3-D Cartesian, tetrahedral, 3-D "
                "fractured), also with the condition passed as one "
                "string where a call allows it; TLC judges the recorded flag arrays; evaluations = executed "
                "(program, grid, class) cases; non-trivial classes = (calls, forms, conditions, repeated face)")
    ctx.assumptions = ["faces are assigned only on boundary-like faces (domain boundary, fracture); interior faces are "
                       "rejected by the constructors and not part of the family",
                       "internal_to_dirichlet is %s" % ("included" if WITH_INTERNAL_TO_DIRICHLET else "not included")]
    G = grids(q)
    names = ["cart2", "tri2", "frac2", "tip2"] + ([] if q else ["frac2i", "cart3", "tet3", "frac3"])
    gconst = [grid_const(*G[n]) for n in names]
    with ThreadPoolExecutor(6) as pool:
        fs = pool.submit(enumerate_programs, ctx, "scalar", False, 3, True)
        # vectorial class, <= 2 assignments split over constructor / set_bc calls, internal_to_dirichlet
        # (quick: one form per program; thorough: form chosen per call)
        fv = pool.submit(enumerate_programs, ctx, "vec2", True, 2, not q, 4)
        # thorough: <= 3 assignments, form chosen per call, without / (one form per program) with internal_to_dirichlet
        fm = None if q else pool.submit(enumerate_programs, ctx, "vec3m", True, 3, True, 8, False)
        fi = None if q else pool.submit(enumerate_programs, ctx, "vec3i", True, 3, False, 8, True)
        fvac = [pool.submit(vacuity, ctx, w) for w in ("robdir", "i2d")]
        scalar, vec, vac = fs.result(), fv.result(), [f.result() for f in fvac]
        vec3m, vec3i = (fm.result(), fi.result()) if not q else ([], [])
    ctx.extra["design_vacuity_RobDirFix_FALSE_I2DFix_FALSE_violate"] = vac
    ctx.extra["programs_scalar"], ctx.extra["programs_vectorial"] = len(scalar), [len(vec), len(vec3m), len(vec3i)]
    # (program, grid, class) cases
    ix = {n: i for i, n in enumerate(names)}
    todo = [(False, p, gi) for p in scalar for gi in range(len(names))]
    todo += [(True, p, gi) for p in vec for gi in range(len(names))]
    if q:
        # constructor-only programs with 3 assignments (= the scalar list) on the vectorial class, fractured grid
        todo += [(True, p, ix["frac2"]) for p in scalar if len(p[0]["items"]) == 3]
    else:
        seen = {repr(p) for p in vec}
        todo += [(True, p, ix["frac2"]) for p in vec3m if repr(p) not in seen]
        seen |= {repr(p) for p in vec3m}
        todo += [(True, p, ix["frac2"]) for p in vec3i if repr(p) not in seen]
    cases = []
    for v, p, gi in todo:
        sd, chosen = G[names[gi]]
        # the same call with the condition given as one string (quick: on the fractured grid only)
        for sc in ([False, True] if strcond_applies(p) and (not q or names[gi] == "frac2") else [False]):
            r = execute(sd, chosen, v, p, sc)
            cases.append(dict(g=gi + 1, vec=v, prog=p, strcond=sc, raised=r["raised"], out=r["out"]))
            ctx.case(key=(v, sc) + _nontrivial_key(p), nontrivial=len(p[0]["items"]) + len(p) > 1)
    ctx.programs = len(scalar) + len({repr(p) for p in vec + vec3m + vec3i})
    size = 7000 if q else CHUNK
    chunks = [cases[i:i + size] for i in range(0, len(cases), size)]
    with ThreadPoolExecutor(3) as pool:
        futs = [pool.submit(judge_chunk, ctx, f"j{i}", gconst, ch) for i, ch in enumerate(chunks)]
        for ch, f in zip(chunks, futs):
            dispatch(ctx, ch, f.result(), names)
    for c in (cases[len(cases) // 3], cases[-1]):
        ctx.sample(dict(grid=names[c["g"] - 1], vec=c["vec"], prog=c["prog"], strcond=c["strcond"], out=c["out"]))
    # thorough: every emitted program was executed (each on at least one grid, the short ones on all)
    ctx.exhaustive = not q
    ctx.extra["grids"] = names


def replay(ctx, body):
    rec = body["record"]
    G = grids(True)
    sd, chosen = G[rec["grid"]]
    r = execute(sd, chosen, rec["vec"], rec["prog"], rec["strcond"])
    case = dict(g=1, vec=rec["vec"], prog=rec["prog"], strcond=rec["strcond"], raised=r["raised"], out=r["out"])
    ctx.case(key="replay")
    ctx.sample(case)
    dispatch(ctx, [case], judge_chunk(ctx, "replay", [grid_const(sd, chosen)], [case]), [rec["grid"]])
