"""C21 Grid connectivity queries agree with the cell-face incidence.

spec/ref/GridTopology.tla   reference functions derived from the signed incidence alone + model laws
spec/ref/GridComplexes.tla  TLC enumerates small abstract complexes (chains, quad / triangle patches with
                            holes, reversed normals, split faces) and checks the laws on each
spec/trace/J_GridTopology.tla  TLC judges what the real pp.Grid queries returned

Binding (i): every emitted complex is instantiated with pp.Grid(dim, nodes, face_nodes, cell_faces, name).
Binding (ii): real porepy grids (Cartesian, structured simplex, fractured grids from pp.meshing.cart_grid,
results of pp.partition.extract_subgrid) are exported as integer incidence and judged the same way.
Binding (iii): query - update in place - query: the grids of a fractured domain are queried before porepy splits
their fracture faces / lets the fractures propagate (in-place changes of cell_faces, num_faces), and the same
objects are queried and judged again after every update.
Python only builds the grids, calls the queries and serialises integers."""
from __future__ import annotations

import warnings

import numpy as np
import scipy.sparse as sps

from .. import tlc

LEVEL = "model_checking"
CLAUSES = ["InFamily", "Dense", "ConnMap", "ConnSym", "BoundaryTagUpdate", "BoundaryTagsStored", "SignsCells",
           "CellNodeMap", "VecDiv", "QueriesPure"]
MACHINERY = {"InFamily"}


# ---------------------------------------------------------------------------------------------------
# integer export / import of grids (also used by c22 and c17)
def grid_to_inc(g):
    """Signed incidence and face nodes of a real grid as plain integers (record G of GridTopology)."""
    cf = g.cell_faces.tocsr()
    cf.sum_duplicates()
    fn = g.face_nodes.tocsc()
    rows = []
    for f in range(g.num_faces):
        lo, hi = cf.indptr[f], cf.indptr[f + 1]
        rows.append([[int(c), int(v)] for c, v in zip(cf.indices[lo:hi], cf.data[lo:hi]) if v != 0])
    fns = [[int(n) for n in fn.indices[fn.indptr[f]:fn.indptr[f + 1]]] for f in range(g.num_faces)]
    return dict(dim=int(g.dim), nc=int(g.num_cells), nf=int(g.num_faces), nn=int(g.num_nodes), cf=rows, fn=fns)


def inc_to_grid(G, xy=None, name="verif"):
    """pp.Grid from a record G; xy = integer node coordinates (2 or 3 per node)."""
    import porepy as pp

    nn, nf, nc = G["nn"], G["nf"], G["nc"]
    nodes = np.zeros((3, nn))
    if xy is not None:
        a = np.asarray(xy, dtype=float).T
        nodes[: a.shape[0], :] = a
    ni = [n for ns in G["fn"] for n in ns]
    indptr = np.cumsum([0] + [len(ns) for ns in G["fn"]])
    face_nodes = sps.csc_matrix((np.ones(len(ni), dtype=bool), np.array(ni, dtype=int), indptr), shape=(nn, nf))
    r = [f for f, ps in enumerate(G["cf"]) for _ in ps]
    c = [p[0] for ps in G["cf"] for p in ps]
    v = [p[1] for ps in G["cf"] for p in ps]
    cell_faces = sps.coo_matrix((np.array(v, dtype=int), (np.array(r, dtype=int), np.array(c, dtype=int))),
                                shape=(nf, nc)).tocsc()
    return pp.Grid(G["dim"], nodes, face_nodes, cell_faces, name)


def entries(m):
    """Nonzero entries [row, col, int value] of a sparse matrix (duplicates summed, zeros dropped)."""
    m = sps.coo_matrix(m).tocsr()
    m.sum_duplicates()
    m = m.tocoo()
    out = []
    for r, c, v in zip(m.row, m.col, m.data):
        if v != 0:
            if float(v) != int(v):
                raise RuntimeError(f"non-integer matrix entry {v}")
            out.append([int(r), int(c), int(v)])
    return out


# ---------------------------------------------------------------------------------------------------
def observe(g, queries):
    """Everything C21 looks at, as integers."""
    from porepy.utils import tags as pptags

    out = {}
    cf_obj, cf0 = g.cell_faces, g.cell_faces.copy()   # the incidence as it is before the queries
    out["dense"] = [[int(x) for x in row] for row in np.asarray(g.cell_faces_as_dense())]
    out["conn"] = [[r, c] for r, c, v in entries(g.cell_connection_map().astype(int))]
    try:
        h = g.copy()
        h.tags["domain_boundary_faces"] = np.ones(h.num_faces, dtype=bool)  # must be recomputed, not kept
        h.update_boundary_face_tag()
        out["bnd_updated"] = [int(f) for f in np.where(h.tags["domain_boundary_faces"])[0]]
    except Exception:  # observation (e.g. the copy is refused because an earlier query damaged the incidence): -1 is no face
        out["bnd_updated"] = [-1]
    out["bnd_tags"] = [int(f) for f in np.where(pptags.all_face_tags(g.tags))[0]]
    if sorted(out["bnd_tags"]) != sorted(int(f) for f in g.get_all_boundary_faces()):
        out["bnd_tags"] = [-1]
    sc = []
    for q in queries:
        fa = np.array(q, dtype=int)
        try:
            sgn, cells = g.signs_and_cells_of_boundary_faces(fa)
            sc.append(dict(faces=list(map(int, q)), ok=True, sgn=[int(x) for x in sgn], cells=[int(x) for x in cells]))
        except ValueError:
            sc.append(dict(faces=list(map(int, q)), ok=False, sgn=[], cells=[]))
    out["sc"] = sc
    out["cn"] = [[r, c] for r, c, v in entries(g.cell_nodes().astype(int))]
    out["div"] = []
    for d in (1, 2, 3):
        m = g.divergence(d)
        out["div"].append(dict(d=d, shape=[int(m.shape[0]), int(m.shape[1])], ent=entries(m)))
    # queries must not change the grid: count the damage (clause QueriesPure) and undo it, so that later stages of an
    # in-place scenario export a well-formed incidence again
    now = g.cell_faces
    same_shape = now.shape == cf0.shape
    out["mutated"] = int((now != cf0).nnz) if same_shape else -1
    if out["mutated"] != 0:
        g.cell_faces = cf0
    return out


def rand_queries(rng, G, k=3):
    bf = [f for f, ps in enumerate(G["cf"]) if len(ps) == 1]
    qs = []
    for _ in range(k):
        if not bf:
            break
        n = rng.randint(1, len(bf))
        qs.append(rng.sample(bf, n))
    return qs


def build(recipe):
    """Real grid from a JSON-able recipe (used by run and by replay)."""
    import porepy as pp

    kind = recipe[0]
    if kind == "cart":
        return pp.CartGrid(np.array(recipe[1]))
    if kind == "stri":
        return pp.StructuredTriangleGrid(np.array(recipe[1]))
    if kind == "stet":
        return pp.StructuredTetrahedralGrid(np.array(recipe[1]))
    if kind == "frac":
        mdg = pp.meshing.cart_grid([np.array(f) for f in recipe[1]], np.array(recipe[2]))
        return mdg.subdomains()[recipe[3]]
    if kind == "extract":
        h, _, _ = pp.partition.extract_subgrid(build(recipe[1]), np.array(recipe[2], dtype=int))
        return h
    raise ValueError(recipe)


def real_recipes(ctx):
    import porepy as pp

    out = []
    carts = [[1], [2], [4], [1, 1], [2, 1], [2, 2], [3, 2], [1, 1, 1], [2, 2, 1], [2, 2, 2]]
    tris = [[1, 1], [2, 1], [2, 2]]
    tets = [[1, 1, 1], [2, 1, 1]]
    if not ctx.quick:
        carts += [[6], [4, 3], [5, 5], [3, 2, 2], [3, 3, 3]]
        tris += [[3, 2], [3, 3]]
        tets += [[2, 2, 1], [2, 2, 2]]
    out += [["cart", d] for d in carts] + [["stri", d] for d in tris] + [["stet", d] for d in tets]
    fr2 = [
        ([[[1, 3], [1, 1]]], [4, 2]),
        ([[[1, 3], [1, 1]], [[2, 2], [0, 2]]], [4, 2]),
        ([[[0, 2], [1, 1]]], [2, 2]),
        ([[[1, 1], [0, 1]]], [2, 2]),
    ]
    fr3 = [([[[1, 1, 1, 1], [0, 2, 2, 0], [0, 0, 2, 2]]], [2, 2, 2])]
    if not ctx.quick:
        fr2 += [([[[1, 4], [2, 2]], [[2, 2], [1, 3]], [[3, 3], [0, 4]]], [5, 4]),
                ([[[0, 3], [1, 1]], [[0, 3], [2, 2]]], [3, 3])]
        fr3 += [([[[1, 1, 1, 1], [0, 2, 2, 0], [0, 0, 2, 2]], [[0, 2, 2, 0], [1, 1, 1, 1], [0, 0, 2, 2]]], [2, 2, 2]),
                ([[[1, 2, 2, 1], [1, 1, 2, 2], [1, 1, 1, 1]]], [3, 3, 2])]
    for fr, dims in fr2 + fr3:
        mdg = pp.meshing.cart_grid([np.array(f) for f in fr], np.array(dims))
        for j, sd in enumerate(mdg.subdomains()):
            if sd.dim >= 1:
                out.append(["frac", fr, dims, j])
    # subgrid extraction from the grids above (cell sets connected or not)
    ext = []
    for rc in out:
        g = build(rc)
        if g.num_cells < 2:
            continue
        for _ in range(2 if ctx.quick else 5):
            n = ctx.rng.randint(1, g.num_cells - 1)
            ext.append(["extract", rc, sorted(ctx.rng.sample(range(g.num_cells), n))])
    return out + ext


# ---------------------------------------------------------------------------------------------------
# query - change the topology in place - query again (porepy splits / propagates fractures in place)
def det_queries(G):
    """Deterministic scrambled boundary-face lists (replay must reproduce them)."""
    bf = [f for f, ps in enumerate(G["cf"]) if len(ps) == 1]
    return [q for q in (bf[::-1], bf[1::2] + bf[0::2]) if q]


def scenario_stages(sc):
    """Generator over the stages of an in-place update scenario; yields the SAME grid objects at every
    stage (the consumer queries them between the stages).
    ["split", fracs, dims]: the grids are built as pp.meshing.cart_grid does, queried before the fracture
        faces are split, then subdomains_to_mdg tags, assembles and splits them in place.
    ["propagate", fracs, dims, steps]: fractured md-grid; every step lets the fractures grow over the given
        faces of the matrix grid (pp.propagate_fracture.propagate_fractures, in place)."""
    import porepy as pp
    from porepy.fracs import structured

    fracs = [np.array(f) for f in sc[1]]
    dims = list(sc[2])
    if sc[0] == "split":
        make = structured._cart_grid_2d if len(dims) == 2 else structured._cart_grid_3d
        sub = make(fracs, dims, physdims=dims)
        grids = [g for level in sub for g in level if g.dim >= 1]
        yield grids
        pp.meshing.subdomains_to_mdg(sub)
        yield grids
    elif sc[0] == "propagate":
        mdg = pp.meshing.cart_grid(fracs, np.array(dims))
        low = list(mdg.subdomains(dim=len(dims) - 1))
        grids = list(mdg.subdomains(dim=len(dims))) + low
        yield grids
        for step in sc[3]:
            pp.propagate_fracture.propagate_fractures(mdg, {g: np.array(f, dtype=int) for g, f in zip(low, step)})
            yield grids
    else:
        raise ValueError(sc)


def scenario_cases(sc):
    """All C21 queries on every grid at every stage of the scenario."""
    cases = []
    for stage, grids in enumerate(scenario_stages(sc)):
        for j, g in enumerate(grids):
            G = grid_to_inc(g)
            cases.append({"src": dict(kind="inplace", scenario=sc, stage=stage, grid=j), "in": G,
                          "out": observe(g, det_queries(G))})
    return cases


def scenarios(ctx):
    sc = [["split", [[[1, 3], [1, 1]], [[2, 2], [0, 2]]], [4, 2]],
          ["split", [[[1, 1, 1, 1], [0, 2, 2, 0], [0, 0, 2, 2]]], [2, 2, 2]],
          ["propagate", [[[1, 2], [1, 1]], [[2, 3], [2, 2]]], [6, 3], [[[29], []], [[30], [34, 36]]]]]
    if not ctx.quick:
        sc += [["split", [[[1, 3], [1, 1]]], [4, 2]],
               ["split", [[[1, 4], [2, 2]], [[2, 2], [1, 3]], [[3, 3], [0, 4]]], [5, 4]],
               ["split", [[[1, 1, 1, 1], [0, 2, 2, 0], [0, 0, 2, 2]], [[0, 2, 2, 0], [1, 1, 1, 1], [0, 0, 2, 2]]], [2, 2, 2]],
               ["propagate", [[[2, 3], [1, 1]]], [5, 2], [[[20]], [[18]]]],
               ["propagate", [[[1, 2], [1, 1]], [[2, 3], [2, 2]]], [6, 3], [[[], [36]], [[29], [34]], [[30], []]]]]
    return sc


def judge_cases(ctx, cases, tag, cap=8, chunk=4000):
    seen = {}
    verdicts = []
    for k in range(0, len(cases), chunk):  # bounded batches keep TLC's memory for the case file small
        for v in ctx.judge("J_GridTopology", cases[k:k + chunk], CLAUSES, tag=f"{tag}{k // chunk}", workers=8):
            verdicts.append(dict(clause=v["clause"], case=v["case"] + k))
    for v in sorted(verdicts, key=lambda v: (v["clause"], v["case"])):
        case = cases[v["case"] - 1]
        if v["clause"] in MACHINERY:
            raise RuntimeError(f"case outside the family handed to the judge: {case['src']}")
        seen[v["clause"]] = seen.get(v["clause"], 0) + 1
        if seen[v["clause"]] > cap:  # one replay file per failing case is pointless beyond a handful
            continue
        ctx.violation(v["clause"], dict(src=case["src"], **{"in": case["in"]}, xy=case.get("xy"),
                                        queries=[q["faces"] for q in case["out"]["sc"]], out=case["out"]),
                      f"{case['src']}")
    if seen:
        ctx.extra["failing_cases_per_clause"] = seen


def run(ctx):
    warnings.filterwarnings("ignore")
    ctx.rule = ("(i) every abstract complex emitted by TLC (box, cell subset, orientation mask, split class) is "
                "instantiated with pp.Grid and (ii) real porepy grids (Cartesian, simplex, fractured, extracted) are "
                "exported as integer incidence; all six queries of each grid are judged by TLC against the reference "
                "derived from the incidence; (iii) in-place updates: the grids of a fractured domain are queried, then split / "
                "propagated in place by porepy (subdomains_to_mdg, propagate_fractures) and the SAME objects are queried "
                "and judged again at every stage; a case is non-trivial when the grid has interior and boundary faces; "
                "keys = (source family, #cells, #faces, #boundary faces, split?)")
    if ctx.quick:
        boxes = {("chain", 1, 1), ("chain", 4, 1), ("quad", 2, 2), ("quad", 3, 2), ("tri", 2, 1), ("tri", 2, 2)}
        consts = dict(Boxes=boxes, MaskBits=2, SplitChoices={-1, 1}, MaxCells=8)
    else:
        boxes = {("chain", 1, 1), ("chain", 3, 1), ("chain", 6, 1), ("quad", 2, 2), ("quad", 3, 2), ("quad", 4, 2),
                 ("quad", 3, 3), ("tri", 2, 1), ("tri", 2, 2), ("tri", 4, 1), ("tri", 3, 1)}
        consts = dict(Boxes=boxes, MaskBits=2, SplitChoices={-1, 0, 1, 2}, MaxCells=8)
    res = ctx.tlc(*tlc.gen(ctx.work / "enum", "MC_GridComplexes", "GridComplexes", consts,
                           invariants=["Laws", "Emit"]), allow_violation=False, workers=8)
    ctx.extra["enumerated_complexes"] = len(res.records)
    cases = []
    for r in res.records:
        g = inc_to_grid(r["in"], r["xy"])
        cases.append({"src": dict(kind="complex", tag=r["tag"]), "in": r["in"], "xy": r["xy"],
                      "out": observe(g, r["qs"])})
    # porepy's own grid factories use the queries under test; if one of them crashes the complexes of
    # binding (i) are still judged, and the crash is a machinery failure only if TLC found nothing wrong
    broken = []
    try:
        recipes = real_recipes(ctx)
    except Exception as e:  # noqa: BLE001
        recipes, broken = [], [f"real_recipes: {e!r}"]
    for rc in recipes:
        try:
            g = build(rc)
        except Exception as e:  # noqa: BLE001
            broken.append(f"{rc}: {e!r}")
            continue
        G = grid_to_inc(g)
        cases.append({"src": dict(kind="real", recipe=rc), "in": G, "out": observe(g, rand_queries(ctx.rng, G))})
    for sc in scenarios(ctx):
        try:
            cases += scenario_cases(sc)
        except Exception as e:  # noqa: BLE001 - porepy's own update code uses the queries under test
            broken.append(f"{sc}: {e!r}")
    judge_cases(ctx, cases, "judge")
    if broken and not ctx.violations:
        raise RuntimeError(f"porepy grid factory failed: {broken[0]}")
    for b in broken:
        ctx.drift(f"porepy grid factory raised: {b}"[:300])
    for c in cases:
        G = c["in"]
        nb = sum(1 for ps in G["cf"] if len(ps) == 1)
        kind = c["src"]["recipe"][0] if c["src"]["kind"] == "real" else c["src"]["kind"]
        if kind == "inplace":
            kind = "inplace-%s-stage%d" % (c["src"]["scenario"][0], min(c["src"]["stage"], 1))
        split = c["src"]["kind"] == "complex" and c["src"]["tag"][3] >= 0
        ctx.case(key=(kind, G["dim"], G["nc"], G["nf"], nb, split), nontrivial=0 < nb < G["nf"])
    for c in (cases[len(cases) // 3], cases[-1]):
        ctx.sample(dict(src=c["src"], nc=c["in"]["nc"], nf=c["in"]["nf"], dense=c["out"]["dense"],
                        bnd=c["out"]["bnd_updated"], sc=c["out"]["sc"][:1]))
    ctx.exhaustive = True
    ctx.extra["real_grids"] = sum(1 for c in cases if c["src"]["kind"] == "real")
    ctx.extra["inplace_update_cases"] = sum(1 for c in cases if c["src"]["kind"] == "inplace")


def replay(ctx, body):
    warnings.filterwarnings("ignore")
    rec = body["record"]
    if rec["src"]["kind"] == "inplace":
        # re-run the whole scenario (the earlier queries are part of the case) and judge the recorded stage
        src = rec["src"]
        case = next(c for c in scenario_cases(src["scenario"])
                    if c["src"]["stage"] == src["stage"] and c["src"]["grid"] == src["grid"])
        ctx.case(key="replay")
        ctx.sample(dict(src=src, div_shapes=[d["shape"] for d in case["out"]["div"]]))
        judge_cases(ctx, [case], "replay")
        return
    if rec["src"]["kind"] == "real":
        g = build(rec["src"]["recipe"])
        G = grid_to_inc(g)
    else:
        G = rec["in"]
        g = inc_to_grid(G, rec.get("xy"))
    case = {"src": rec["src"], "in": G, "xy": rec.get("xy"), "out": observe(g, rec["queries"])}
    ctx.case(key="replay")
    ctx.sample(dict(src=rec["src"], out=case["out"]["dense"]))
    judge_cases(ctx, [case], "replay")
