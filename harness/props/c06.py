"""C06 Restricted assembly is a slice of the full system.

spec/ref/AssemblyRef.tla (which rows / columns a selection must return), spec/ref/AssemblyEnum.tla (TLC
enumerates equation histories x selections x variable subsets), spec/trace/J_Assembly.tla (TLC judges what the
real EquationSystem.assemble returned on a LABELLED system: every Jacobian entry is the integer code of its
(row label, column label), every residual entry the code of its row label - so rows and columns are read back
exactly)."""
from __future__ import annotations

import numpy as np
import scipy.sparse as sps

from .. import eqsys_fixture as fx
from .. import tlc

LEVEL = "model_checking"
CLAUSES = ["Assembles", "RowsAreSlice", "ColsAreSlice", "RhsIsSlice", "IndicesPerEquation", "ResidualOnly"]
B = 1024

# variables: (name, dof type index (1-based into fx.DOF_TYPES), domain choice index (1-based into fx.domains()))
VARS = [("a", 1, 1), ("b", 1, 4), ("c", 3, 3)]


def eq_catalogue():
    d = fx.domains()
    return [dict(grids=d[0], per=dict(cells=1, faces=0, nodes=0)),      # e1 on all subdomains
            dict(grids=d[3], per=dict(cells=1, faces=0, nodes=0)),      # e2 on all interfaces
            dict(grids=[d[0][0], d[0][2]], per=dict(cells=1, faces=1, nodes=0))]  # e3 on the 2D grid and one fracture


class LabelledSystem:
    """A real EquationSystem whose equations are sum_v SparseArray(M_ev) @ v + DenseArray(c_e) with coded entries."""

    def __init__(self, vars_spec=None, cat=None):
        import porepy as pp

        self.pp = pp
        self.mdg = fx.mdg()
        self.gs = fx.grids()
        self.es = pp.ad.EquationSystem(self.mdg)
        self.vreg, self.var_obj = [], {}
        vid = 0
        if vars_spec is None:
            vars_spec = [(name, d, fx.domains()[dom - 1]) for name, d, dom in VARS]
        for name, d, idx in vars_spec:
            objs = [self.gs[i - 1][1] for i in idx]
            kw = dict(subdomains=objs) if self.gs[idx[0] - 1][0] == "sd" else dict(interfaces=objs)
            md = self.es.create_variables(name, fx.dof_info(d), **kw)
            for v, gi in zip(md.sub_vars, idx):
                vid += 1
                self.vreg.append(dict(vid=vid, name=name, g=gi, d=d))
                self.var_obj[vid] = v
        self.ndof = {r["vid"]: len(self.es.dofs_of([self.var_obj[r["vid"]]])) for r in self.vreg}
        # column labels
        self.col_id, self.col_label = {}, []
        for r in self.vreg:
            for j in range(self.ndof[r["vid"]]):
                self.col_id[(r["vid"], j)] = len(self.col_label)
                self.col_label.append([r["vid"], j])
        # row labels
        self.cat = cat if cat is not None else eq_catalogue()
        self.row_id, self.row_label = {}, []
        for e, c in enumerate(self.cat, 1):
            for gi in c["grids"]:
                kind, g = self.gs[gi - 1]
                n = g.num_cells * c["per"]["cells"] + (g.num_faces * c["per"]["faces"] + g.num_nodes * c["per"]["nodes"] if kind == "sd" else 0)
                for k in range(n):
                    self.row_id[(e, gi, k)] = len(self.row_label) + 1
                    self.row_label.append([e, gi, k])
        assert len(self.row_label) < B and len(self.col_label) < B
        for r in self.vreg:
            self.es.set_variable_values(np.zeros(self.ndof[r["vid"]]), [self.var_obj[r["vid"]]], iterate_index=0)
            self.es.set_variable_values(np.zeros(self.ndof[r["vid"]]), [self.var_obj[r["vid"]]], time_step_index=0)
        self.ops = {}
        self.numeric = None   # (J, b) in catalogue row order x col_label order: numeric instead of coded entries

    def operator(self, e):
        pp = self.pp
        rows = [self.row_id[(e, gi, k)] for (ee, gi, k) in map(tuple, self.row_label) if ee == e]
        if self.numeric is not None:
            # numeric system J x - b: row ids are 1-based positions in the catalogue's row order
            J, b = self.numeric
            ridx = [r - 1 for r in rows]
            expr = pp.ad.DenseArray(-np.asarray(b, dtype=float)[ridx])
            for r in self.vreg:
                cidx = [self.col_id[(r["vid"], j)] for j in range(self.ndof[r["vid"]])]
                M = np.asarray(J, dtype=float)[np.ix_(ridx, cidx)]
                expr = expr + pp.ad.SparseArray(sps.csr_matrix(M)) @ self.var_obj[r["vid"]]
            expr.set_name(f"e{e}")
            return expr
        expr = pp.ad.DenseArray(np.array(rows, dtype=float))
        for r in self.vreg:
            n = self.ndof[r["vid"]]
            M = np.array([[rid * B + self.col_id[(r["vid"], j)] + 1 for j in range(n)] for rid in rows], dtype=float)
            expr = expr + pp.ad.SparseArray(sps.csr_matrix(M)) @ self.var_obj[r["vid"]]
        expr.set_name(f"e{e}")
        return expr

    def apply_history(self, hist):
        for op, e in hist:
            c = self.cat[e - 1]
            grids = [self.gs[gi - 1][1] for gi in c["grids"]]
            per = {k: v for k, v in c["per"].items() if v}
            try:
                if op == "set":
                    self.ops[e] = self.operator(e)
                    self.es.set_equation(self.ops[e], grids, per)
                elif op == "remove":
                    self.es.remove_equation(f"e{e}")
                elif op == "update":
                    self.ops[e] = self.operator(e)
                    self.es.update_equation(f"e{e}", self.ops[e])
            except (ValueError, KeyError):
                pass  # duplicate name / unknown equation: rejected calls leave the registry as it was

    def var_arg(self, group):
        """group ids offered to the caller: 1 'a' by name, 2 'b' as md-variable, 3 'c' by name, 4 atomic a on grid 2,
        5 atomic c on its first grid, 6 atomic b on its last interface"""
        by_name = lambda nm: [r["vid"] for r in self.vreg if r["name"] == nm]  # noqa
        if group == 1:
            return "a"
        if group == 2:
            return self.es.md_variable("b")
        if group == 3:
            return "c"
        if group == 4:
            return self.var_obj[by_name("a")[1]]
        if group == 5:
            return self.var_obj[by_name("c")[0]]
        if group == 6:
            return self.var_obj[by_name("b")[-1]]
        raise ValueError(group)

    def var_groups(self):
        by_name = lambda nm: [r["vid"] for r in self.vreg if r["name"] == nm]  # noqa
        return [set(by_name("a")), set(by_name("b")), set(by_name("c")), {by_name("a")[1]}, {by_name("c")[0]},
                {by_name("b")[-1]}]

    def sel_arg(self, case, as_operator):
        if case["selall"]:
            return None
        sel = case["sel"]
        if sel and sel[0][1]:   # restriction: dict equation -> grids
            out = {}
            for e, _, gl in sel:
                key = self.ops[e] if as_operator else f"e{e}"
                out[key] = [self.gs[gi - 1][1] for gi in gl]
            return out
        return [self.ops[e] if as_operator else f"e{e}" for e, _, _ in sel]

    def decode(self, A, b):
        A = np.asarray(A.todense()) if sps.issparse(A) else np.asarray(A)
        codes = np.round(A).astype(np.int64)
        if not np.array_equal(codes, A):
            raise RuntimeError("non-integer Jacobian entry")
        rids = [int(x) for x in np.round(b)]
        if not np.allclose(b, rids):
            raise RuntimeError("non-integer residual entry")
        rows = [self.row_label[r - 1] if 1 <= r <= len(self.row_label) else [0, 0, -1] for r in rids]
        if codes.shape[1] == 0 or codes.shape[0] == 0:
            return rows, None, rows
        cids = (codes % B) - 1
        cols = []
        for j in range(codes.shape[1]):
            u = set(int(x) for x in cids[:, j])
            cols.append(self.col_label[u.pop()] if len(u) == 1 and 0 <= min(cids[:, j]) < len(self.col_label) else [0, -1])
        rr = codes // B
        jrows = []
        for i in range(codes.shape[0]):
            u = set(int(x) for x in rr[i, :])
            x = u.pop() if len(u) == 1 else 0
            jrows.append(self.row_label[x - 1] if 1 <= x <= len(self.row_label) else [0, 0, -1])
        return jrows, cols, rows


def execute(case, mode):
    """mode: how the caller writes the arguments (names vs operators)."""
    s = LabelledSystem()
    s.apply_history(case["hist"])
    out = dict(case, vreg=s.vreg, error="", rows=[], cols=[], rhs=[], idx=[], resonly=[], mode=mode)
    try:
        eqs = s.sel_arg(case, as_operator=(mode == "operator"))
        vs = None if case["vselall"] else [s.var_arg(g) for g in case["vsel"]]
        A, b = s.es.assemble(equations=eqs, variables=vs)
        jrows, cols, rhs_rows = s.decode(A, -b)
        if cols is None:   # no rows or no columns: labels cannot be read off the matrix; shapes must still fit
            out["rows"] = rhs_rows
            out["cols"] = "shape"
            out["shape"] = [int(A.shape[0]), int(A.shape[1])]
        else:
            out["rows"], out["cols"] = jrows, cols
        out["rhs"] = rhs_rows
        out["idx"] = [dict(e=int(k[1:]), idx=[int(i) for i in v]) for k, v in s.es.assembled_equation_indices.items()]
        r = s.es.assemble(evaluate_jacobian=False, equations=eqs, variables=vs)
        out["resonly"] = s.decode(np.zeros((len(r), 0)), -r)[2]
    except Exception as e:  # an exception of the code under test on a valid call is an observation
        out["error"] = f"{type(e).__name__}: {e}"[:200]
    return out


def enumerate_cases(ctx):
    s = LabelledSystem()
    consts = dict(Grids=fx.grid_consts(), DofTypes=fx.DOF_TYPES, EqCat=eq_catalogue(), EqIds={1, 2, 3},
                  VarGroups=s.var_groups(), GridChoices={"all", "none", "first", "last", "ends"},
                  MaxVarGroups=2 if ctx.quick else 6)
    m, cf = tlc.gen(ctx.work / "enum", "MC_AssemblyEnum", "AssemblyEnum", consts,
                    invariants=["Emit", "LawRowsUnique", "LawRowsFromFull", "LawIndicesContiguous"])
    res = ctx.tlc(m, cf, workers=16, allow_violation=False, timeout=1500)
    return res.records, s


def fix_cols(cases, s):
    """cases without rows/columns carry only the shape: give TLC the column labels implied by the shape check."""
    return cases


def judge(ctx, outs, s, prefix=""):
    jc = dict(Grids=fx.grid_consts(), DofTypes=fx.DOF_TYPES, EqCat=eq_catalogue(), VarGroups=s.var_groups())
    cases = []
    for o in outs:
        c = {k: o[k] for k in ("vreg", "hist", "sel", "selall", "vsel", "vselall", "error", "rows", "cols", "rhs", "idx", "resonly")}
        cases.append(c)
    # empty matrices: the harness can only check the shape; substitute the expected labels when the shape fits
    shape_cases = [i for i, c in enumerate(cases) if c["cols"] == "shape"]
    if shape_cases:
        sub = [dict(cases[i], cols=[]) for i in shape_cases]
        told = ctx.judge("J_Assembly", sub, ["TellCols"], consts=jc, tag=f"shape{len(ctx.tlc_runs)}")
        exp = {t["case"]: t["val"] for t in told if t.get("tag") == "cols"}
        for k, i in enumerate(shape_cases, 1):
            want = exp.get(k, [])
            cases[i]["cols"] = want if outs[i]["shape"][1] == len(want) else [[0, -1]]
    verdicts = []
    for b0 in range(0, len(cases), 5000):   # judge in batches to bound TLC's memory and run time
        for v in ctx.judge("J_Assembly", cases[b0:b0 + 5000], CLAUSES, consts=jc, tag=f"judge{b0}_{len(ctx.tlc_runs)}", timeout=1800):
            verdicts.append(dict(v, case=b0 + v["case"]))
    for v in verdicts:
        o = outs[v["case"] - 1]
        ctx.violation(v["clause"], dict(hist=o["hist"], sel=o["sel"], selall=o["selall"], vsel=o["vsel"], vselall=o["vselall"],
                                        mode=o["mode"], observed={k: o[k] for k in ("error", "rows", "cols", "rhs", "idx", "resonly")}),
                      f"{prefix}history={o['hist']} selection={'all' if o['selall'] else o['sel']} variables={'all' if o['vselall'] else o['vsel']}")


def run(ctx):
    ctx.rule = ("TLC enumerates (equation history of set/remove/update_equation over 3 equations) x (selection: names in every order, "
                "or restrictions of <= 2 equations to all/none/first/last/ends of their grids) x (variable subsets given by name, md-variable "
                "or atomic variable, in every order); every case is assembled on a real EquationSystem with a labelled system; a case is "
                "non-trivial when it selects a strict subset of rows or columns")
    ctx.assumptions = ["labelled linear system: equations are sum_v SparseArray(M) @ v + DenseArray(c) with unique integer codes",
                       "equation keys are passed as names and as Operator objects (alternating)"]
    recs, s = enumerate_cases(ctx)
    total = len(recs)
    cap = 1500 if ctx.quick else 30000
    if total > cap:
        idx = sorted(ctx.rng.sample(range(total), cap))
        recs = [recs[i] for i in idx]
    outs = []
    for i, c in enumerate(recs):
        o = execute(c, "operator" if i % 2 else "name")
        outs.append(o)
        ctx.case(key=("case", i), nontrivial=not (c["selall"] and c["vselall"]))
    judge(ctx, outs, s)
    ctx.extra["enumerated_cases"] = total
    ctx.extra["executed_cases"] = len(recs)
    ctx.exhaustive = len(recs) == total
    for o in outs[:2] + outs[-1:]:
        ctx.sample({k: o[k] for k in ("hist", "sel", "selall", "vsel", "vselall", "rows", "cols", "idx")})


def replay(ctx, body):
    rec = body["record"]
    case = {k: rec[k] for k in ("hist", "sel", "selall", "vsel", "vselall")}
    o = execute(case, rec.get("mode", "name"))
    ctx.case(key="replay")
    ctx.sample(case)
    judge(ctx, [o], LabelledSystem(), prefix="replayed: ")
