"""C19 Computed grid geometry satisfies the divergence theorem.

spec/lib/GridGeom.tla   exact geometry of integer-coordinate grids (shoelace / signed tetrahedra) + model laws
spec/ref/GridFam.tla    TLC enumerates the lattice of tensor-product grids (non-uniform integer coordinates)
spec/trace/J_GridGeom.tla  TLC judges porepy's compute_geometry output: the identities of the property on
                        porepy's own numbers AND equality with the exact geometry

Python: instantiates every emitted tensor grid with the porepy constructors (TensorGrid / CartGrid /
Structured simplex grids / the general TriangleGrid and TetrahedralGrid constructors), derives variants
(lattice perturbation of the nodes, integer affine maps, other face orientations incl. the inconsistent ones
that force the fallback branch, hand-built polygonal / polyhedral grids with hanging nodes and non-convex
cells, 1D grids on rational lines with arbitrary node numbering), runs compute_geometry and converts the
doubles to rationals."""
from __future__ import annotations

import warnings
from types import SimpleNamespace

import numpy as np

from .. import tlc
from . import _grids as G

LEVEL = "translation_validation"
CLAUSES = ["JudgeAll"]
MAXC = 12  # node coordinates stay within -MAXC..MAXC


# ---------------------------------------------------------------------------------------------------
def run_case(recipe):
    """build the grid, compute its geometry with porepy, return the case for TLC"""
    g, info = G.build(recipe)
    raised = False
    exported = G.export(g)
    # physical scale 2^e (exact in doubles): the geometry of the scaled grid is the scaled geometry, so the computed
    # numbers are divided by the exact powers of two again and judged against the integer pre-image - anything in
    # compute_geometry that depends on the absolute size of the cells (absolute tolerances) shows up
    e = int(recipe.get("pscale", 0))
    if e:
        g.nodes = g.nodes * (2.0 ** e)
    with warnings.catch_warnings():
        warnings.simplefilter("ignore")
        try:
            g.compute_geometry()
            d = g.dim
            h = SimpleNamespace(cell_volumes=g.cell_volumes / 2.0 ** (e * d), cell_centers=g.cell_centers / 2.0 ** e,
                                face_centers=g.face_centers / 2.0 ** e, face_normals=g.face_normals / 2.0 ** (e * (d - 1)),
                                face_areas=g.face_areas / 2.0 ** (e * (d - 1))) if e else g
            out = G.geometry(h)
            floats = G.geometry_floats(h)
        except (ValueError, AssertionError, RuntimeError, FloatingPointError, ZeroDivisionError) as e:
            raised = True
            z = [0, 1]
            out = dict(vol=[z] * g.num_cells, cc=[[z] * 3] * g.num_cells, fc=[[z] * 3] * g.num_faces,
                       fn=[[z] * 3] * g.num_faces, fa2=[z] * g.num_faces)
            floats = dict(error=repr(e))
    case = dict(g=exported, meas=info["meas"], strict=info["strict"], convex=info["convex"], raised=raised,
                out=out)
    return case, floats


def in_box(recipe):
    g, _ = G.build(recipe)
    return bool(np.all(np.abs(g.nodes) <= MAXC)) and bool(np.all(np.abs(g.nodes - np.round(g.nodes)) < 1e-12))


# ---------------------------------------------------------------------------------------------------
# variants of a base recipe
def perturbation(rng, g, amp=1):
    return [[(rng.randint(-amp, amp) if d < g.dim and rng.random() < 0.7 else 0) for d in range(3)]
            for _ in range(g.num_nodes)]


def variants(rng, base, n_random):
    """recipes derived from one base grid"""
    g0, _ = G.build(dict(base=base))
    dim, nf = g0.dim, g0.num_faces
    out = [dict(base=base)]
    if dim == 1:
        return out
    some = lambda p: [f for f in range(nf) if rng.random() < p]
    # the same grid stored with other (consistent) face orientations / face start nodes
    out.append(dict(base=base, ops=[dict(op="reorient", reverse=some(0.5), rotate=(some(0.5) if dim == 3 else []))]))
    if dim == 2:
        # face-node orientation inconsistent with cell_faces: fallback branch (convex cells)
        sw = some(0.4) or [0]
        out.append(dict(base=base, ops=[dict(op="reorient", swap=sw)]))
        out.append(dict(base=base, ops=[dict(op="reorient", swap=list(range(nf)))]))
        out.append(dict(base=base, ops=[dict(op="translate", t=[rng.randint(-2, 2), rng.randint(-2, 2), rng.randint(-3, 3)])]))
    shears = G.SHEARS_2D if dim == 2 else G.SHEARS_3D
    for _ in range(n_random):
        A = rng.choice(shears)
        r = dict(base=base, ops=[dict(op="affine", A=A)])
        if in_box(r):
            out.append(r)
    # lattice perturbations of the nodes of the grid scaled by 3
    # (perturbed hexahedra have non-planar faces: outside the property)
    mx = float(np.max(np.abs(g0.nodes)))
    if 3 * mx + 1 <= MAXC - 2 and not (dim == 3 and base["kind"] == "tensor"):
        for _ in range(n_random):
            ops = [dict(op="scale", k=3), dict(op="perturb", d=perturbation(rng, g0))]
            if dim == 2 and rng.random() < 0.4:
                ops.append(dict(op="reorient", swap=some(0.4)))
            elif rng.random() < 0.5:
                ops.append(dict(op="reorient", reverse=some(0.5), rotate=(some(0.3) if dim == 3 else [])))
            out.append(dict(base=base, ops=ops))
    return out


LINE_DIRS = [[1, 0, 0], [0, 1, 0], [0, 0, 1], [-1, 0, 0], [1, 2, 2], [2, -1, 2], [3, 4, 0], [0, -3, 4], [2, 3, 6]]


def line_recipes(rng, axis, n_random):
    out = [dict(base=dict(kind="tensor", axes=[axis], cart=True))]
    n = len(axis)
    for _ in range(n_random):
        d = rng.choice(LINE_DIRS)
        m = max(abs(x) for x in d) * axis[-1]
        if m > MAXC - 2:
            continue
        order = list(range(n))
        rng.shuffle(order)
        o = [rng.randint(-2, 2) for _ in range(3)]
        out.append(dict(base=dict(kind="line", axis=axis, dir=d, origin=o, order=order, flip=rng.random() < 0.5)))
    return out


def fixed_recipes(rng, quick):
    """hand-built polygonal / polyhedral grids"""
    out = []
    for name in G.POLY_PATCHES:
        base = dict(kind="patch", name=name, z=0)
        g0, _ = G.build(dict(base=base))
        nf = g0.num_faces
        out.append(dict(base=base))
        if not quick:
            out.append(dict(base=dict(kind="patch", name=name, z=3)))
        out.append(dict(base=base, ops=[dict(op="reorient", reverse=[f for f in range(nf) if rng.random() < 0.5])]))
        out.append(dict(base=base, ops=[dict(op="reorient", reverse=list(range(nf)))]))
        # inconsistent orientation: only meaningful for convex cells - TLC decides (strict is switched off)
        out.append(dict(base=base, ops=[dict(op="reorient", swap=[f for f in range(nf) if rng.random() < 0.5] or [0])],
                        nonstrict=True))
        for A in G.SHEARS_2D[: (1 if quick else 4)]:
            r = dict(base=base, ops=[dict(op="affine", A=A)])
            if in_box(r):
                out.append(r)
        for zs in ([[0, 2]] if quick else [[0, 2], [0, 1, 3], [-3, -1, 0]]):
            pb = dict(kind="prism", name=name, zs=zs)
            gp, _ = G.build(dict(base=pb))
            out.append(dict(base=pb, nonstrict=True))
            out.append(dict(base=pb, nonstrict=True, ops=[dict(
                op="reorient", reverse=[f for f in range(gp.num_faces) if rng.random() < 0.5],
                rotate=[f for f in range(gp.num_faces) if rng.random() < 0.5])]))
            r = dict(base=pb, nonstrict=True, ops=[dict(op="affine", A=rng.choice(G.SHEARS_3D))])
            if in_box(r) and not quick:
                out.append(r)
    return out


def class_key(recipe, case):
    ops = tuple(o["op"] + ("/swap" if o.get("swap") else "") for o in recipe.get("ops", []))
    b = recipe["base"]
    return (b["kind"], b.get("name", ""), case["g"]["dim"], len(case["g"]["cf"]), ops, recipe.get("pscale", 0))


def judge(ctx, recipes, tag):
    cases, floats = [], []
    for r in recipes:
        c, f = run_case(r)
        if r.get("nonstrict"):
            c["strict"] = False
        cases.append(c)
        floats.append(f)
    recs = ctx.judge("J_GridGeom", cases, CLAUSES, tag=tag)
    outside = {v["case"] for v in recs if v.get("tag") == "outside"}
    skipped = {v["case"] for v in recs if v.get("tag") == "skipped"}
    for i, (r, c) in enumerate(zip(recipes, cases), 1):
        if i in outside:
            ctx.extra["outside_family"] = ctx.extra.get("outside_family", 0) + 1
            continue
        if i in skipped:  # exact values with large denominators: only the exact comparison was evaluated
            ctx.extra["identities_not_evaluated"] = ctx.extra.get("identities_not_evaluated", 0) + 1
        ctx.case(key=class_key(r, c), nontrivial=len(c["g"]["cf"]) > 1 or bool(r.get("ops")))
    for v in recs:
        if "clause" not in v:
            continue
        i = v["case"] - 1
        ctx.violation(v["clause"], dict(recipe=recipes[i], case=cases[i], computed=floats[i]),
                      f"{recipes[i]['base']} ops={[o['op'] for o in recipes[i].get('ops', [])]}")
    return cases


def run(ctx):
    ctx.rule = ("TLC enumerates every tensor-product grid with integer coordinates in the box (GridFam); each is built "
                "with the porepy constructors as tensor/Cartesian and structured / general simplex grid and varied "
                "(orientation conventions incl. inconsistent ones, integer affine maps, lattice perturbations, "
                "translations, 1D lines in 3D); plus hand-built polygonal/polyhedral grids; a third / quarter of all of them "
                "again at the physical scales 2^-14 and 2^10 (exact rescaling).  One evaluation = one grid "
                "whose compute_geometry output TLC judged; distinct classes = (family, dim, #cells, operations); "
                "non-trivial = more than one cell or a variant")
    ctx.assumptions = ["integer node coordinates |x| <= 12; all faces planar (3D: star-shaped w.r.t. their node mean); "
                       "inconsistent face orientation only with convex cells (documented limit of the fallback)"]
    rng = ctx.rng
    q = ctx.quick
    consts = dict(MaxCoord=[3, 2, 2] if q else [6, 4, 3], MaxCells=[3, 4, 2] if q else [6, 6, 4])
    res = ctx.tlc(*tlc.gen(ctx.work / "enum", "MC_GridFam", "GridFam", consts,
                           invariants=["Emit", "Increasing", "MeasurePositive"]), allow_violation=False)
    emitted = sorted(res.records, key=lambda r: (r["dim"], r["axes"]))
    ctx.extra["tensor_grids_emitted"] = len(emitted)
    recipes = []
    count = {1: 0, 2: 0, 3: 0}
    for r in emitted:
        axes, dim = r["axes"], r["dim"]
        k = count[dim]
        count[dim] += 1
        if dim == 1:
            recipes += line_recipes(rng, axes[0], 1 if q else 3)
            continue
        if q and dim == 3 and k % 6 != 1:
            continue  # quick: a sixth of the (very similar) 3D boxes
        # the variants only for some of the emitted grids: quick every 5th (2D) / 18th (3D), thorough 3rd / 8th
        full = k % ((5 if dim == 2 else 18) if q else (3 if dim == 2 else 8)) == 1
        nr = 1 if q else 2
        base = dict(kind="tensor", axes=axes, cart=True)
        recipes += variants(rng, base, nr) if full else [dict(base=base)]
        nsimp = r["cells"] * (2 if dim == 2 else 6)
        if nsimp <= (12 if q else 24) and (full or not q or k % 2 == 1):
            sb = dict(kind="simplex", axes=axes)
            recipes += variants(rng, sb, nr) if full else [dict(base=sb)]
            if full or (dim == 2 and (not q or k % 4 == 1)):
                vperm = [rng.sample(range(dim + 1), dim + 1) for _ in range(nsimp)]
                rb = dict(kind="rawsimplex", axes=axes, vperm=vperm)
                vs = variants(rng, rb, 1)
                recipes += vs[:1] + (vs[-1:] if full else [])
    recipes += fixed_recipes(rng, q)
    # the same grids at small (2^-14 ~ 6e-5) and large (2^10) physical scale
    scaled = [dict(r, pscale=(-14 if (i // 3) % 2 else 10)) for i, r in enumerate(recipes) if i % (4 if q else 3) == 0]
    ctx.extra["scaled_grids"] = len(scaled)
    recipes += scaled
    ctx.extra["grids"] = len(recipes)
    # judge in batches (one TLC run each)
    B = 400 if q else 1000
    allcases = []
    for i in range(0, len(recipes), B):
        allcases += judge(ctx, recipes[i:i + B], f"j{i // B}")
    for r, c in list(zip(recipes, allcases))[:: max(1, len(recipes) // 5)]:
        ctx.sample(dict(recipe=r, cells=len(c["g"]["cf"]), vol=c["out"]["vol"][:3]))
    ctx.exhaustive = not q  # thorough: every emitted tensor grid is instantiated and judged (variants are sampled)


def replay(ctx, body):
    rec = body["record"]
    r = rec["recipe"]
    judge(ctx, [r], "replay")
    ctx.sample(dict(recipe=r))
