"""C27 Global projection operators are consistent permutations.

spec/ref/GridProjections.tla (reference index maps + model laws), spec/ref/GridProjectionsFamily.tla (TLC enumerates the
ordered sublists of subdomains / interfaces, nd, and checks the laws on the model), spec/trace/J_GridProjections.tla
(TLC compares every real matrix with the reference and checks the laws on the real matrices).

Binding: real md-grids (a 2-d host with two crossing fractures and their intersection point, a 3-d host with one
fracture, a 2-d host whose 1-d mortar side grids were refined by 2 and by 3 (non-matching: integrating maps keep unit
weights, averaging ones do not), in the thorough tier also a 2-d host with three fractures, one with a coarsened mortar
grid and one with two separate fractures and refined mortars), described to TLC by their sizes, boundary faces and per-interface MortarGrid projections;
for every enumerated input the real pp.ad.SubdomainProjections / MortarProjections / BoundaryProjection are built
and their matrices handed to TLC entry by entry (exact rationals)."""
from __future__ import annotations

from fractions import Fraction

from .. import tlc

LEVEL = "model_checking"
SUB = ["ProlongationFollowsOrder", "RestrictProlongIdentity", "FullListIsPermutation"]
MOR = ["MortarAtOffsets", "MortarSign"]
BND = ["BoundaryAtOffsets", "BoundaryRoundTrip"]
CLAUSES = ["Constructs"] + SUB + MOR + BND
WHICH = dict(m2p_int="mortar_to_primary_int", m2p_avg="mortar_to_primary_avg", p2m_int="primary_to_mortar_int",
             p2m_avg="primary_to_mortar_avg", m2s_int="mortar_to_secondary_int", m2s_avg="mortar_to_secondary_avg",
             s2m_int="secondary_to_mortar_int", s2m_avg="secondary_to_mortar_avg")


# ------------------------------------------------------------------------------------------------
# real md-grids and their abstract description
# ------------------------------------------------------------------------------------------------
def build(name):
    import numpy as np
    import porepy as pp

    if name == "cross2":  # 2-d host, two crossing fractures, intersection point: 4 subdomains, 4 interfaces
        f1, f2 = np.array([[0, 2], [1, 1]]), np.array([[1, 1], [0, 2]])
        mdg = pp.meshing.cart_grid([f1, f2], np.array([2, 2]))
    elif name == "frac3":  # 3-d host with one fracture plane: 2 subdomains, 1 interface
        f = np.array([[1, 1, 1, 1], [0, 1, 1, 0], [0, 0, 1, 1]])
        mdg = pp.meshing.cart_grid([f], np.array([2, 1, 1]))
    elif name == "three2":  # 2-d host, two crossing fractures and a separate one: 5 subdomains, 5 interfaces
        f1, f2 = np.array([[0, 2], [1, 1]]), np.array([[1, 1], [0, 2]])
        f3 = np.array([[2, 3], [2, 2]])
        mdg = pp.meshing.cart_grid([f1, f2, f3], np.array([3, 3]))
    elif name in ("refined2", "refined2x"):
        # the 1-d mortar side grids are refined (every mortar cell split in 2 on one interface, in 3 on the other), the
        # subdomain grids stay: integrating maps mortar -> neighbour keep unit weights, averaging ones get 1/2, 1/3
        if name == "refined2":  # host with two crossing fractures
            f1, f2 = np.array([[0, 2], [1, 1]]), np.array([[1, 1], [0, 2]])
            mdg = pp.meshing.cart_grid([f1, f2], np.array([2, 2]))
        else:  # host with two separate fractures
            f1, f2 = np.array([[0, 2], [1, 1]]), np.array([[1, 3], [2, 2]])
            mdg = pp.meshing.cart_grid([f1, f2], np.array([3, 3]))
        for intf, ratio in zip(list(mdg.interfaces(dim=1)), (2, 3)):
            new = {side: pp.refinement.refine_grid_1d(g, ratio=ratio) for side, g in intf.side_grids.items()}
            mdg.replace_subdomains_and_interfaces(interface_map={intf: new})
    elif name == "nonmatch2":  # 2-d host with one fracture whose mortar grid is coarsened: non-matching interface
        f1 = np.array([[0, 4], [1, 1]])
        mdg = pp.meshing.cart_grid([f1], np.array([4, 2]))
        intf = mdg.interfaces()[0]
        new_side = {s: pp.CartGrid(2, physdims=4.0) for s in intf.side_grids}
        for g in new_side.values():
            g.nodes[1] = 1.0
            g.compute_geometry()
        intf.update_mortar(new_side, tol=1e-8)
    else:
        raise ValueError(name)
    return mdg


def rat(x):
    f = Fraction(float(x)).limit_denominator(10 ** 4)
    if abs(float(f) - float(x)) > 1e-12:
        raise RuntimeError(f"matrix entry {x!r} is not a small rational")
    return f.numerator, f.denominator


def entries(mat):
    """scipy sparse / SparseArray -> dict(shape, ent) with exact rational entries, canonical (no zeros, no duplicates)."""
    import scipy.sparse as sps

    m = getattr(mat, "_mat", mat)
    m = sps.coo_matrix(m)
    m.sum_duplicates()
    ent = []
    for r, c, v in zip(m.row, m.col, m.data):
        if v != 0:
            n, d = rat(v)
            ent.append([int(r), int(c), n, d])
    ent.sort()
    return dict(shape=[int(m.shape[0]), int(m.shape[1])], ent=ent)


def describe(mdg):
    import numpy as np

    sds, intfs = list(mdg.subdomains()), list(mdg.interfaces())
    grids = []
    for sd in sds:
        bg = mdg.subdomain_to_boundary_grid(sd)
        if sd.dim > 0 and bg is None:
            raise RuntimeError("subdomain without boundary grid")
        bnd = [int(f) for f in np.where(sd.tags["domain_boundary_faces"])[0]] if sd.dim > 0 else []
        grids.append(dict(cells=int(sd.num_cells), faces=int(sd.num_faces), dim=int(sd.dim), bnd=bnd))
    out = []
    for intf in intfs:
        p, s = mdg.interface_to_subdomain_pair(intf)
        d = dict(cells=int(intf.num_cells), primary=sds.index(p) + 1, secondary=sds.index(s) + 1, codim=int(intf.codim),
                 sign=[int(x) for x in intf.sign_of_mortar_sides(1).diagonal()])
        for k, fn in WHICH.items():
            d[k] = entries(getattr(intf, fn)(1))["ent"]
        out.append(d)
    return dict(grids=grids, intfs=out), sds, intfs


# ------------------------------------------------------------------------------------------------
# the real operators
# ------------------------------------------------------------------------------------------------
EMPTY = dict(shape=[0, 0], ent=[])
FIELDS = dict(sub=["cp", "cr", "fp", "fr"], mortar=list(WHICH) + ["sign"], bnd=["s2b", "b2s"])


def execute(world, inp):
    """The real matrices for one input; an exception of the real code is an outcome (clause Constructs)."""
    try:
        out = _execute(world, inp)
        out["error"] = ""
    except Exception as e:
        out = {k: EMPTY for k in FIELDS[inp["kind"]]}
        out["error"] = f"{type(e).__name__}: {e}"[:200]
    return out


def _execute(world, inp):
    import porepy as pp

    mdg, sds, intfs = world[inp["m"] - 1]
    nd = inp["nd"]
    lst = [sds[g - 1] for g in inp["list"]]
    if inp["kind"] == "sub":
        sub = [lst[p - 1] for p in inp["second"]]
        sp = pp.ad.SubdomainProjections(lst, nd)
        return dict(cp=entries(sp.cell_prolongation(sub)), cr=entries(sp.cell_restriction(sub)),
                    fp=entries(sp.face_prolongation(sub)), fr=entries(sp.face_restriction(sub)))
    if inp["kind"] == "mortar":
        il = [intfs[i - 1] for i in inp["second"]]
        mp = pp.ad.MortarProjections(mdg, lst, il, nd)
        # all eight projections from the one object, the int or the avg variant of each pair first
        keys = list(WHICH)
        if inp.get("order") == "avg_first":
            keys = [k for pair in zip(keys[1::2], keys[0::2]) for k in pair]
        out = {k: entries(getattr(mp, WHICH[k])()) for k in keys}
        out["sign"] = entries(mp.sign_of_mortar_sides())
        return out
    bp = pp.ad.BoundaryProjection(mdg, lst, nd)
    return dict(s2b=entries(bp.subdomain_to_boundary), b2s=entries(bp.boundary_to_subdomain))


# ------------------------------------------------------------------------------------------------
def _world(ctx, names):
    world, descs = [], []
    for n in names:
        mdg = build(n)
        d, sds, intfs = describe(mdg)
        world.append((mdg, sds, intfs))
        descs.append(d)
    return world, descs


def _names(ctx):
    """md-grids and, per md-grid, the bound on Len(list) + Len(second) of the enumeration and the nd values."""
    if ctx.quick:
        # refined2 has the topology of cross2: nd = 1 on the one, nd = 2 on the other
        return ["cross2", "frac3", "refined2"], [4, 4, 3], [{1}, {1, 3}, {2}]
    return (["cross2", "frac3", "three2", "nonmatch2", "refined2", "refined2x"], [5, 4, 4, 4, 4, 4],
            [{1, 2, 3}] * 4 + [{1, 2}, {1, 3}])


def _judge(ctx, cases, descs, names, prefix=""):
    for v in ctx.judge("J_GridProjections", cases, CLAUSES, consts=dict(MDGs=descs), tag="judge", timeout=2400):
        c = cases[v["case"] - 1]
        i = c["in"]
        ctx.violation(v["clause"], dict(inp=i, mdg=names[i["m"] - 1], out=c["out"]),
                      f"{prefix}mdg={names[i['m'] - 1]} kind={i['kind']} nd={i['nd']} list={i['list']} second={i['second']} order={i.get('order')} "
                      f"error={c['out']['error']!r} shapes={ {k: x['shape'] for k, x in c['out'].items() if k != 'error'} }")


def run(ctx):
    ctx.rule = ("one evaluation = the real projection matrices of one input (md-grid, nd, ordered sublist of subdomains, "
                "ordered sublist of the positions projected to/from or of interfaces) compared entry by entry with the "
                "reference index maps; distinct = (md-grid, kind, nd, list, second); non-trivial = at least two grids / "
                "interfaces involved or nd > 1")
    ctx.assumptions = ["interfaces of co-dimension 1 only (the class refuses mixed co-dimensions)",
                       "every listed subdomain of positive dimension has a boundary grid in the md-grid",
                       "per-interface projections and boundary faces are taken from the real MortarGrid / grid tags"]
    names, bounds, nds = _names(ctx)
    world, descs = _world(ctx, names)
    consts = dict(MDGs=descs, NDs=nds, MaxTotal=bounds, Kinds={"sub", "mortar", "bnd"})
    m, cf = tlc.gen(ctx.work / "enum", "MC_GridProjectionsFamily", "GridProjectionsFamily", consts,
                    invariants=["Emit", "LawRestrictProlong", "LawPermutation", "LawBlocks", "LawBoundary", "LawMortarShape"])
    en = ctx.tlc(m, cf, allow_violation=False, workers=8)
    inputs = sorted(en.records, key=lambda r: (r["m"], r["kind"], r["nd"], r["list"], r["second"], r["order"]))
    cases = [{"in": r, "out": execute(world, r)} for r in inputs]
    _judge(ctx, cases, descs, names)
    n = dict(sub=0, mortar=0, bnd=0)
    for c in cases:
        i = c["in"]
        n[i["kind"]] += 1
        ctx.case(key=(i["m"], i["kind"], i["nd"], str(i["list"]), str(i["second"]), i["order"]),
                 nontrivial=len(i["list"]) + len(i["second"]) >= 2 or i["nd"] > 1)
    for kind in ("sub", "mortar", "bnd"):
        c = next(c for c in reversed(cases) if c["in"]["kind"] == kind and c["in"]["m"] == 1 and len(c["in"]["list"]) >= 2)
        ctx.sample({"in": c["in"], "out": {k: dict(shape=x["shape"], ent=x["ent"][:6]) for k, x in c["out"].items()
                                           if k != "error"}})
    ctx.extra.update(md_grids=names, inputs=n)
    ctx.exhaustive = True


def replay(ctx, body):
    rec = body["record"]
    names = [rec["mdg"]]
    world, descs = _world(ctx, names)
    inp = dict(rec["inp"], m=1)
    cases = [{"in": inp, "out": execute(world, inp)}]
    _judge(ctx, cases, descs, names, prefix="replayed: ")
    ctx.case(key="replay")
    ctx.sample(cases[0]["in"])
