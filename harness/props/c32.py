"""C32 Coordinate maps and tangential-normal bases are orthonormal.

spec/ref/OrthoMaps.tla       exact integer matrix algebra (Gram matrices, determinant via the cross product, the rational
                             reference rotation of a Pythagorean direction) and 39-bit fixed point limb arithmetic with the
                             DESIGN section 8 verdicts (pass <= 1e-9, violation > 1e-6, band = inconclusive)
spec/ref/OrthoMapsEnum.tla   TLC enumerates directions (signed permutations of Pythagorean quadruples, axes, generic and nearly
                             parallel integer vectors), planar / collinear lattice point sets, rotation axes x angles, 2D / 3D
                             normal tuples; model laws of the family
spec/trace/J_OrthoMaps.tla   TLC judges what the real code returned

Real code: porepy.geometry.map_geometry.project_plane_matrix / project_line_matrix / rotation_matrix / compute_normal and
porepy.utils.tangential_normal_projection.TangentialNormalProjection.  Python calls the functions and converts every returned
double into (a) a rational with a small common denominator when there is one within 1e-9 (then TLC judges EXACTLY) and
(b) three 13-bit limbs of round(x * 2^39) (TLC judges in fixed point).  No clause is evaluated in Python."""
from __future__ import annotations

import math
from fractions import Fraction

import numpy as np

from .. import tlc
from ._casefiles import judge_files

LEVEL = "translation_validation"
CLAUSES = ["Orthogonal", "PreservesDistances", "UnitDeterminant", "MapsToAxis", "NormalOrthogonal", "TnpConsistent"]
MATCHERS = {}  # no defect found on the current tree
QMAX = 1200
LB = 1 << 13

BASES_QUICK = [[0, 0, 1], [0, 3, 4], [1, 2, 2], [3, 4, 12], [9, 12, 20]]
BASES_FULL = BASES_QUICK + [[2, 3, 6], [1, 4, 8], [4, 4, 7], [2, 6, 9], [6, 6, 7], [0, 5, 12], [0, 8, 15], [9, 12, 8],
                            [12, 16, 15], [2, 10, 11], [0, 7, 24]]
# tilts m / prod(facs): 10^-k for k = 1..7 and 3e-3, 5e-4, 2e-5
TILTS = [(1, [10] * k) for k in range(1, 8)] + [(3, [10, 10, 10]), (5, [10, 10, 10, 10]), (2, [10, 10, 10, 10, 10])]
NEAR = [[1, 0, 100], [0, -1, 100], [1, 1, -100], [100, 1, 0], [0, 100, -1], [-100, 0, 3]]


class HarnessError(Exception):
    pass


# ---------------------------------------------------------------------------------------------------
# number conversion
def limbs(x):
    x = float(x)
    if not math.isfinite(x) or abs(x) > 4.0:
        return [(1 << 15) * (-1 if x < 0 else 1), 0, 0]
    X = int(round(x * (1 << 39)))  # exact: scaling by a power of two
    s = -1 if X < 0 else 1
    X = abs(X)
    return [s * (X >> 26), s * ((X >> 13) & (LB - 1)), s * (X & (LB - 1))]


def enc(a, keep_fx=False):
    """array (1-D or 2-D) of doubles -> dict(q, n, fx); q = 0: no small common denominator"""
    a = np.asarray(a, dtype=float)
    fx = [limbs(x) for x in a] if a.ndim == 1 else [[limbs(x) for x in row] for row in a]
    q, n = 0, []
    flat = a.ravel()
    if flat.size and np.all(np.isfinite(flat)) and np.all(np.abs(flat) <= 2.0):
        fr = [Fraction(float(x)).limit_denominator(QMAX) for x in flat]
        if all(abs(float(f) - float(x)) <= 1e-9 for f, x in zip(fr, flat)):
            L = 1
            for f in fr:
                L = L * f.denominator // math.gcd(L, f.denominator)
                if L > QMAX:
                    break
            if L <= QMAX:
                ints = [int(f * L) for f in fr]
                q = L
                n = ints if a.ndim == 1 else [ints[i * a.shape[1]:(i + 1) * a.shape[1]] for i in range(a.shape[0])]
    return dict(q=q, n=n, fx=fx if (keep_fx or not q) else [])


def unlimb(fx):
    """limbs -> doubles (for the evidence samples only)"""
    if fx and isinstance(fx[0], int):
        return round((fx[0] * (1 << 26) + fx[1] * LB + fx[2]) / float(1 << 39), 10)
    return [unlimb(x) for x in fx]


def dense(m):
    return np.asarray(m.todense()) if hasattr(m, "todense") else np.asarray(m)


# ---------------------------------------------------------------------------------------------------
# the real code
def angle_of(a):
    return math.atan2(a["b"], a["a"]) if a["t"] == "pyth" else a["a"] / a["b"]


def _execute(inp):
    import porepy as pp
    from porepy.geometry import map_geometry as mg

    k = inp["kind"]
    tilt = k.startswith("tilt_")      # tilted family: same calls, the limbs are always kept
    if tilt:
        k = k[5:]
    if k == "tnp":
        normals = np.array(inp["normals"], dtype=float).T
        t = pp.TangentialNormalProjection(normals)
        return dict(P=enc(dense(t.project_tangential_normal()), True), T=enc(dense(t.project_tangential()), True),
                    N=enc(dense(t.project_normal()), True), P2=enc(dense(t.project_tangential_normal(2)), True),
                    T2=enc(dense(t.project_tangential(2)), True), N2=enc(dense(t.project_normal(2)), True))
    if k == "rot":
        return dict(R=enc(mg.rotation_matrix(angle_of(inp["ang"]), np.array(inp["w"], dtype=float))))
    pts = np.array(inp["pts"], dtype=float).T
    if k == "normal":
        return dict(v=enc(mg.compute_normal(pts), tilt))
    kw = {}
    if inp["ref"]:
        kw["reference"] = np.eye(3)[inp["ref"] - 1]
    if k == "plane":
        return dict(R=enc(mg.project_plane_matrix(pts, normal=np.array(inp["n"], dtype=float), **kw), tilt))
    if k == "plane_pts":
        return dict(R=enc(mg.project_plane_matrix(pts, **kw), tilt))
    if k == "line":
        return dict(R=enc(mg.project_line_matrix(pts, tangent=np.array(inp["n"], dtype=float), **kw)))
    if k == "line_pts":
        return dict(R=enc(mg.project_line_matrix(pts, **kw)))
    raise HarnessError(f"unknown kind {k}")


def execute(inp):
    """one call of the real code; an exception of the code under test is an observation (ok = False)"""
    try:
        return dict(_execute(inp), ok=True, err="")
    except (HarnessError, MemoryError):
        raise
    except Exception as e:  # noqa: BLE001
        return dict(ok=False, err=f"{type(e).__name__}: {e}"[:300])


def is_exact(out):
    ms = [v for v in out.values() if isinstance(v, dict)]
    return bool(ms) and all(m["q"] > 0 for m in ms)


# ---------------------------------------------------------------------------------------------------
# TLC
def enumerate_inputs(ctx):
    q = ctx.quick
    consts = dict(Bases={tuple(b) for b in (BASES_QUICK if q else BASES_FULL)}, Gen={-1, 0, 1} if q else {-2, -1, 0, 1, 2},
                  Near={tuple(v) for v in (NEAR[:3] if q else NEAR)},
                  Bases2={(3, 4), (5, 12)} if q else {(3, 4), (5, 12), (8, 15), (20, 21), (7, 24)},
                  Gen2={-1, 0, 1} if q else {-3, -2, -1, 0, 1, 2, 3},
                  Kinds={"plane", "line", "plane_pts", "normal", "line_pts", "rot", "tnp3", "tnp2",
                         "tilt_tnp3", "tilt_tnp2", "tilt_plane", "tilt_normal", "tilt_plane_pts"},
                  Tilts=tlc.Raw("{" + ", ".join(f"[m |-> {m}, facs |-> {tlc.tla(f)}]" for m, f in TILTS) + "}"),
                  TiltSigns={1} if q else {-1, 1},
                  SmallNorm=30 if q else 100, ExtraPtDirs={(3, 4, 12), (-12, 3, 4), (4, -12, -3)},
                  MaxShift=1 if q else 4, Offsets={(1, -2, 3)} if q else {(0, 0, 0), (1, -2, 3)}, PtRefs={0} if q else {0, 2},
                  LineRefs={0, 2} if q else {0, 1, 2, 3}, AllScales=not q)
    if not consts["ExtraPtDirs"]:
        consts["ExtraPtDirs"] = tlc.Raw("{}")
    m, cf = tlc.gen(ctx.work / "enum", "MC_OrthoMapsEnum", "OrthoMapsEnum", consts, invariants=["Emit", "Laws", "LawRefRotation"])
    recs = [r for batch in ctx.tlc(m, cf, workers=8, allow_violation=False).records for r in batch]
    return recs


def describe(inp):
    k = inp["kind"]
    if k in ("tnp", "tilt_tnp"):
        return f"{k} dim={inp['dim']} normals={inp['normals']}"
    if k == "rot":
        return f"rotation_matrix axis={inp['w']} angle={inp['ang']}"
    return f"{k} n={inp['n']} ref={inp['ref']} pts={inp['pts']}"


def class_key(inp, out):
    k = inp["kind"]
    ex = is_exact(out)
    if k == "tilt_tnp":
        return (k, inp["dim"], len(inp["nb"]["facs"]), tuple(inp["nb"]["cv"]))
    if k.startswith("tilt_"):
        return (k, inp["ref"], len(inp["nb"]["facs"]), tuple(inp["nb"]["cv"]), len(inp["pts"]))
    if k == "tnp":
        return (k, inp["dim"], len(inp["normals"]), ex)
    if k == "rot":
        return (k, inp["ang"]["t"], ex, any(inp["w"]))
    n = inp["n"]
    return (k, inp["ref"], ex, sum(1 for x in n if x == 0), len(inp["pts"]))


def judge(ctx, cases):
    incon = 0
    for lo in range(0, len(cases), 5000):
        part = cases[lo:lo + 5000]
        for v in judge_files(ctx, "J_OrthoMaps", part, ["Judgement"]):
            c = part[v["case"] - 1]
            if v.get("tag") == "inconclusive":
                incon += 1
                continue
            ctx.violation(v["clause"], dict(inp=c["in"], err=c["out"].get("err", "")),
                          f"{describe(c['in'])} exact={is_exact(c['out'])} {c['out'].get('err', '')}")
    ctx.inconclusive += incon


def run(ctx):
    ctx.rule = ("TLC enumerates: every signed permutation of the Pythagorean quadruples (rational unit vectors; the coordinate axes "
                "among them), every non-zero vector over {-1,0,1}^3 ({-2..2}^3 thorough) and nearly parallel directions like "
                "(1,0,100), each as normal of project_plane_matrix and tangent of project_line_matrix with the default and each "
                "explicit reference axis; planar lattice point sets (triangle, quadrilateral, three collinear points first, nearly "
                "parallel vectors, five points; every cyclic order; two offsets) in the plane of every direction with |n|^2 <= 170 "
                "for compute_normal and project_plane_matrix(pts); collinear sets for project_line_matrix(pts); rotation_matrix "
                "for 10 axes x 12 angles; TangentialNormalProjection for 1..3 scaled normals derived from every 3D / 2D "
                "direction, all three projection matrices with num = None and num = 2.  evaluations = calls of the real code; "
                "class = (kind, reference, exactly judged?, zero pattern / number of points / number of normals)")
    ctx.assumptions = [
        "outputs within 1e-9 of rationals with a common denominator <= 1200 are judged EXACTLY by TLC (integer identities); all "
        "others (generic directions: irrational entries) are judged by TLC in 39-bit fixed point with the DESIGN section 8 bounds "
        "(<= 1e-9 pass, > 1e-6 violation, between = inconclusive); which path a case takes is decided by the data, not by the family",
        "determinant +1 is judged as 'orthogonal and third row = first x second' (exact) / 'orthogonal and coarse determinant > 1/2' "
        "(fixed point)",
        "a normal that is a negative multiple of the reference axis has no determined rotation axis: it must be mapped ONTO the axis, "
        "either orientation (the code returns the identity there)",
        "2D TangentialNormalProjection blocks: |det| = 1 (the documented choice 'tangent points in the positive x direction' makes "
        "the block a reflection for normals with negative y component); 3D blocks: det = +1",
        "distance preservation is judged in its algebraic form (column Gram matrix = identity)",
    ]
    recs = enumerate_inputs(ctx)
    cases, nexact = [], 0
    for inp in recs:
        out = execute(inp)
        cases.append({"in": inp, "out": out})
        ex = is_exact(out)
        nexact += ex
        ctx.case(key=class_key(inp, out))
        if len(ctx.samples) < 6 and (inp["kind"], ex) not in {(s["in"]["kind"], s["exact"]) for s in ctx.samples}:
            brief = {k: (dict(q=v["q"], n=v["n"]) if v["q"] else dict(fixed_point=unlimb(v["fx"]))) if isinstance(v, dict) else v
                     for k, v in out.items()}
            ctx.sample({"in": inp, "exact": ex, "out": brief})
    ctx.extra["judged_exactly"] = nexact
    ctx.extra["judged_fixed_point"] = len(cases) - nexact
    judge(ctx, cases)
    ctx.exhaustive = True


def replay(ctx, body):
    inp = body["record"]["inp"]
    out = execute(inp)
    ctx.case(key="replay")
    ctx.sample({"in": inp, "exact": is_exact(out)})
    judge(ctx, [{"in": inp, "out": out}])
