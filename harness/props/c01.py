"""C01 Forward-mode AD values and Jacobians are exact.

spec/ref/AdAlgebra.tla      dual numbers over exact rationals / symbolic terms, the calculus table, Eval(program, point)
spec/ref/AdAlgebraEnum.tla  TLC enumerates ALL programs of depth <= 2 (depth 3 by -simulate) over the arithmetic forms,
                            operand kinds and function instances of the catalogue, at every point; checks the ring laws
spec/trace/J_AdAlgebra.tla  TLC judges what real AdArrays returned: rational entries exactly, term entries by the
                            tolerance policy on the scaled difference to the numpy evaluation of the emitted term

Python only builds the operands (initAdArrays, floats, ndarrays, scipy matrices, row keys, pp.ad.functions), runs the
program on them, converts the doubles (codec.rat) and evaluates TLC's closed terms with numpy (no porepy involved)."""
from __future__ import annotations

import math
import os
from concurrent.futures import ProcessPoolExecutor, ThreadPoolExecutor
from fractions import Fraction

import numpy as np

from .. import codec, tlc

LEVEL = "translation_validation"
CLAUSES = ["Clauses"]
H = 8192            # fold bound of the spec: reference rationals have |n|, d <= H
LIMN = 10 ** 5      # larger observed numerators cannot equal a reference value (keeps TLC's cross products in range)
BATCH = 5000
NPROC = 8

BIN = {"add": "+", "sub": "-", "mul": "*", "div": "/", "pow": "**"}


# ---------------------------------------------------------------------------------------------------------
# catalogues (the constants of AdAlgebra.tla)
# ---------------------------------------------------------------------------------------------------------
def q(n, d=1):
    f = Fraction(n, d)
    return [f.numerator, f.denominator]


def fn(name, *p):
    return dict(name=name, p=[q(*x) if isinstance(x, tuple) else q(x) for x in p])


FN_ALL = [fn("exp"), fn("log"), fn("sin"), fn("cos"), fn("tan"), fn("arcsin"), fn("arccos"), fn("arctan"),
          fn("sinh"), fn("cosh"), fn("tanh"), fn("arcsinh"), fn("arccosh"), fn("arctanh"), fn("abs"),
          fn("heaviside", (1, 2)), fn("heaviside_smooth", (1, 2)), fn("characteristic_function", (1, 2)),
          fn("safe_power", -1, 0, (1, 4)), fn("safe_power", 3, 1, 1), fn("l2_norm", 2), fn("l2_norm", 1)]
FN_MORE = [fn("heaviside", 0), fn("heaviside", 1), fn("heaviside_smooth", (1, 1000)), fn("safe_power", 2, 5, 0),
           fn("safe_power", (1, 2), 0, (1, 4)), fn("safe_power", -2, (1, 2), 2), fn("characteristic_function", 2),
           fn("l2_norm", 3)]
SAMPLES = [q(-5, 2), q(-3, 2), q(-3, 4), q(-1, 3), q(1, 3), q(3, 4), q(3, 2), q(5, 2)]

ALLBIN = {"add", "sub", "mul", "div", "pow"}
ALLUN = {"neg", "matmul", "slice"}


def mat(rows, fmt):
    return dict(m=rows, fmt=fmt)


def sl(py, *a):
    return dict(py=py, a=list(a))


def base(var_sizes, points, F, A, M, S, Fn):
    return dict(VarSizes=var_sizes, Points=points, FCat=F, ACat=A, MCat=M, SCat=S, FnCat=Fn, H=H)


F_INT2 = dict(v=q(2), t="int")
F_MHALF = dict(v=q(-1, 2), t="float")
F_3 = dict(v=q(3), t="float")
F_M1 = dict(v=q(-1), t="float")
F_HALF = dict(v=q(1, 2), t="float")
F_1 = dict(v=q(1), t="float")


def plans(quick):
    """[(name, AdAlgebra constants, enumeration constants, simulate traces or None)]"""
    P = []
    # A: two variables of size 2 (Jacobians from initAdArrays are COO); point 1 is Pythagorean in x, point 2 has x = 1
    # (AdArray ** AdArray is then exactly representable)
    ptsA = [[[q(3), q(4)], [q(1, 2), q(-2)]], [[q(1), q(1)], [q(2), q(3)]]]
    MA = [mat([[1, 2], [0, -1]], "csr"), mat([[1, 0], [1, 1], [2, -1]], "csc")]
    SA = [sl("slice", 0, 1, 1), sl("array", 1, 0), sl("int", 1), sl("slice", 0, 3, 2)]
    AA = [[q(2), q(-1)], [q(1), q(-2), q(1, 2)]]
    if quick:
        A = base([2, 2], ptsA[:1], [F_INT2, F_MHALF], AA[:1], MA[:1], SA[:2], [])
        P.append(("A-alg", A, dict(BinOps=ALLBIN, UnOps=ALLUN, LawOps={"mul"}), None))
        A2 = base([2, 2], ptsA[1:], [F_INT2], [], MA[1:], [], [])
        P.append(("A-pow", A2, dict(BinOps={"pow", "mul"}, UnOps={"matmul"}, LawOps={"mul"}), None))
    else:
        A = base([2, 2], ptsA, [F_INT2, F_MHALF, F_3], AA, MA, SA, [])
        P.append(("A-alg", A, dict(BinOps=ALLBIN, UnOps=ALLUN, LawOps={"mul"}), None))
    # B: one variable of size 3 (CSR Jacobian): slicing of a fresh variable
    ptsB = [[[q(2), q(-1, 2), q(3)]]]
    MB = [mat([[1, 0, 2], [0, -1, 1]], "csc"), mat([[2, 0, 0], [1, 1, 0], [0, 3, -1]], "csr")]
    SB = [sl("slice", 0, 2, 1), sl("int", 2), sl("array", 2, 0, 1), sl("slice", 1, 3, 2)]
    AB = [[q(1), q(-2), q(1, 2)], [q(3), q(-1)]]
    if quick:
        B = base([3], ptsB, [F_M1], AB[:1], MB[:1], SB[:3], [])
    else:
        B = base([3], ptsB, [F_M1, F_INT2, F_HALF], AB, MB, SB, [])
    P.append(("B-alg", B, dict(BinOps=ALLBIN, UnOps=ALLUN, LawOps={"mul"}), None))
    # F: the function library on two variables of size 2: f(x), f(g(x)), f(x) op g(y), f(x op y), f(A @ x) ...
    ptsF = [[[q(3), q(4)], [q(1, 2), q(-2)]], [[q(1, 4), q(-1, 2)], [q(2), q(3, 2)]]]
    MF = [mat([[1, 1], [1, -1]], "csc")]
    if quick:
        Fq = base([2, 2], ptsF[:1], [F_INT2], [], MF, [], FN_ALL)
        P.append(("F-fun", Fq, dict(BinOps={"mul", "pow"}, UnOps={"fn", "matmul"}, LawOps=set()), None))
    else:
        Ft = base([2, 2], ptsF, [F_INT2, F_MHALF], [[q(2), q(-1)]], MF, [sl("array", 1, 0)], FN_ALL + FN_MORE)
        P.append(("F-fun", Ft, dict(BinOps={"add", "mul", "div", "pow"}, UnOps={"fn", "matmul", "slice", "neg"}, LawOps=set()), None))
        # maximum with every operand kind
        Mx = base([2, 2], ptsA, [F_INT2, F_MHALF], AA[:1], MA, SA[:2], [fn("abs"), fn("heaviside", (1, 2))])
        P.append(("M-max", Mx, dict(BinOps={"max", "mul", "sub"}, UnOps={"neg", "matmul", "slice", "fn"}, LawOps=set()), None))
        # C: three variables; D: two variables of size 3 (l2_norm with dim 3)
        ptsC = [[[q(2), q(-3)], [q(1, 2), q(1)], [q(-1), q(4)]]]
        C = base([2, 2, 2], ptsC, [F_INT2, F_MHALF], AA[:1], MA[:1], SA[:2], [])
        P.append(("C-alg", C, dict(BinOps=ALLBIN, UnOps=ALLUN, LawOps={"mul"}), None))
        ptsD = [[[q(2), q(3), q(6)], [q(1), q(-1, 2), q(2)]]]
        D = base([3, 3], ptsD, [F_INT2], AB[:1], MB[1:], SB[:1], [fn("l2_norm", 3), fn("l2_norm", 1), fn("safe_power", -1, 0, (1, 4)), fn("exp")])
        P.append(("D-alg", D, dict(BinOps={"mul", "div", "sub"}, UnOps={"neg", "matmul", "slice", "fn"}, LawOps={"mul"}), None))
        # depth 3 by simulation
        P.append(("A-alg-d3", A, dict(BinOps=ALLBIN, UnOps=ALLUN, LawOps=set()), 6000))
        P.append(("F-fun-d3", Ft, dict(BinOps={"add", "mul", "div", "pow"}, UnOps={"fn", "matmul", "slice", "neg"}, LawOps=set()), 6000))
        P.append(("M-max-d3", Mx, dict(BinOps={"max", "mul", "sub"}, UnOps={"neg", "matmul", "slice", "fn"}, LawOps=set()), 2000))
    if quick:
        # maximum (small)
        Mx = base([2, 2], ptsA[:1], [F_INT2], AA[:1], MA, [], [])
        P.append(("M-max", Mx, dict(BinOps={"max"}, UnOps={"matmul", "neg"}, LawOps=set()), None))
    return P


# ---------------------------------------------------------------------------------------------------------
# closed terms -> numpy (no porepy)
# ---------------------------------------------------------------------------------------------------------
_NPFN = dict(exp=np.exp, log=np.log, sin=np.sin, cos=np.cos, tan=np.tan, arcsin=np.arcsin, arccos=np.arccos,
             arctan=np.arctan, sinh=np.sinh, cosh=np.cosh, tanh=np.tanh, arcsinh=np.arcsinh, arccosh=np.arccosh,
             arctanh=np.arctanh, abs=np.abs)


def tnum(t):
    """numpy evaluation of a closed term of AdAlgebra.tla"""
    h = t[0]
    if h == "q":
        return np.float64(t[1]) / np.float64(t[2])
    if h == "pi":
        return np.float64(np.pi)
    if h == "neg":
        return -tnum(t[1])
    if h == "fn":
        return _NPFN[t[1]](tnum(t[2]))
    a, b = tnum(t[1]), tnum(t[2])
    if h == "add":
        return a + b
    if h == "sub":
        return a - b
    if h == "mul":
        return a * b
    if h == "div":
        return a / b
    if h == "pow":
        return np.power(a, b)
    raise ValueError(f"unknown term head {h}")


# ---------------------------------------------------------------------------------------------------------
# running a program on real AdArrays
# ---------------------------------------------------------------------------------------------------------
def fl(r):
    return float(Fraction(int(r[0]), int(r[1])))


class Machine:
    def __init__(self, consts, pt):
        import porepy as pp

        self.pp, self.c = pp, consts
        vals = [np.array([fl(x) for x in v], dtype=float) for v in consts["Points"][pt - 1]]
        self.vars = pp.ad.initAdArrays(vals)

    def fun(self, f):
        from functools import partial

        F = self.pp.ad.functions
        p = [fl(x) for x in f["p"]]
        n = f["name"]
        if n == "heaviside":
            return partial(F.heaviside, p[0])
        if n == "heaviside_smooth":
            return lambda v: F.heaviside_smooth(v, eps=p[0])
        if n == "characteristic_function":
            return partial(F.characteristic_function, p[0])
        if n == "safe_power":
            return partial(F.safe_power, p[0], p[1], p[2])
        if n == "l2_norm":
            return partial(F.l2_norm, int(p[0]))
        return getattr(F, n)

    def operand(self, k, i):
        import scipy.sparse as sps

        c = self.c
        if k == "var":
            return "ad", self.vars[i - 1]
        if k == "f":
            e = c["FCat"][i - 1]
            return "f", (int(e["v"][0]) if e["t"] == "int" else fl(e["v"]))
        if k == "arr":
            return "arr", np.array([fl(x) for x in c["ACat"][i - 1]], dtype=float)
        if k == "mat":
            e = c["MCat"][i - 1]
            m = np.array(e["m"], dtype=float)
            return "mat", (sps.csc_matrix(m) if e["fmt"] == "csc" else sps.csr_matrix(m))
        if k == "sl":
            e = c["SCat"][i - 1]
            if e["py"] == "int":
                return "sl", int(e["a"][0])
            if e["py"] == "array":
                return "sl", np.array(e["a"], dtype=int)
            return "sl", slice(e["a"][0], e["a"][1], e["a"][2])
        if k == "fn":
            return "fn", self.fun(c["FnCat"][i - 1])
        return "none", None

    def comb(self, op, A, B):
        ka, a = A
        kb, b = B
        if op in ("leaf", "const", "id"):
            return A
        if op == "none":
            return "none", None
        if op in BIN:
            if ka == "arr" and kb == "ad":
                # numpy would broadcast ndarray <op> AdArray elementwise over objects: the reflected method is the
                # supported call (it is what the AD parser does)
                r = getattr(b, {"add": "__radd__", "sub": "__rsub__", "mul": "__rmul__", "div": "__rtruediv__",
                                "pow": "__rpow__"}[op])(a)
            elif op == "add":
                r = a + b
            elif op == "sub":
                r = a - b
            elif op == "mul":
                r = a * b
            elif op == "div":
                r = a / b
            else:
                r = a ** b
            return "ad", r
        if op == "max":
            return "ad", self.pp.ad.functions.maximum(a, b)
        if op == "neg":
            return "ad", -a
        if op == "matmul":
            return "ad", a @ b
        if op == "slice":
            return "ad", a[b]
        if op == "fn":
            return "ad", b(a)
        raise ValueError(op)

    def run(self, t):
        if len(t) == 5:
            return self.comb(t[0], self.operand(t[1], t[2]), self.operand(t[3], t[4]))
        return self.comb(t[0], self.run(t[1]), self.run(t[2]))


def enc(x):
    """double -> [n, d]; [0, 0]: nan / inf / not within 1e-9 of a rational with denominator <= H / too large"""
    try:
        if not np.isfinite(x):
            return [0, 0]
        r = codec.rat(float(x), H)
    except codec.Inexact:
        return [0, 0]
    return r if abs(r[0]) <= LIMN else [0, 0]


def scaled_err(x, ref):
    if not np.isfinite(x):
        return 2 ** 30
    e = abs(float(x) - float(ref)) / max(1.0, abs(float(ref)))
    return int(min(2 ** 30, math.ceil(e * 1e12)))


def execute(consts, rec):
    """Run one emitted program; returns (out, note).  note = 'overflow' if the numpy evaluation of a required term is
    not finite (the case is outside double range and is not judged)."""
    import scipy.sparse as sps

    out = dict(error="", n=0, rows=0, cols=0, val=[], jac=[], err=[])
    refs = []
    with np.errstate(all="ignore"):
        for i, j, term in rec["sym"]:
            r = tnum(term)
            if np.isnan(r):
                raise RuntimeError(f"the required term is nan (domain analysis of the spec is unsound): {rec['t']} {term}")
            if not np.isfinite(r) or abs(r) > 1e150:
                return None, "overflow"
            refs.append((i, j, float(r)))
        try:
            import warnings

            with warnings.catch_warnings():
                warnings.simplefilter("ignore")
                k, r = Machine(consts, rec["pt"]).run(rec["t"])
            if k != "ad" or not hasattr(r, "val") or not hasattr(r, "jac"):
                raise TypeError(f"result is a {type(r).__name__}, not an AdArray")
            val = np.asarray(r.val, dtype=float)
            jac = r.jac.toarray() if sps.issparse(r.jac) else np.asarray(r.jac, dtype=float)
            if val.ndim != 1 or jac.ndim != 2:
                raise TypeError(f"val.ndim = {val.ndim}, jac.ndim = {jac.ndim}")
        except Exception as e:  # an exception of the code under test on an in-family program is an observation
            out["error"] = f"{type(e).__name__}: {e}"[:200]
            return out, ""
    out["n"], out["rows"], out["cols"] = int(val.size), int(jac.shape[0]), int(jac.shape[1])
    out["val"] = [enc(x) for x in val]
    out["jac"] = [[enc(x) for x in row] for row in jac]
    out["float"] = dict(val=[float(x) for x in val], jac=[[float(x) for x in row] for row in jac])
    for i, j, ref in refs:
        if i <= val.size and i <= jac.shape[0] and j <= jac.shape[1]:
            x = val[i - 1] if j == 0 else jac[i - 1, j - 1]
            out["err"].append([i, j, scaled_err(x, ref)])
    return out, ""


def _exec_chunk(args):
    consts, recs = args
    return [execute(consts, r) for r in recs]


def execute_all(consts, recs):
    if len(recs) < 400:
        return _exec_chunk((consts, recs))
    n = NPROC
    size = max(100, (len(recs) + 4 * n - 1) // (4 * n))
    chunks = [recs[i:i + size] for i in range(0, len(recs), size)]
    with ProcessPoolExecutor(max_workers=n) as ex:
        res = list(ex.map(_exec_chunk, [(consts, c) for c in chunks]))
    return [o for ch in res for o in ch]


# ---------------------------------------------------------------------------------------------------------
# pretty printing, keys
# ---------------------------------------------------------------------------------------------------------
def show(consts, t):
    def opnd(k, i):
        if k == "var":
            return "xyzw"[i - 1]
        if k == "f":
            e = consts["FCat"][i - 1]
            return str(e["v"][0]) if e["t"] == "int" else repr(fl(e["v"]))
        if k == "arr":
            return "array(" + str([fl(x) for x in consts["ACat"][i - 1]]) + ")"
        if k == "mat":
            e = consts["MCat"][i - 1]
            return f"{e['fmt']}({e['m']})"
        if k == "sl":
            e = consts["SCat"][i - 1]
            return {"int": lambda a: str(a[0]), "array": lambda a: str(list(a)), "slice": lambda a: f"{a[0]}:{a[1]}:{a[2]}"}[e["py"]](e["a"])
        if k == "fn":
            e = consts["FnCat"][i - 1]
            return e["name"] + ("<" + ",".join(str(Fraction(*x)) for x in e["p"]) + ">" if e["p"] else "")
        return ""

    def go(t):
        if len(t) == 5:
            a, b = opnd(t[1], t[2]), opnd(t[3], t[4])
        else:
            a, b = go(t[1]), go(t[2])
        op = t[0]
        if op in ("leaf", "const", "id"):
            return a
        if op in BIN:
            return f"({a} {BIN[op]} {b})"
        if op == "max":
            return f"maximum({a}, {b})"
        if op == "neg":
            return f"(-{a})"
        if op == "matmul":
            return f"({a} @ {b})"
        if op == "slice":
            return f"{a}[{b}]"
        if op == "fn":
            return f"{b}({a})"
        return ""

    return go(t)


def shape_key(consts, t):
    """class of a program: its operations and operand kinds (function names kept, other catalogue indices dropped)"""
    if len(t) == 5:
        def k(kk, i):
            return consts["FnCat"][i - 1]["name"] if kk == "fn" else kk
        return f"{t[0]}({k(t[1], t[2])},{k(t[3], t[4])})"
    return f"{t[0]}({shape_key(consts, t[1])},{shape_key(consts, t[2])})"


def depth(t):
    if len(t) == 5:
        return 0 if t[0] in ("leaf", "const", "none") else 1
    d = max(depth(t[1]), depth(t[2]))
    return d if t[0] == "id" else d + 1


def ops_in(t):
    if len(t) == 5:
        return {t[0]}
    return {t[0]} | ops_in(t[1]) | ops_in(t[2])


# ---------------------------------------------------------------------------------------------------------
# TLC: enumerate, judge
# ---------------------------------------------------------------------------------------------------------
def enumerate_programs(ctx, name, consts, en, traces):
    allc = dict(consts, Mode="tree", BinOps=en["BinOps"], UnOps=en["UnOps"], LawOps=en["LawOps"],
                MaxLevel=3 if traces else 2, Samples=[])
    m, cf = tlc.gen(ctx.work / f"enum_{name}", "MC_AdAlgebraEnum", "AdAlgebraEnum", allc, invariants=["Emit", "Laws"])
    if traces:
        res = ctx.tlc(m, cf, workers=8, allow_violation=False, simulate=f"num={traces}", depth=6, timeout=1500)
    else:
        res = ctx.tlc(m, cf, workers=8, allow_violation=False, timeout=1500)
    progs, skips, seen = [], {}, set()
    for r in res.records:
        if "skip" in r:
            skips[r["skip"]] = skips.get(r["skip"], 0) + 1
        else:
            key = (repr(r["t"]), r["pt"])
            if key in seen:       # simulation may walk to the same program twice
                continue
            seen.add(key)
            progs.append(r)
    return progs, skips


def judge(ctx, name, consts, recs, outs, prefix=""):
    cases, idx = [], []
    for k, (r, (o, note)) in enumerate(zip(recs, outs)):
        if o is None:
            continue
        cases.append(dict(t=r["t"], pt=r["pt"], out={x: o[x] for x in ("error", "n", "rows", "cols", "val", "jac", "err")}))
        idx.append(k)
    batches = [(b, cases[b:b + BATCH]) for b in range(0, len(cases), BATCH)]

    def one(arg):
        b, cs = arg
        return b, ctx.judge("J_AdAlgebra", cs, CLAUSES, consts=consts, workers=4 if len(batches) > 1 else 8,
                            tag=f"j_{name}_{b}", timeout=1500)

    if len(batches) > 1:
        with ThreadPoolExecutor(max_workers=3) as ex:
            results = list(ex.map(one, batches))
    else:
        results = [one(b) for b in batches]
    for b, verdicts in results:
        for v in verdicts:
            k = idx[b + v["case"] - 1]
            r, o = recs[k], outs[k][0]
            if v.get("tag") == "inconclusive":
                ctx.inconclusive += len(v["val"])
                continue
            if v["clause"] == "InFamily":
                raise RuntimeError(f"enumerator and judge disagree on the family: {r['t']} at point {r['pt']}")
            expr = show(consts, r["t"])
            rec = dict(config=name, consts=consts, t=r["t"], pt=r["pt"], sym=r["sym"], expr=expr,
                       point=consts["Points"][r["pt"] - 1], bad=v.get("bad", []),
                       observed=dict(error=o["error"], n=o["n"], rows=o["rows"], cols=o["cols"], **o.get("float", {})))
            what = o["error"] if o["error"] else f"entries {v.get('bad', [])} (row, column; column 0 = val) differ from the reference"
            ctx.violation(v["clause"], rec, f"{prefix}{expr} at {[[str(Fraction(*x)) for x in vv] for vv in rec['point']]}: {what}")
    return len(cases)


def table_check(ctx, fns):
    """Cross-validation of the calculus table of the spec (trusted base): Richardson-extrapolated central differences
    of the table VALUE terms against the table DERIVATIVE term, numpy only.  A mismatch is a design failure (exit 2)."""
    consts = dict(base([1], [[[q(1)]]], [], [], [], [], fns), Mode="table", BinOps=set(), UnOps=set(), LawOps=set(),
                  MaxLevel=2, Samples=SAMPLES)
    m, cf = tlc.gen(ctx.work / "table", "MC_AdAlgebraEnum", "AdAlgebraEnum", consts, invariants=["Emit"])
    res = ctx.tlc(m, cf, workers=4, allow_violation=False)
    done = set()
    for r in res.records:
        if r.get("skip"):
            continue
        f = fns[r["fn"] - 1]
        if f["name"] == "l2_norm":
            continue
        v = [float(tnum(x)) for x in r["vals"]]
        h = fl(r["h"])
        d1 = (v[2] - v[1]) / (2 * h)
        d2 = (v[4] - v[3]) / h
        fd = (4 * d2 - d1) / 3
        der = float(tnum(r["der"]))
        if abs(fd - der) > 1e-5 * max(1.0, abs(der)):
            raise RuntimeError(f"calculus table of AdAlgebra.tla is inconsistent for {f} at {r['x']}: table derivative {der}, "
                               f"central differences of the table value {fd}")
        done.add(f["name"])
    missing = {f["name"] for f in fns} - done - {"l2_norm"}
    if missing:
        raise RuntimeError(f"calculus table not cross-validated for {missing}")
    return len(res.records)


# ---------------------------------------------------------------------------------------------------------
def run(ctx):
    ctx.rule = ("TLC enumerates every AD program of depth <= 2 (thorough: plus random depth 3 programs) over "
                "{+, -, *, /, **, unary -, sparse @, row slicing, maximum, the functions of pp.ad.functions} x operand kinds "
                "{AdArray, float, int, ndarray (both orders), csr/csc matrix, int/slice/index-array row key} at rational points; "
                "every program in the smooth domain is executed on AdArrays from initAdArrays; a distinct non-trivial class = "
                "a distinct (operations, operand kinds, function names) skeleton of depth >= 1")
    ctx.assumptions = [
        "algebraic entries (rationals with numerator, denominator <= 8192) are compared exactly by TLC after codec.rat (1e-9)",
        "entries whose required value is a symbolic term (transcendental functions, non-integer powers, log factors, folded "
        "rationals beyond 8192) are compared numerically: the term is evaluated by a numpy interpreter that does not import "
        "porepy, and TLC applies the tolerance policy of DESIGN section 8 to |x - ref| / max(1, |ref|): <= 1e-9 passes, "
        "> 1e-6 is a violation, in between is counted as inconclusive",
        "the calculus table (f, f') of AdAlgebra.tla is trusted base; it is cross-validated at every run by Richardson "
        "central differences of its own value terms (numpy only)",
        "smooth domain: kinks (abs, heaviside, l2_norm at 0; maximum at ties; |x| = tol of safe_power / characteristic_function), "
        "0 ** (exponent <= 0), x ** y and c ** x with base <= 0, and arguments for which double arithmetic is ill conditioned "
        "(trigonometric functions beyond |u| <= 3, arcsin/arccos/arctanh beyond |u| <= 0.92, arccosh below 9/8) are excluded "
        "by the spec's static analysis (reasons are counted in coverage.skipped)",
        "ndarray on the left of an AdArray is executed through the reflected method (x.__radd__(a) ...), as the AD parser does; "
        "numpy's own ndarray.__add__ broadcasting over an AdArray is documented as unsupported",
        "RegularizedHeaviside is not covered: its Jacobian is by design that of the regularisation, not the true derivative",
    ]
    total, skipped, per = 0, {}, {}
    fns_seen = {}
    for name, consts, en, traces in plans(ctx.quick):
        progs, skips = enumerate_programs(ctx, name, consts, en, traces)
        outs = execute_all(consts, progs)
        n = judge(ctx, name, consts, progs, outs)
        nover = sum(1 for o, note in outs if o is None)
        for r, (o, note) in zip(progs, outs):
            if o is None:
                continue
            d = depth(r["t"])
            ctx.case(key=shape_key(consts, r["t"]), nontrivial=d >= 1)
        for k, v in skips.items():
            skipped[k] = skipped.get(k, 0) + v
        if nover:
            skipped["float_overflow"] = skipped.get("float_overflow", 0) + nover
        per[name] = dict(programs=len(progs), judged=n, symbolic=sum(1 for r in progs if r["sym"]),
                         exact=sum(1 for r in progs if not r["sym"]), depth3=sum(1 for r in progs if depth(r["t"]) >= 3),
                         simulated=bool(traces))
        total += n
        for f in consts["FnCat"]:
            fns_seen[repr(f)] = f
        want = [p for p in progs if depth(p["t"]) >= 2]
        for r in (want[:1] + want[len(want) // 2: len(want) // 2 + 1]):
            o = outs[progs.index(r)][0]
            if o is not None and len(ctx.samples) < 6:
                ctx.sample(dict(config=name, expr=show(consts, r["t"]), point=consts["Points"][r["pt"] - 1],
                                val=o.get("float", {}).get("val"), jac=o.get("float", {}).get("jac"), error=o["error"],
                                symbolic_entries=len(r["sym"])))
    ntab = table_check(ctx, list(fns_seen.values()))
    ctx.programs = total
    ctx.extra["per_configuration"] = per
    ctx.extra["skipped"] = skipped
    ctx.extra["table_checks"] = ntab
    ctx.exhaustive = bool(ctx.quick) or None
    if ctx.quick:
        ctx.exhaustive = True
    else:
        ctx.exhaustive = False   # the depth 3 programs are sampled
    ctx.explanation = ("programs = AD expression trees executed on real AdArrays and judged by TLC against the dual-number "
                       "semantics of AdAlgebra.tla; all depth <= 2 trees of the catalogue are enumerated and executed")


def replay(ctx, body):
    rec = body["record"]
    consts = rec["consts"]
    r = dict(t=rec["t"], pt=rec["pt"], sym=rec["sym"])
    out = execute(consts, r)
    ctx.case(key="replay")
    ctx.sample(dict(expr=rec.get("expr"), point=rec.get("point")))
    judge(ctx, rec.get("config", "replay"), consts, [r], [out], prefix="replayed: ")


# ---------------------------------------------------------------------------------------------------------
# known findings (structural recognisers of the failing classes)
# ---------------------------------------------------------------------------------------------------------
def _m_coo_slice(rec):
    """row slicing of an AdArray whose Jacobian is still the COO matrix built by initAdArrays for >= 2 variables"""
    return (rec["clause"] == "Clauses" or rec["clause"] == "Evaluates") and "slice" in ops_in(rec["t"]) \
        and len(rec["consts"]["VarSizes"]) >= 2 \
        and rec["observed"]["error"].startswith("TypeError: 'coo_matrix' object is not subscriptable")


def _m_max_csc(rec):
    """maximum(a, b) where a.jac is CSC (a = csc_matrix @ AdArray ...)"""
    return "max" in ops_in(rec["t"]) and any(m["fmt"] == "csc" for m in rec["consts"]["MCat"]) \
        and rec["observed"]["error"].startswith("ValueError: Both matrices should be of the specified format csc")


MATCHERS = {"c01_slice_coo_jacobian": _m_coo_slice, "c01_maximum_csc_jacobian": _m_max_csc}
