"""C01 Forward-mode AD values and Jacobians are exact.

spec/ref/AdAlgebra.tla      dual numbers over exact rationals / closed symbolic terms, the calculus table (f, f'), the smooth
                            domain analysis, Eval(program, point), the ring laws
spec/ref/AdAlgebraEnum.tla  TLC enumerates ALL well-typed programs of depth <= 2 (depth 3 by -simulate) over the arithmetic
                            forms, operand kinds and function instances of each configuration, at every point; emits the
                            program + the required entries that are terms; checks the ring laws on the operands
spec/trace/J_AdAlgebra.tla  TLC judges what real AdArrays returned (clauses Evaluates, Shape, Value, Jacobian): it recomputes
                            Eval, compares rational entries exactly and term entries by the tolerance policy on the scaled
                            difference to the numpy evaluation of the emitted term

Python only builds the operands (initAdArrays, floats, ndarrays, scipy matrices, row keys, pp.ad.functions), runs the
program on them, converts the doubles (codec.rat) and evaluates TLC's closed terms with numpy (no porepy involved).

Recommended level: translation_validation (programs vs reference semantics); the algebraic fragment of the quick tier is an
exhaustive enumeration within its bounds (coverage.exhaustive)."""
from __future__ import annotations

import math
import os
from concurrent.futures import ThreadPoolExecutor
from fractions import Fraction

import numpy as np

from .. import codec, tlc

LEVEL = "translation_validation"
CLAUSES = ["Clauses"]
H = 8192            # fold bound of the spec: reference rationals have |n|, d <= H
LIMN = 10 ** 5      # larger observed numerators cannot equal a reference value (keeps TLC's cross products in range)
BATCH = 5000
MAXREPORT = 200    # replay files written per run (known findings do not count)
NPROC = 8

BIN = {"add": "+", "sub": "-", "mul": "*", "div": "/", "pow": "**"}


# ---------------------------------------------------------------------------------------------------------
# catalogues (the constants of AdAlgebra.tla)
# ---------------------------------------------------------------------------------------------------------
def q(n, d=1):
    f = Fraction(n, d)
    return [f.numerator, f.denominator]


def fn(name, *p):
    return dict(name=name, p=[q(*x) if isinstance(x, tuple) else q(x) for x in p])


FN_ALL = [fn("exp"), fn("log"), fn("sin"), fn("cos"), fn("tan"), fn("arcsin"), fn("arccos"), fn("arctan"),
          fn("sinh"), fn("cosh"), fn("tanh"), fn("arcsinh"), fn("arccosh"), fn("arctanh"), fn("abs"),
          fn("heaviside", (1, 2)), fn("heaviside_smooth", (1, 2)), fn("characteristic_function", (1, 2)),
          fn("safe_power", -1, 0, (1, 4)), fn("safe_power", 3, 1, 1), fn("l2_norm", 2), fn("l2_norm", 1)]
FN_MORE = [fn("heaviside", 0), fn("heaviside", 1), fn("heaviside_smooth", (1, 1000)), fn("safe_power", 2, 5, 0),
           fn("safe_power", (1, 2), 0, (1, 4)), fn("safe_power", -2, (1, 2), 2), fn("characteristic_function", 2),
           fn("l2_norm", 3)]
SAMPLES = [q(-5, 2), q(-3, 2), q(-3, 4), q(-1, 3), q(1, 3), q(3, 4), q(3, 2), q(5, 2)]

ALLBIN = {"add", "sub", "mul", "div", "pow"}
ALLUN = {"neg", "matmul", "slice"}


def mat(rows, fmt):
    return dict(m=rows, fmt=fmt)


def sl(py, *a):
    return dict(py=py, a=list(a))


def fv(n, d=1, t="float"):
    return dict(v=q(n, d), t=t)


# The catalogue (constants of AdAlgebra.tla).  A point fixes the independent variables: their number, sizes, values.
CATALOGUE = dict(
    Points=[
        [[q(3), q(4)], [q(1, 2), q(-2)]],             # 1  two variables of size 2 (COO Jacobians); x Pythagorean
        [[q(1), q(1)], [q(2), q(3)]],                 # 2  x = 1: x ** y is exactly representable
        [[q(2), q(-1, 2), q(3)]],                     # 3  one variable of size 3 (CSR Jacobian)
        [[q(3, 5), q(4, 5)]],                         # 4  one variable, 0 < x < 0.92, |x| = 1
        [[q(3, 2), q(-2)]],                           # 5  one variable, mixed signs
        [[q(1, 4), q(-1, 2)], [q(2), q(3, 2)]],       # 6  two variables
        [[q(2), q(-3)], [q(1, 2), q(1)], [q(-1), q(4)]],   # 7  three variables
        [[q(2), q(3), q(6)], [q(1), q(-1, 2), q(2)]],      # 8  two variables of size 3; |x| = 7
        [[q(0), q(2)], [q(1), q(-1)]],                # 9  an entry exactly 0 (x ** n is smooth there, n a positive integer)
    ],
    FCat=[fv(2, t="int"), fv(-1, 2), fv(3), fv(-1), fv(1, 2)],
    ACat=[[q(2), q(-1)], [q(1), q(-2), q(1, 2)], [q(3), q(2), q(1, 2)], [q(2), q(1, 2)]],   # 3, 4: positive (bases of **)
    MCat=[mat([[1, 2], [0, -1]], "csr"), mat([[1, 0], [1, 1], [2, -1]], "csc"), mat([[1, 0, 2], [0, -1, 1]], "csc"),
          mat([[2, 0, 0], [1, 1, 0], [0, 3, -1]], "csr"), mat([[1, 1], [1, -1]], "csc")],
    SCat=[sl("slice", 0, 1, 1), sl("array", 1, 0), sl("int", 1), sl("slice", 0, 3, 2), sl("int", 2), sl("array", 2, 0, 1),
          sl("slice", 1, 3, 2), sl("slice", 0, 2, 1)],
    FnCat=FN_ALL + FN_MORE,
    H=H)
NFN = len(FN_ALL)


def cfg(name, pts, F=(), A=(), M=(), S=(), Fn=(), bin=(), un=(), law=()):
    return dict(name=name, pts=set(pts), F=set(F), A=set(A), M=set(M), S=set(S), Fn=set(Fn), bin=set(bin), un=set(un),
                law=set(law))


def plans(quick):
    """(configurations enumerated exhaustively to depth 2, [(configuration, traces)] simulated to depth 3)"""
    allfn = range(1, NFN + 1)
    if quick:
        ex = [cfg("A-alg", [1], M=[1], S=[1], bin={"add", "mul", "div", "pow"}, un=ALLUN, law={"mul"}),
              cfg("A-pow", [2], F=[1], M=[2], bin={"pow", "mul"}, un={"matmul"}),
              cfg("B-alg", [3], F=[4], A=[3], M=[3], S=[5, 6], bin=ALLBIN, un=ALLUN, law={"mul"}),
              cfg("F-fun", [4, 5], F=[1], M=[5], Fn=allfn, bin={"mul"}, un={"fn", "matmul"}),
              cfg("M-max", [1], F=[1], A=[1], M=[1, 2], bin={"max"}, un={"matmul", "neg"}),
              cfg("Z-pow", [9], F=[1, 3], M=[1], bin={"pow", "mul", "add"}, un={"matmul"})]
        return ex, []
    everyfn = range(1, len(CATALOGUE["FnCat"]) + 1)
    A = cfg("A-alg", [1], F=[2], A=[4], M=[1, 2], S=[1, 2, 3], bin=ALLBIN, un=ALLUN, law={"mul"})
    F2 = cfg("F-fun2", [6], F=[1, 2], M=[5], Fn=everyfn, bin={"mul", "pow"}, un={"fn", "matmul", "neg"})
    Mx = cfg("M-max", [1, 2], F=[1, 2], A=[1], M=[1, 2], S=[1, 2], Fn=[15, 16], bin={"max", "mul"}, un={"neg", "matmul", "slice", "fn"})
    ex = [A,
          cfg("A-pow", [2], F=[1, 3], M=[2], bin={"pow", "mul", "div"}, un={"matmul", "neg"}, law={"mul"}),
          cfg("B-alg", [3], F=[4, 1], A=[2, 3], M=[3, 4], S=[5, 6, 7, 8], bin=ALLBIN, un=ALLUN, law={"mul"}),
          cfg("F-fun1", [4, 5], F=[1, 2], M=[5], Fn=everyfn, bin={"add", "mul", "div", "pow"}, un={"fn", "matmul", "neg"}),
          F2, Mx,
          cfg("Z-pow", [9], F=[1, 3], M=[1, 5], bin={"pow", "mul", "add", "sub"}, un={"matmul", "neg"}),
          cfg("C-alg", [7], F=[1], M=[1], S=[1], bin={"sub", "mul", "div"}, un=ALLUN, law={"mul"}),
          cfg("D-alg", [8], F=[1], A=[2], M=[4], S=[8], Fn=[30, 22, 19, 1], bin={"mul", "div", "sub"},
              un={"neg", "matmul", "slice", "fn"}, law={"mul"})]
    # -simulate checks the invariants (Emit) on ALL successors of the last step: every random pair of depth <= 2 subtrees
    # is emitted with every root operation
    sim = [(dict(A, name="A-alg-d3", pts={1, 2}), 150), (dict(F2, name="F-fun-d3", pts={1, 6}), 80), (dict(Mx, name="M-max-d3"), 60)]
    return ex, sim


# ---------------------------------------------------------------------------------------------------------
# closed terms -> numpy (no porepy)
# ---------------------------------------------------------------------------------------------------------
_NPFN = dict(exp=np.exp, log=np.log, sin=np.sin, cos=np.cos, tan=np.tan, arcsin=np.arcsin, arccos=np.arccos,
             arctan=np.arctan, sinh=np.sinh, cosh=np.cosh, tanh=np.tanh, arcsinh=np.arcsinh, arccosh=np.arccosh,
             arctanh=np.arctanh, abs=np.abs)


def tnum(t):
    """numpy evaluation of a closed term of AdAlgebra.tla"""
    h = t[0]
    if h == "q":
        return np.float64(t[1]) / np.float64(t[2])
    if h == "pi":
        return np.float64(np.pi)
    if h == "neg":
        return -tnum(t[1])
    if h == "fn":
        return _NPFN[t[1]](tnum(t[2]))
    a, b = tnum(t[1]), tnum(t[2])
    if h == "add":
        return a + b
    if h == "sub":
        return a - b
    if h == "mul":
        return a * b
    if h == "div":
        return a / b
    if h == "pow":
        return np.power(a, b)
    raise ValueError(f"unknown term head {h}")


# ---------------------------------------------------------------------------------------------------------
# running a program on real AdArrays
# ---------------------------------------------------------------------------------------------------------
def fl(r):
    return float(Fraction(int(r[0]), int(r[1])))


class Machine:
    def __init__(self, consts, pt):
        import porepy as pp

        self.pp, self.c = pp, consts
        vals = [np.array([fl(x) for x in v], dtype=float) for v in consts["Points"][pt - 1]]
        self.vars = pp.ad.initAdArrays(vals)

    def fun(self, f):
        from functools import partial

        F = self.pp.ad.functions
        p = [fl(x) for x in f["p"]]
        n = f["name"]
        if n == "heaviside":
            return partial(F.heaviside, p[0])
        if n == "heaviside_smooth":
            return lambda v: F.heaviside_smooth(v, eps=p[0])
        if n == "characteristic_function":
            return partial(F.characteristic_function, p[0])
        if n == "safe_power":
            return partial(F.safe_power, p[0], p[1], p[2])
        if n == "l2_norm":
            return partial(F.l2_norm, int(p[0]))
        return getattr(F, n)

    def operand(self, k, i):
        import scipy.sparse as sps

        c = self.c
        if k == "var":
            return "ad", self.vars[i - 1]
        if k == "f":
            e = c["FCat"][i - 1]
            return "f", (int(e["v"][0]) if e["t"] == "int" else fl(e["v"]))
        if k == "arr":
            return "arr", np.array([fl(x) for x in c["ACat"][i - 1]], dtype=float)
        if k == "mat":
            e = c["MCat"][i - 1]
            m = np.array(e["m"], dtype=float)
            return "mat", (sps.csc_matrix(m) if e["fmt"] == "csc" else sps.csr_matrix(m))
        if k == "sl":
            e = c["SCat"][i - 1]
            if e["py"] == "int":
                return "sl", int(e["a"][0])
            if e["py"] == "array":
                return "sl", np.array(e["a"], dtype=int)
            return "sl", slice(e["a"][0], e["a"][1], e["a"][2])
        if k == "fn":
            return "fn", self.fun(c["FnCat"][i - 1])
        return "none", None

    def comb(self, op, A, B):
        ka, a = A
        kb, b = B
        if op in ("leaf", "const", "id"):
            return A
        if op == "none":
            return "none", None
        if op in BIN:
            if ka == "arr" and kb == "ad":
                # numpy would broadcast ndarray <op> AdArray elementwise over objects: the reflected method is the
                # supported call (it is what the AD parser does)
                r = getattr(b, {"add": "__radd__", "sub": "__rsub__", "mul": "__rmul__", "div": "__rtruediv__",
                                "pow": "__rpow__"}[op])(a)
            elif op == "add":
                r = a + b
            elif op == "sub":
                r = a - b
            elif op == "mul":
                r = a * b
            elif op == "div":
                r = a / b
            else:
                r = a ** b
            return "ad", r
        if op == "max":
            return "ad", self.pp.ad.functions.maximum(a, b)
        if op == "neg":
            return "ad", -a
        if op == "matmul":
            return "ad", a @ b
        if op == "slice":
            return "ad", a[b]
        if op == "fn":
            return "ad", b(a)
        raise ValueError(op)

    def run(self, t):
        if len(t) == 5:
            return self.comb(t[0], self.operand(t[1], t[2]), self.operand(t[3], t[4]))
        return self.comb(t[0], self.run(t[1]), self.run(t[2]))


def enc(x):
    """double -> [n, d]; [0, 0]: nan / inf / not within 1e-9 of a rational with denominator <= H / too large"""
    try:
        if not np.isfinite(x):
            return [0, 0]
        r = codec.rat(float(x), H)
    except codec.Inexact:
        return [0, 0]
    return r if abs(r[0]) <= LIMN else [0, 0]


def scaled_err(x, ref):
    if not np.isfinite(x):
        return 2 ** 30
    e = abs(float(x) - float(ref)) / max(1.0, abs(float(ref)))
    return int(min(2 ** 30, math.ceil(e * 1e12)))


def execute(consts, rec):
    """Run one program on real AdArrays -> observation (an exception of the code under test is an observation)."""
    import warnings

    import scipy.sparse as sps

    out = dict(error="", n=0, rows=0, cols=0, val=[], jac=[], err=[])
    with np.errstate(all="ignore"), warnings.catch_warnings():
        warnings.simplefilter("ignore")
        try:
            k, r = Machine(consts, rec["pt"]).run(rec["t"])
            if k != "ad" or not hasattr(r, "val") or not hasattr(r, "jac"):
                raise TypeError(f"result is a {type(r).__name__}, not an AdArray")
            val = np.asarray(r.val, dtype=float)
            jac = r.jac.toarray() if sps.issparse(r.jac) else np.asarray(r.jac, dtype=float)
            if val.ndim != 1 or jac.ndim != 2:
                raise TypeError(f"val.ndim = {val.ndim}, jac.ndim = {jac.ndim}")
        except Exception as e:
            out["error"] = f"{type(e).__name__}: {e}"[:200]
            return out
    out["n"], out["rows"], out["cols"] = int(val.size), int(jac.shape[0]), int(jac.shape[1])
    out["val"] = [enc(x) for x in val]
    out["jac"] = [[enc(x) for x in row] for row in jac]
    out["float"] = dict(val=[float(x) for x in val], jac=[[float(x) for x in row] for row in jac])
    return out


def sym_errors(out, sym):
    """scaled differences between the observed doubles and the numpy evaluation of the required terms;
    None if a term is outside double range (the case is then not judged)"""
    err = []
    for i, j, term in sym:
        try:
            with np.errstate(over="raise", invalid="raise", divide="raise", under="ignore"):
                ref = float(tnum(term))
        except FloatingPointError as e:
            if "overflow" in str(e):
                return None
            # log of a negative number, 0 / 0 ...: the spec emitted a term outside its domain
            raise RuntimeError(f"a required term cannot be evaluated ({e}): the domain analysis of the spec is unsound: {term}")
        if not np.isfinite(ref) or abs(ref) > 1e150:
            return None
        x = out["float"]["val"][i - 1] if j == 0 else out["float"]["jac"][i - 1][j - 1]
        err.append([i, j, scaled_err(x, ref)])
    return err


def _exec_chunk(recs):
    return [execute(CATALOGUE, r) for r in recs]


def _warm(_):
    import time

    import porepy  # noqa: F401
    time.sleep(0.2)
    return os.getpid()


def execute_all(pool, recs):
    size = max(50, (len(recs) + 4 * NPROC - 1) // (4 * NPROC))
    chunks = [recs[i:i + size] for i in range(0, len(recs), size)]
    res = pool.map(_exec_chunk, chunks) if pool is not None and len(recs) > 200 else [_exec_chunk(c) for c in chunks]
    return [o for ch in res for o in ch]


# ---------------------------------------------------------------------------------------------------------
# pretty printing, keys
# ---------------------------------------------------------------------------------------------------------
def show(consts, t):
    def opnd(k, i):
        if k == "var":
            return "xyzw"[i - 1]
        if k == "f":
            e = consts["FCat"][i - 1]
            return str(e["v"][0]) if e["t"] == "int" else repr(fl(e["v"]))
        if k == "arr":
            return "array(" + str([fl(x) for x in consts["ACat"][i - 1]]) + ")"
        if k == "mat":
            e = consts["MCat"][i - 1]
            return f"{e['fmt']}({e['m']})"
        if k == "sl":
            e = consts["SCat"][i - 1]
            return {"int": lambda a: str(a[0]), "array": lambda a: str(list(a)), "slice": lambda a: f"{a[0]}:{a[1]}:{a[2]}"}[e["py"]](e["a"])
        if k == "fn":
            e = consts["FnCat"][i - 1]
            return e["name"] + ("<" + ",".join(str(Fraction(*x)) for x in e["p"]) + ">" if e["p"] else "")
        return ""

    def go(t):
        if len(t) == 5:
            a, b = opnd(t[1], t[2]), opnd(t[3], t[4])
        else:
            a, b = go(t[1]), go(t[2])
        op = t[0]
        if op in ("leaf", "const", "id"):
            return a
        if op in BIN:
            return f"({a} {BIN[op]} {b})"
        if op == "max":
            return f"maximum({a}, {b})"
        if op == "neg":
            return f"(-{a})"
        if op == "matmul":
            return f"({a} @ {b})"
        if op == "slice":
            return f"{a}[{b}]"
        if op == "fn":
            return f"{b}({a})"
        return ""

    return go(t)


def shape_key(consts, t):
    """class of a program: its operations and operand kinds (function names kept, other catalogue indices dropped)"""
    if len(t) == 5:
        def k(kk, i):
            return consts["FnCat"][i - 1]["name"] if kk == "fn" else kk
        return f"{t[0]}({k(t[1], t[2])},{k(t[3], t[4])})"
    return f"{t[0]}({shape_key(consts, t[1])},{shape_key(consts, t[2])})"


def depth(t):
    if len(t) == 5:
        return 0 if t[0] in ("leaf", "const", "none") else 1
    d = max(depth(t[1]), depth(t[2]))
    return d if t[0] == "id" else d + 1


def mats_in(t):
    """catalogue indices of the sparse matrices used by a program"""
    if len(t) == 5:
        return ({t[2]} if t[1] == "mat" else set()) | ({t[4]} if t[3] == "mat" else set())
    return mats_in(t[1]) | mats_in(t[2])


def ops_in(t):
    if len(t) == 5:
        return {t[0]}
    return {t[0]} | ops_in(t[1]) | ops_in(t[2])


# ---------------------------------------------------------------------------------------------------------
# TLC: enumerate, judge
# ---------------------------------------------------------------------------------------------------------
def enum_consts(cfgs, mode="tree", level=2, samples=()):
    cf = [{k: v for k, v in c.items() if k != "name"} for c in cfgs]
    return dict(CATALOGUE, Mode=mode, Cfgs=cf, MaxLevel=level, Samples=list(samples))


def enumerate_programs(ctx, tag, cfgs, traces=None):
    """-> (programs [dict(t, pt, cf, sym, config)], skipped {reason: n})"""
    m, cf = tlc.gen(ctx.work / f"enum_{tag}", "MC_AdAlgebraEnum", "AdAlgebraEnum", enum_consts(cfgs, level=3 if traces else 2),
                    invariants=["Emit", "Laws"])
    kw = dict(simulate=f"num={traces}", depth=6) if traces else {}
    res = ctx.tlc(m, cf, workers=8, allow_violation=False, timeout=3000, heap="4g", **kw)
    progs, skips, seen = [], {}, set()
    for r in res.records:
        if "skip" in r:
            skips[r["skip"]] = skips.get(r["skip"], 0) + 1
            continue
        key = (repr(r["t"]), r["pt"])
        if key in seen:       # simulation may walk to the same program twice
            continue
        seen.add(key)
        r["config"] = cfgs[r["cf"] - 1]["name"]
        progs.append(r)
    return progs, skips


def judge(ctx, cases, tag):
    """one TLC run of J_AdAlgebra on <= BATCH cases (the idiom of Ctx.judge, with a smaller heap)"""
    f = ctx.datafile(f"cases_{tag}.json", cases)
    m, cf = tlc.gen(ctx.work / tag, "MC_J_AdAlgebra", "J_AdAlgebra", CATALOGUE, spec="JSpec", invariants=CLAUSES)
    res = ctx.tlc(m, cf, workers=4, env={"VERIF_CASES": f}, allow_violation=False, timeout=3000, heap="3g")
    return res.records


def judge_all(ctx, progs, outs, prefix=""):
    """-> status per program: 'judged' | 'overflow'"""
    status, cases, idx = [], [], []
    for k, (r, o) in enumerate(zip(progs, outs)):
        err = []
        if not o["error"] and r["sym"]:
            ok = all(i <= o["n"] and i <= o["rows"] and j <= o["cols"] for i, j, _ in r["sym"])
            err = sym_errors(o, r["sym"]) if ok else []
        if err is None:
            status.append("overflow")
            continue
        status.append("judged")
        cases.append(dict(t=r["t"], pt=r["pt"], out=dict(error=o["error"], n=o["n"], rows=o["rows"], cols=o["cols"],
                                                         val=o["val"], jac=o["jac"], err=err)))
        idx.append(k)
    nb = max(1, -(-len(cases) // BATCH))
    if 1000 < len(cases) <= 2 * BATCH:
        nb = max(nb, 3)                      # small runs: three concurrent TLC runs instead of one long one
    size = max(1, -(-len(cases) // nb))      # batches of equal size (<= BATCH) so that concurrent runs finish together
    batches = [(b, cases[b:b + size]) for b in range(0, len(cases), size)]

    def one(arg):
        b, cs = arg
        return b, judge(ctx, cs, f"judge_{len(ctx.tlc_runs)}_{b}")

    if len(batches) <= 1:
        results = [one(b) for b in batches]
    else:
        with ThreadPoolExecutor(max_workers=4) as ex:
            results = list(ex.map(one, batches))
    for b, verdicts in results:
        for v in verdicts:
            k = idx[b + v["case"] - 1]
            r, o = progs[k], outs[k]
            if v.get("tag") == "inconclusive":
                ctx.inconclusive += len(v["val"])
                continue
            if v["clause"] == "InFamily":
                raise RuntimeError(f"enumerator and judge disagree on the family: {r['t']} at point {r['pt']}")
            if len(ctx.violations) >= MAXREPORT:     # a broken rule fails thousands of programs: keep the replay directory small
                ctx.extra["further_violations_not_written"] = ctx.extra.get("further_violations_not_written", 0) + 1
                continue
            expr = show(CATALOGUE, r["t"])
            point = CATALOGUE["Points"][r["pt"] - 1]
            rec = dict(config=r.get("config", ""), t=r["t"], pt=r["pt"], sym=r["sym"], expr=expr, point=point, bad=v.get("bad", []),
                       matrix_formats=sorted({CATALOGUE["MCat"][i - 1]["fmt"] for i in mats_in(r["t"])}), nvars=len(point),
                       observed=dict(error=o["error"], n=o["n"], rows=o["rows"], cols=o["cols"], **o.get("float", {})))
            what = o["error"] if o["error"] else f"entries {v.get('bad', [])} (row, column; column 0 = val) differ from the reference"
            ctx.violation(v["clause"], rec, f"{prefix}{expr} at {[[str(Fraction(*x)) for x in vv] for vv in point]}: {what}")
    return status


def table_check(ctx):
    """Cross-validation of the calculus table of the spec (trusted base): Richardson-extrapolated central differences
    of the table VALUE terms against the table DERIVATIVE term, numpy only.  A mismatch is a design failure (exit 2)."""
    fns = CATALOGUE["FnCat"]
    m, cf = tlc.gen(ctx.work / "table", "MC_AdAlgebraEnum", "AdAlgebraEnum", enum_consts([], mode="table", samples=SAMPLES),
                    invariants=["Emit"])
    res = ctx.tlc(m, cf, workers=2, allow_violation=False, heap="2g")
    done = set()
    for r in res.records:
        if r.get("skip"):
            continue
        f = fns[r["fn"] - 1]
        v = [float(tnum(x)) for x in r["vals"]]
        h = fl(r["h"])
        d1 = (v[2] - v[1]) / (2 * h)
        d2 = (v[4] - v[3]) / h
        fd = (4 * d2 - d1) / 3
        der = float(tnum(r["der"]))
        if abs(fd - der) > 1e-5 * max(1.0, abs(der)):
            raise RuntimeError(f"calculus table of AdAlgebra.tla is inconsistent for {f} at {r['x']}: table derivative {der}, "
                               f"central differences of the table value {fd}")
        done.add(f["name"])
    missing = {f["name"] for f in fns} - done - {"l2_norm"}
    if missing:
        raise RuntimeError(f"calculus table not cross-validated for {missing}")
    return len(res.records)


# ---------------------------------------------------------------------------------------------------------
def run(ctx):
    import multiprocessing as mp

    import porepy  # noqa: F401  (imported before the worker processes are forked)

    ctx.rule = ("TLC enumerates every well-typed AD program of depth <= 2 (thorough: plus random depth 3 programs) over "
                "{+, -, *, /, **, unary -, sparse @, row slicing, maximum, the functions of pp.ad.functions} x operand kinds "
                "{AdArray, float, int, ndarray (both orders), csr/csc matrix, int/slice/index-array row key} at rational points; "
                "every program whose point is in its smooth domain is executed on AdArrays from initAdArrays and judged; "
                "a distinct non-trivial class = a distinct (operations, operand kinds, function names) skeleton of depth >= 1")
    ctx.assumptions = [
        "algebraic entries (rationals with numerator, denominator <= 8192) are compared exactly by TLC after codec.rat (1e-9)",
        "entries whose required value is a symbolic term (transcendental functions, non-integer powers, log factors, folded "
        "rationals beyond 8192) are compared numerically: the term is evaluated by a numpy interpreter that does not import "
        "porepy, and TLC applies the tolerance policy of DESIGN section 8 to |x - ref| / max(1, |ref|): <= 1e-9 passes, "
        "> 1e-6 is a violation, in between is counted as inconclusive",
        "the calculus table (f, f') of AdAlgebra.tla is trusted base; it is cross-validated at every run by Richardson "
        "central differences of its own value terms (numpy only)",
        "smooth domain: kinks (abs, heaviside, l2_norm at 0; maximum at ties; |x| = tol of safe_power / characteristic_function), "
        "0 ** (exponent <= 0), x ** y and c ** x with base <= 0, and arguments for which double arithmetic is ill conditioned "
        "(trigonometric functions beyond |u| <= 3, arcsin/arccos/arctanh beyond |u| <= 0.92, arccosh below 9/8) are excluded "
        "by the spec's static analysis (reasons are counted in coverage.skipped)",
        "ndarray on the left of an AdArray is executed through the reflected method (x.__radd__(a) ...), as the AD parser does; "
        "numpy's own ndarray.__add__ broadcasting over an AdArray is documented as unsupported",
        "RegularizedHeaviside is not covered: its Jacobian is by design that of the regularisation, not the true derivative",
    ]
    import time

    ex_cfgs, sims = plans(ctx.quick)
    T = [time.time()]
    # worker processes are forked before any thread exists
    with mp.get_context("fork").Pool(NPROC) as pool:
        pool.map(_warm, range(NPROC))
        T.append(time.time())
        with ThreadPoolExecutor(max_workers=2 + len(sims)) as ex:
            tab = ex.submit(table_check, ctx)
            jobs = [ex.submit(enumerate_programs, ctx, "d2", ex_cfgs)]
            jobs += [ex.submit(enumerate_programs, ctx, c["name"], [c], n) for c, n in sims]
            enumerated = [j.result() for j in jobs]
            ntab = tab.result()
        progs, skipped = [], {}
        for pr, sk in enumerated:
            progs += pr
            for k, v in sk.items():
                skipped[k] = skipped.get(k, 0) + v
        T.append(time.time())
        outs = execute_all(pool, progs)
        T.append(time.time())
    status = judge_all(ctx, progs, outs)
    T.append(time.time())
    ctx.extra["phase_wall_s"] = dict(zip(["fork_workers", "tlc_enumerate", "execute_programs", "tlc_judge"],
                                         [round(b - a, 1) for a, b in zip(T, T[1:])]))
    per = {}
    for r, o, st in zip(progs, outs, status):
        e = per.setdefault(r["config"], dict(in_domain=0, judged=0, exact=0, symbolic=0, depth3=0))
        e["in_domain"] += 1
        if st != "judged":
            skipped["float_overflow"] = skipped.get("float_overflow", 0) + 1
            continue
        d = depth(r["t"])
        e["judged"] += 1
        e["symbolic" if r["sym"] else "exact"] += 1
        e["depth3"] += d >= 3
        ctx.case(key=shape_key(CATALOGUE, r["t"]), nontrivial=d >= 1)
    # samples: per configuration the middle program among those with two different operations
    byc = {}
    for r, o, st in zip(progs, outs, status):
        if st == "judged" and depth(r["t"]) >= 2 and not o["error"] and len(ops_in(r["t"]) - {"leaf", "const", "none", "id"}) >= 2:
            byc.setdefault(r["config"], []).append((r, o))
    for name, lst in byc.items():
        r, o = lst[(2 * len(lst)) // 3]
        ctx.sample(dict(config=name, expr=show(CATALOGUE, r["t"]), point=CATALOGUE["Points"][r["pt"] - 1],
                        val=o["float"]["val"], jac=o["float"]["jac"], symbolic_entries=len(r["sym"])))
    ctx.extra["depth1_forms_judged"] = sorted({shape_key(CATALOGUE, r["t"]) for r, st in zip(progs, status)
                                               if st == "judged" and depth(r["t"]) == 1})
    ctx.programs = sum(e["judged"] for e in per.values())
    ctx.extra["per_configuration"] = per
    ctx.extra["skipped_outside_smooth_domain"] = skipped
    ctx.extra["table_checks"] = ntab
    ctx.exhaustive = bool(ctx.quick)   # thorough adds sampled depth 3 programs
    ctx.explanation = ("programs = AD expression trees executed on real AdArrays and judged by TLC against the dual-number "
                       "semantics of AdAlgebra.tla; all well-typed depth <= 2 trees of the configurations are enumerated and executed")


def replay(ctx, body):
    rec = body["record"]
    r = dict(t=rec["t"], pt=rec["pt"], sym=rec["sym"], config=rec.get("config", "replay"))
    ctx.case(key="replay")
    ctx.sample(dict(expr=rec.get("expr"), point=rec.get("point")))
    judge_all(ctx, [r], [execute(CATALOGUE, r)], prefix="replayed: ")


# ---------------------------------------------------------------------------------------------------------
# known findings (structural recognisers of the failing classes)
# ---------------------------------------------------------------------------------------------------------
def _m_coo_slice(rec):
    """row slicing in a program over >= 2 variables (initAdArrays then builds COO Jacobians, which cannot be indexed)"""
    return rec["clause"] == "Evaluates" and "slice" in ops_in(rec["t"]) and rec["nvars"] >= 2 \
        and rec["observed"]["error"].startswith("TypeError: 'coo_matrix' object is not subscriptable")


def _m_max_csc(rec):
    """maximum(a, b) in a program that multiplies by a CSC matrix (a.jac is then CSC)"""
    return rec["clause"] == "Evaluates" and "max" in ops_in(rec["t"]) and "csc" in rec["matrix_formats"] \
        and rec["observed"]["error"].startswith("ValueError: Both matrices should be of the specified format csc")


MATCHERS = {"c01_slice_coo_jacobian": _m_coo_slice, "c01_maximum_csc_jacobian": _m_max_csc}
