"""C13 MPSA reproduces linear displacement fields exactly.

spec/ref/MechOracle.tla      exact oracle on integer-coordinate grids: ExactTraction(f) = (2 mu sym(G) + lambda tr(G) I) n_f,
                             ExactBoundDisplacement(f) = u(x_f), admissible boundary-type assignments, model laws
spec/ref/MechOracleEnum.tla  TLC enumerates (grid kind x size x variant x mu x lambda x boundary mode) and, on the exported
                             real grids, every admissible small Neumann set; checks the oracle's laws on reference grids.
                             Grid kinds: "cart" (quads / hexahedra), "simplex" (triangles / tetrahedra) and "prism"
                             (extruded triangle grids: triangular AND quadrilateral faces in one grid, so that the per-face
                             sub-face counts of MPSA differ)
spec/trace/J_MechOracle.tla  JudgeC13: TLC compares every face traction / boundary displacement with the oracle

Python: builds the grid of every selected configuration with the porepy constructors, discretises with pp.Mpsa, applies
stress * u + bound_stress * bc and bound_displacement_cell * u + bound_displacement_face * bc to the data of every
linear field of the family and encodes the doubles.  Black-box oracle: the spec fixes the required output on the
enumerated family; the local (weakly symmetric) systems are not modelled."""
from __future__ import annotations

from . import _mech as M

LEVEL = "exploration"
CLAUSES = ["TractionExact", "TranslationGivesZero", "BoundDisplacementExact"]
KEY = "mechanics"


def _neumann_on_mixed_face_types(v):
    """Mpsa._create_bound_rhs distributes a Neumann face value over the sub-faces with 1 / num_face_nodes looked up
    through `fno_ext = np.tile(fno, nd)`, which is indexed with sub-face-major indices: the node count of ANOTHER face is
    used.  Harmless while all faces have the same number of nodes; on a grid with mixed face types (prisms: 3 and 4
    nodes) the traction is inexact as soon as there is a Neumann (or Robin) face.  Exactly that class: the grid has
    faces with different node counts, at least one Neumann face, the code did not raise, clause TractionExact."""
    return (v["clause"] == "TractionExact" and len(set(v["face_sizes"])) > 1 and len(v["neu"]) >= 1 and not v["error"])


MATCHERS = {"mpsa_neumann_mixed_face_types": _neumann_on_mixed_face_types}


def discretize(g, mu, lam, neu, inverter, partition):
    import numpy as np
    import porepy as pp

    bf, dirf, neu0, sgn = M.boundary_setup(g, neu)
    prm = {"fourth_order_tensor": pp.FourthOrderTensor(mu * np.ones(g.num_cells), lam * np.ones(g.num_cells)),
           "bc": M.vector_bc(g, dirf, neu0), "inverter": inverter}
    if partition:
        prm["partition_arguments"] = dict(partition)
    data = pp.initialize_data({}, KEY, prm)
    pp.Mpsa(KEY).discretize(g, data)
    return data[pp.DISCRETIZATION_MATRICES][KEY], dirf, neu0, sgn


def execute(rec):
    """rec: recipe, mu, lam, neu (1-based faces), inverter, partition -> (sub-case for TLC, exported grid)"""
    g = M.build(rec["recipe"])
    sub = dict(mu=rec["mu"], lam=rec["lam"], neu=sorted(rec["neu"]), error="", fields=[])
    nd = g.dim
    flds = M.fields_for(nd, rec.get("few", False))
    try:
        mats, dirf, neu0, sgn = discretize(g, rec["mu"], rec["lam"], rec["neu"], rec["inverter"], rec.get("partition"))
        for fld in flds:
            uc, bc = M.linear_data(g, rec["mu"], rec["lam"], fld, dirf, neu0, sgn)
            trac = mats["stress"] @ uc + mats["bound_stress"] @ bc
            ub = mats["bound_displacement_cell"] @ uc + mats["bound_displacement_face"] @ bc
            sub["fields"].append(dict(G=fld["G"], u0=fld["u0"], ucq=M.qtable(uc, nd), bcq=M.qtable(bc, nd),
                                      tq=M.qtable(trac, nd), tm=M.mtable(trac, nd), uq=M.qtable(ub, nd), um=M.mtable(ub, nd)))
    except Exception as e:  # an exception of the code under test on an in-family input is an observation
        sub["error"] = f"{type(e).__name__}: {e}"[:200]
        sub["fields"] = [dict(G=f["G"], u0=f["u0"]) for f in flds]
    return sub, M.G.export(g)


def face_sizes(g):
    """the node counts of the faces of an exported grid ([3, 4]: a grid with mixed face types, e.g. prisms)"""
    return sorted({len(f) for f in g["fn"]})


def size_of(recipe):
    b = recipe["base"]
    return [len(a) - 1 for a in b["axes"]] + ([len(b["zs"]) - 1] if "zs" in b else [])


def class_key(rec, g):
    r = rec["recipe"]
    return (r["base"]["kind"], g["dim"], len(g["cf"]), tuple(face_sizes(g)), tuple(o["op"] for o in r.get("ops", [])),
            rec["mu"], rec["lam"], min(len(rec["neu"]), 3), rec["inverter"], bool(rec.get("partition")))


def judge(ctx, recs, prefix=""):
    done = [execute(r) for r in recs]
    subs, exports = [d[0] for d in done], [d[1] for d in done]

    def viol(i, clause):
        r = recs[i]
        ctx.violation(clause, dict(r, error=subs[i]["error"], face_sizes=face_sizes(exports[i])),
                      f"{prefix}{r['recipe']['base']['kind']} n={size_of(r['recipe'])} "
                      f"ops={[o['op'] for o in r['recipe'].get('ops', [])]} mu={r['mu']} lam={r['lam']} neu={r['neu']} "
                      f"inverter={r['inverter']} partition={r.get('partition')} {subs[i]['error']}")

    outside, incon = M.judge(ctx, recs, subs, exports, "JudgeC13", viol)
    for i, (r, s, g) in enumerate(zip(recs, subs, exports)):
        if i in outside:
            ctx.extra["outside_family"] = ctx.extra.get("outside_family", 0) + 1
            continue
        ctx.case(key=class_key(r, g), nontrivial=len(g["cf"]) > 1 or bool(r["neu"]), n=len(s["fields"]))
    return subs, outside


def plan(ctx):
    """configurations enumerated by TLC -> executable records (grid recipes and Neumann sets fixed)"""
    rng = ctx.rng
    q = ctx.quick
    if q:
        sizes = [(1, 1), (2, 1), (2, 2), (3, 2), (1, 1, 1), (2, 1, 1)]
    else:
        sizes = [(a, b) for a in (1, 2, 3) for b in (1, 2, 3)] + [(a, b, c) for a in (1, 2) for b in (1, 2) for c in (1, 2)]
    # triangular prisms (faces with 3 and with 4 nodes): base nx x ny squares split in triangles, 1-2 layers -> 2..8 cells
    prisms = [(1, 1, 1), (2, 1, 2)] if q else [(1, 1, 1), (2, 1, 1), (1, 1, 2), (2, 1, 2)]
    fam = M.Family(ctx, sizes, [1, 2], [0, 1, 3], max_neu=2, prism_sizes=prisms)
    cfgs, recipes, grids, neusets = fam.configs, fam.recipes, fam.grids, fam.neusets
    ctx.extra["configurations_enumerated"] = len(cfgs)
    ctx.extra["neumann_sets_enumerated"] = sum(len(v) for v in neusets.values())
    gi = {k: i for i, k in enumerate(fam.keys)}
    recs = []
    lame = [(m, l) for m in (1, 2) for l in (0, 1, 3)]
    for j, c in enumerate(cfgs):
        k = M.grid_key(c)
        dim = len(c["n"])
        li = lame.index((c["mu"], c["lam"]))
        # Lame pairs per (grid, boundary mode), rotating through the six pairs: quick one, thorough two
        if li not in ({gi[k] % 6} if q else {gi[k] % 6, (gi[k] + 2) % 6}):
            continue
        base = dict(recipe=recipes[k], mu=c["mu"], lam=c["lam"], inverter="python", partition=None, few=q)
        if c["bc"] == "dir":
            recs.append(dict(base, neu=[]))
            continue
        sets = [s for s in neusets[k] if s]
        chosen = M.pick(sets, 1, rng)
        if dim == 2:
            # 2D: any mix is admissible - add a seeded random mix with many Neumann faces
            bf = [int(f) + 1 for f in grids[k].get_all_boundary_faces()]
            chosen.append(sorted(f for f in bf if rng.random() < 0.5))
        else:
            # 3D: a maximal set of Neumann faces no two of which share an edge (greedy; TLC judges admissibility)
            chosen.append(greedy_no_shared_edge(grids[k], rng))
        for s in chosen:
            recs.append(dict(base, neu=s))
    if not q:
        # the same discretisations through the split path and with the other local inverter
        extra = []
        for i, r in enumerate(recs):
            if i % 4 == 0:
                extra.append(dict(r, inverter="numba"))
            if i % 4 == 2:
                extra.append(dict(r, partition={"num_subproblems": 2 + i % 3}))
            if i % 12 == 1:
                extra.append(dict(r, partition={"max_memory": 4000}, inverter="numba"))
        # larger grids, on which the sub-problems of the split path really differ from the whole grid
        for n, variant in [((5, 3), "plain"), ((4, 4), "perturbed"), ((3, 2, 2), "plain"), ((3, 2, 2), "perturbed")]:
            for kind in ("cart", "simplex"):
                if kind == "simplex" and len(n) == 3:
                    n = (2, 2, 2)
                rcp = M.recipe_for(kind, list(n), variant, rng)
                g = M.build(rcp)
                for part in ({"num_subproblems": 3}, {"max_memory": 3000 if len(n) == 2 else 30000}):
                    extra.append(dict(recipe=rcp, mu=2, lam=1, inverter="python", partition=part, neu=[], few=False))
                    extra.append(dict(recipe=rcp, mu=1, lam=3, inverter="numba", partition=part, few=False,
                                      neu=greedy_no_shared_edge(g, rng)[:: 2]))
        # a larger prism grid (24 cells), whole and through the split path
        for variant in ("plain", "perturbed"):
            rcp = M.recipe_for("prism", [3, 2, 2], variant, rng)
            g = M.build(rcp)
            extra.append(dict(recipe=rcp, mu=2, lam=1, inverter="python", partition=None, neu=[], few=False))
            extra.append(dict(recipe=rcp, mu=1, lam=3, inverter="numba", partition={"num_subproblems": 3}, neu=[], few=False))
            extra.append(dict(recipe=rcp, mu=1, lam=1, inverter="python", partition={"max_memory": 30000}, few=False,
                              neu=greedy_no_shared_edge(g, rng)[:: 2]))
        recs += extra
    return recs


def greedy_no_shared_edge(g, rng):
    fn = g.face_nodes.tocsc()
    bf = [int(f) for f in g.get_all_boundary_faces()]
    rng.shuffle(bf)

    def edges(f):
        ns = [int(x) for x in fn.indices[fn.indptr[f]:fn.indptr[f + 1]]]
        if g.dim == 2:
            return set()
        return {frozenset((ns[i], ns[(i + 1) % len(ns)])) for i in range(len(ns))}

    sel, used = [], set()
    for f in bf:
        e = edges(f)
        if not (e & used) and (g.dim == 3 or rng.random() < 0.5):
            sel.append(f + 1)
            used |= e
    return sorted(sel)


def run(ctx):
    ctx.rule = ("TLC enumerates (Cartesian | structured simplex grid | extruded triangle grid = triangular prisms, faces with 3 "
                "and 4 nodes) x (cells per direction <= 3 in 2D, <= 2 in 3D; prisms: 1x1 / 2x1 squares of two triangles, 1-2 "
                "layers) x (plain | lattice-perturbed / sheared with planar faces; prisms: perturbed base, non-uniform layer "
                "heights) x mu in {1,2} x lambda in {0,1,3} x (all-Dirichlet | mixed); for "
                "the mixed mode TLC enumerates the admissible Neumann sets of <= 2 faces of the real grid (3D: no shared edge) "
                "and the harness adds one seeded larger set.  Each configuration is discretised with pp.Mpsa and applied to "
                "every linear field of the family (translations, rotations, strains).  One evaluation = one (configuration, "
                "field); classes = (kind, dim, #cells, face node counts, operations, mu, lambda, #Neumann, inverter, split); non-trivial = "
                "several cells or a Neumann face")
    ctx.assumptions = ["integer node coordinates |x| <= 12, planar faces, valid cells (ValidE decided by TLC on the exported grid)",
                       "constant isotropic stiffness with integer Lame parameters",
                       "quick: inverter='python', one sub-problem; thorough adds inverter='numba' and the split path "
                       "(partition_arguments num_subproblems / max_memory)",
                       "doubles: agreement within 1e-9 with the exact rational, violation beyond 1e-6 max(1,|ref|), in between "
                       "inconclusive (DESIGN section 8)",
                       "black-box oracle: the local-system mechanism of MPSA is not modelled"]
    recs = plan(ctx)
    ctx.extra["discretisations"] = len(recs)
    subs, outside = judge(ctx, recs)
    for r, c in list(zip(recs, subs))[:: max(1, len(recs) // 5)]:
        f = c["fields"][-1]
        ctx.sample(dict(recipe=r["recipe"]["base"], ops=[o["op"] for o in r["recipe"].get("ops", [])], mu=r["mu"], lam=r["lam"],
                        neu=r["neu"], G=f["G"], traction_face1=(f.get("tq") or [None])[0]))
    ctx.exhaustive = False  # boundary assignments and (quick) Lame pairs are sampled


def replay(ctx, body):
    rec = body["record"]
    r = {k: rec[k] for k in ("recipe", "mu", "lam", "neu", "inverter")}
    r["partition"] = rec.get("partition")
    r["few"] = rec.get("few", False)
    judge(ctx, [r], prefix="replayed: ")
    ctx.sample(dict(recipe=r["recipe"]["base"], neu=r["neu"]))
