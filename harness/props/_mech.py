"""Shared driver code for C13 (MPSA) / C15 (Biot coupling) / C16 (TPSA).

Nothing here decides a property.  The functions turn the configurations enumerated by TLC
(spec/ref/MechOracleEnum.tla) into porepy grids (recipes of harness/props/_grids.py, so that a case is
rebuilt exactly on replay), drive the real discretisations, encode their doubles for TLC and dispatch the
verdict records of spec/trace/J_MechOracle.tla."""
from __future__ import annotations

import math
import os

# The local systems are tiny: BLAS threads only fight with the other processes on the machine (a 48-cell
# tetrahedral grid takes 100 s with oversubscribed threads and 0.4 s with one).  Must be set before numpy loads.
for _v in ("OPENBLAS_NUM_THREADS", "OMP_NUM_THREADS", "MKL_NUM_THREADS"):
    os.environ.setdefault(_v, "1")

import warnings  # noqa: E402

import numpy as np  # noqa: E402

from .. import codec, tlc  # noqa: E402
from . import _grids as G  # noqa: E402

MAXC = 12          # node coordinates stay within -MAXC..MAXC
MICRO = 10 ** 6
CLIP = 10 ** 9

# displacement gradients of the family (3 x 3 integer matrices; 2D grids use those acting in the plane) with the
# constant part u0: translations, rigid rotations (skew), uniaxial / shear / general strains, dilation
FIELDS = [
    dict(G=[[0, 0, 0], [0, 0, 0], [0, 0, 0]], u0=[1, -2, 0]),
    dict(G=[[0, 0, 0], [0, 0, 0], [0, 0, 0]], u0=[3, 1, -2]),
    dict(G=[[0, -1, 0], [1, 0, 0], [0, 0, 0]], u0=[1, 0, 0]),
    dict(G=[[1, 0, 0], [0, 0, 0], [0, 0, 0]], u0=[0, 0, 0]),
    dict(G=[[0, 1, 0], [1, 0, 0], [0, 0, 0]], u0=[0, 2, 0]),
    dict(G=[[1, 2, 0], [0, -1, 0], [0, 0, 0]], u0=[-1, 0, 0]),
    dict(G=[[2, 1, 0], [3, 1, 0], [0, 0, 0]], u0=[1, 1, 0]),
    dict(G=[[0, -1, 2], [1, 0, -3], [-2, 3, 0]], u0=[0, 1, 2]),
    dict(G=[[1, 0, 0], [0, 1, 0], [0, 0, 1]], u0=[0, 0, 1]),
    dict(G=[[1, 2, 0], [0, -1, 1], [3, 0, 2]], u0=[1, 2, 0]),
    dict(G=[[0, 1, 1], [1, 0, 1], [1, 1, 0]], u0=[0, 0, 0]),
]


def fields_for(dim, few=False):
    """the fields of the family for a grid of dimension dim (few: the quick tier's subset - a translation, a
    rotation, uniaxial / general strains)"""
    if dim == 3:
        fl = list(FIELDS)
        return [fl[i] for i in (1, 2, 7, 8, 9, 10)] if few else fl
    fl = [f for f in FIELDS if all(f["G"][2][k] == 0 and f["G"][k][2] == 0 for k in range(3)) and f["u0"][2] == 0] + \
         [dict(G=[[0, 0, 0], [0, 0, 0], [0, 0, 0]], u0=[3, 1, 0])]
    return [fl[i] for i in (0, 1, 2, 4, 5)] if few else fl


# ---------------------------------------------------------------------------------------------------
# numbers
def encq(x, tol=1e-9):
    """double -> [n, d]: the rational with d <= 10^4 within tol of x ([0, 0]: there is none)"""
    x = float(x)
    if not math.isfinite(x):
        return [0, 0]
    try:
        return codec.rat(x, maxden=10 ** 4, tol=tol)
    except codec.Inexact:
        return [0, 0]


def encm(x):
    """double -> round(x * 10^6), clipped to +-10^9 (see MechOracle.Far)"""
    x = float(x)
    if not math.isfinite(x):
        return CLIP
    return int(max(-CLIP, min(CLIP, round(x * MICRO))))


def qtable(v, nd, tol=1e-9):
    """interleaved vector (component fastest) -> per face / cell a 3-vector of rationals (2D: third component 0)"""
    a = np.asarray(v, dtype=float).reshape((-1, nd))
    pad = [[0, 1]] * (3 - nd)
    return [[encq(x, tol) for x in row] + pad for row in a]


def mtable(v, nd):
    a = np.asarray(v, dtype=float).reshape((-1, nd))
    return [[encm(x) for x in row] for row in a]


# ---------------------------------------------------------------------------------------------------
# grids
def _simplex_dets(g):
    """signed (dim! x volume) of every simplex cell, from the node coordinates"""
    cn = g.cell_nodes().tocsc()
    out = []
    for c in range(g.num_cells):
        idx = cn.indices[cn.indptr[c]:cn.indptr[c + 1]]
        p = g.nodes[:g.dim, idx]
        out.append(float(np.linalg.det((p[:, 1:] - p[:, :1]))))
    return np.array(out)


def prism_recipe(n, variant, rng):
    """triangular prisms: the structured triangle grid n[0] x n[1] (2 n[0] n[1] triangles) extruded over n[2] layers with
    pp.grid_extrusion.extrude_grid - cells with triangular (bottom / top) AND quadrilateral (vertical) faces.
    Recipe: base = dict(kind="triprism", axes = the 2D tensor axes, zs = the layer coordinates), ops = operations on the
    2D BASE grid before the extrusion (vertical faces stay planar rectangles).  plain: unit spacing; perturbed: base scaled
    by 3 and lattice-perturbed (triangles keep their orientation, not too thin), non-uniform integer layer heights."""
    axes = [list(range(k + 1)) for k in n[:2]]
    if variant == "plain":
        return dict(base=dict(kind="triprism", axes=axes, zs=list(range(n[2] + 1))))
    hs = [rng.randint(1, 3) for _ in range(n[2])] if n[2] > 1 else [rng.randint(2, 3)]
    if n[2] > 1 and len(set(hs)) == 1:
        hs[-1] = hs[-1] % 3 + 1
    base = dict(kind="triprism", axes=axes, zs=list(np.cumsum([0] + hs).tolist()))
    s = 3
    g0 = _triangle_base(dict(base=base, ops=[dict(op="scale", k=s)]))
    d0 = _simplex_dets(g0)
    for _ in range(200):
        d = [[(rng.randint(-1, 1) if k < 2 and rng.random() < 0.7 else 0) for k in range(3)] for _ in range(g0.num_nodes)]
        r = dict(base=base, ops=[dict(op="scale", k=s), dict(op="perturb", d=d)])
        d1 = _simplex_dets(_triangle_base(r))
        if np.all(d1 * np.sign(d0) >= 0.3 * np.abs(d0)):
            return r
    return dict(base=base, ops=[dict(op="scale", k=s)])


def _triangle_base(recipe):
    """the 2D triangle grid of a "triprism" recipe with the recipe's operations applied (no geometry computed)"""
    b = recipe["base"]
    g, _i = G.build(dict(base=dict(kind="simplex", axes=b["axes"]), ops=recipe.get("ops", [])))
    return g


def _triprism(recipe):
    import porepy as pp

    g2 = _triangle_base(recipe)
    g2.compute_geometry()
    g, _cm, _fm = pp.grid_extrusion.extrude_grid(g2, np.asarray(recipe["base"]["zs"], dtype=float))
    return g


def recipe_for(kind, n, variant, rng):
    """recipe (see _grids.build; kind "prism": prism_recipe) of the grid of a configuration; all random choices are
    stored explicitly"""
    if kind == "prism":
        return prism_recipe(list(n), variant, rng)
    dim = len(n)
    axes = [list(range(k + 1)) for k in n]
    base = dict(kind="tensor", axes=axes, cart=True) if kind == "cart" else dict(kind="simplex", axes=axes)
    if variant == "plain":
        return dict(base=base)
    if kind == "cart" and dim == 3:
        # hexahedra: keep the faces planar - non-uniform tensor spacing followed by an integer shear
        axes = [list(np.cumsum([0] + [rng.randint(1, 2) for _ in range(k)]).tolist()) for k in n]
        base = dict(kind="tensor", axes=axes, cart=True)
        for _ in range(20):
            r = dict(base=base, ops=[dict(op="affine", A=rng.choice(G.SHEARS_3D))])
            g, _i = G.build(r)
            if np.all(np.abs(g.nodes) <= MAXC):
                return r
        return dict(base=base)
    # lattice perturbation of the grid scaled by s (simplices stay valid: orientation kept, not too thin)
    s = 3 if dim == 2 else 4
    g0, _i = G.build(dict(base=base, ops=[dict(op="scale", k=s)]))
    d0 = _simplex_dets(g0) if kind == "simplex" else None
    for _ in range(200):
        d = [[(rng.randint(-1, 1) if k < dim and rng.random() < 0.7 else 0) for k in range(3)] for _ in range(g0.num_nodes)]
        r = dict(base=base, ops=[dict(op="scale", k=s), dict(op="perturb", d=d)])
        if kind == "cart":
            return r
        g, _i = G.build(r)
        d1 = _simplex_dets(g)
        if np.all(d1 * np.sign(d0) >= 0.3 * np.abs(d0)):
            return r
    return dict(base=base, ops=[dict(op="scale", k=s)])


def build(recipe):
    if recipe["base"]["kind"] == "triprism":
        g = _triprism(recipe)
    else:
        g, _info = G.build(recipe)
    with warnings.catch_warnings():
        warnings.simplefilter("ignore")
        g.compute_geometry()
    return g


def grid_key(cfg):
    return (cfg["kind"], tuple(cfg["n"]), cfg["variant"])


# ---------------------------------------------------------------------------------------------------
# TLC enumerations (spec -> code)
class Family:
    """what TLC enumerated: the configurations, and per grid (kind, n, variant) the recipe, the porepy grid and the
    admissible Neumann sets of at most max_neu faces"""

    def __init__(self, ctx, sizes, mus, lams, bcmodes=("dir", "mix"), max_neu=2, with_sets=True, coefs=None, alphacat=(),
                 roll_modes=(), prism_sizes=()):
        """prism_sizes: the (nx, ny, layers) of the third grid kind "prism" (empty: the kind is not enumerated)"""
        rng = ctx.rng
        self.keys = [(k, tuple(n), v) for k in ("cart", "simplex") for n in sorted(sizes, key=lambda t: (len(t), t))
                     for v in ("plain", "perturbed")]
        # the prism grids come last: the random choices made for the other kinds do not depend on them
        self.keys += [("prism", tuple(n), v) for n in sorted(prism_sizes) for v in ("plain", "perturbed")]
        self.recipes = {k: recipe_for(k[0], list(k[1]), k[2], rng) for k in self.keys}
        self.grids = {k: build(self.recipes[k]) for k in self.keys}
        exported = [G.export(self.grids[k]) for k in self.keys] if with_sets else []
        consts = dict(Kinds={"cart", "simplex"} | ({"prism"} if prism_sizes else set()), Sizes={tuple(n) for n in sizes},
                      PrismSizes={tuple(n) for n in prism_sizes}, Variants={"plain", "perturbed"},
                      Mus=set(mus), Lams=set(lams), BcModes=set(bcmodes), Fields=[f_["G"] for f_ in FIELDS],
                      Coefs=tlc.Raw("{" + ", ".join(tlc.tla(c) for c in (coefs or [dict(alpha=0, p=0)])) + "}"),
                      AlphaCat=[list(map(list, a)) for a in alphacat],
                      Grids=exported, MaxNeu=max_neu, RollModes=set(roll_modes))  # inline: a genuine constant, so TLC evaluates AdmSets once
        m, cf = tlc.gen(ctx.work / f"enum{len(ctx.tlc_runs)}", "MC_MechEnum", "MechOracleEnum", consts, spec="Spec",
                        invariants=["Emit", "LawsCfg", "LawFamily"])
        res = ctx.tlc(m, cf, workers=4, allow_violation=False)
        self.configs = [r for r in res.records if "kind" in r]
        self.configs.sort(key=lambda r: (len(r["n"]), r["kind"], r["n"], r["variant"], r["mu"], r["lam"], r["bc"],
                                         r["coef"]["alpha"], r["coef"]["p"]))
        self.neusets = {k: [] for k in self.keys}    # fully Neumann face sets
        self.rollsets = {k: [] for k in self.keys}   # component-wise assignments: dict(mode, nc=[[face, component], ...])
        for r in res.records:
            if "neu" in r and r.get("mode", "face") == "face":
                self.neusets[self.keys[r["g"] - 1]].append(list(r["neu"]))
            elif "nc" in r:
                self.rollsets[self.keys[r["g"] - 1]].append(dict(mode=r["mode"], nc=[list(x) for x in r["nc"]]))
        for k in self.neusets:
            self.neusets[k].sort(key=lambda s: (len(s), s))
            self.rollsets[k].sort(key=lambda d: (d["mode"], len(d["nc"]), d["nc"]))


# ---------------------------------------------------------------------------------------------------
# boundary data of a linear field
def boundary_setup(g, neu):
    """(all boundary faces, Dirichlet faces, 0-based Neumann faces, outward sign per face)"""
    bf = g.get_all_boundary_faces()
    neu0 = np.array(sorted(int(f) - 1 for f in neu), dtype=int)
    dirf = np.setdiff1d(bf, neu0)
    sgn = np.zeros(g.num_faces)
    cf = g.cell_faces.tocsr()
    for f in bf:
        sgn[f] = cf.data[cf.indptr[f]]
    return bf, dirf, neu0, sgn


def linear_data(g, mu, lam, fld, dirf, neu0, sgn):
    """cell values and boundary values (Dirichlet: u(x_f); Neumann: traction w.r.t. the outward normal) of
    u = u0 + G x, as interleaved vectors - inputs of the code, computed from the grid's own geometry"""
    nd = g.dim
    Gm = np.asarray(fld["G"], dtype=float)[:nd, :nd]
    u0 = np.asarray(fld["u0"], dtype=float)[:nd]
    uc = u0[:, None] + Gm @ g.cell_centers[:nd]
    uf = u0[:, None] + Gm @ g.face_centers[:nd]
    sig = mu * (Gm + Gm.T) + lam * np.trace(Gm) * np.eye(nd)
    T = sig @ g.face_normals[:nd]
    bcv = np.zeros((nd, g.num_faces))
    bcv[:, dirf] = uf[:, dirf]
    if neu0.size:
        bcv[:, neu0] = T[:, neu0] * sgn[neu0]
    return uc.ravel("F"), bcv.ravel("F")


def vector_bc(g, dirf, neu0, nc=()):
    """Dirichlet on dirf, Neumann on neu0; nc = [[face, component], ...] (1-based): further components set to Neumann"""
    import porepy as pp

    faces = np.concatenate([dirf, neu0]).astype(int)
    cond = ["dir"] * len(dirf) + ["neu"] * len(neu0)
    bc = pp.BoundaryConditionVectorial(g, faces, cond)
    for f, k in nc:
        bc.is_dir[k - 1, f - 1] = False
        bc.is_neu[k - 1, f - 1] = True
    return bc


# ---------------------------------------------------------------------------------------------------
# judging
def group_by_grid(recs, subs, exports):
    """one TLC case per grid: [dict(g, subs)], and the (case, sub) -> record index map"""
    import json

    cases, index, where = [], [], {}
    for i, (r, s, g) in enumerate(zip(recs, subs, exports)):
        k = json.dumps(r["recipe"], sort_keys=True)
        if k not in where:
            where[k] = len(cases)
            cases.append(dict(g=g, subs=[]))
            index.append([])
        cases[where[k]]["subs"].append(s)
        index[where[k]].append(i)
    return cases, index


def run_judge(ctx, cases, invariant, workers=4):
    """one TLC run of J_MechOracle (its own MSpec: one JSON file per case, see the module) -> verdict / Tell records"""
    import json

    tag = f"{invariant}_{len(ctx.tlc_runs)}"
    d = ctx.work / tag / "cases"
    d.mkdir(parents=True, exist_ok=True)
    for i, c in enumerate(cases, 1):
        with open(d / f"{i}.json", "w") as f:
            json.dump(c, f)
    empty = ctx.datafile(f"empty_{tag}.json", [])
    m, cf = tlc.gen(ctx.work / tag, "MC_J_MechOracle", "J_MechOracle", dict(CaseDir=str(d), NumCases=len(cases)),
                    spec="MSpec", invariants=[invariant])
    res = ctx.tlc(m, cf, workers=workers, env={"VERIF_CASES": empty}, allow_violation=False, timeout=1800)
    return res.records


def judge(ctx, recs, subs, exports, invariant, on_violation, batch=120, workers=4):
    """run J_MechOracle.<invariant>; returns (outside, inconclusive) sets of record indices"""
    cases, index = group_by_grid(recs, subs, exports)
    outside, incon = set(), set()
    i0 = 0
    while i0 < len(cases):
        i1, n = i0, 0
        while i1 < len(cases) and (n == 0 or n + len(cases[i1]["subs"]) <= batch):
            n += len(cases[i1]["subs"])
            i1 += 1
        recs_ = run_judge(ctx, cases[i0:i1], invariant, workers)
        for v in recs_:
            c = i0 + v["case"] - 1
            ids = [index[c][v["sub"] - 1]] if "sub" in v else index[c]
            if v.get("tag") == "outside":
                outside.update(ids)
            elif v.get("tag") == "inconclusive":
                incon.update(ids)
                ctx.inconclusive += 1
            elif "clause" in v:
                on_violation(ids[0], v["clause"])
        i0 = i1
    return outside, incon


def pick(seq, k, rng):
    seq = list(seq)
    if len(seq) <= k:
        return seq
    return [seq[i] for i in sorted(rng.sample(range(len(seq)), k))]
