"""C33 Tessellation overlaps partition cell measures.

spec/ref/Tessellation.tla     1D overlap reference, exact measures and sums, catalogue of lattice triangulations
spec/ref/TessEnum.tla         TLC enumerates pairs of partitions of [0,N] / pairs of catalogue triangulations
spec/trace/J_Tessellation.tla clauses NonNegative, CellSums, OverlapRef (1D), AveragedRows, IntegratedCols judged
                              by TLC on the outputs of pp.intersections.line_tessellation / triangulations and
                              pp.match_grids.match_1d / match_2d

Python only: embeds the 1D partitions in space (integer origin, integer direction of integer length, cell
order and orientation drawn by the seeded rng and recorded), builds point / index arrays and grids, calls the
real functions, converts doubles to [n, d] rationals and dispatches TLC's verdict records.  A second 2D
family (Delaunay triangulations of random lattice node sets of a rectangle) is generated in Python; TLC
checks that it is inside the family (positive exact areas, equal total area) before judging it."""
from __future__ import annotations

import numpy as np

from .. import codec, tlc

LEVEL = "model_checking"
CLAUSES = ["InFamily", "Unfit", "Returns", "Exact", "ShapeOK", "NonNegative", "CellSums", "OverlapRef", "AveragedRows",
           "IntegratedCols"]
MAXDEN = 10 ** 5
CAP = 20
WORKERS = 6


def _wrong_entries(v):
    """exact comparison of the match_2d matrix named by the clause with the overlaps that triangulations()
    computed on the lattice coordinates: list of (i, j, got, ref, shared_edge) for the entries that differ;
    shared_edge = the two triangles have collinear edges overlapping in a piece of positive length"""
    from fractions import Fraction as F

    t1, t2, out = v["in"]["t1"], v["in"]["t2"], v["out"]
    mat = out["avg"] if v["clause"] == "AveragedRows" else out["integ"]

    def area(t):
        return F(abs((t[1][0] - t[0][0]) * (t[2][1] - t[0][1]) - (t[1][1] - t[0][1]) * (t[2][0] - t[0][0])), 2)

    def edge_overlap(a, b, c, d):  # collinear with an overlap of positive length
        u = (b[0] - a[0], b[1] - a[1])
        if u[0] * (d[1] - c[1]) - u[1] * (d[0] - c[0]) or u[0] * (c[1] - a[1]) - u[1] * (c[0] - a[0]):
            return False
        tc, td = ((q[0] - a[0]) * u[0] + (q[1] - a[1]) * u[1] for q in (c, d))
        return max(0, min(tc, td)) < min(u[0] ** 2 + u[1] ** 2, max(tc, td))

    w = {}
    for t in out["ov"]:
        w[(t["i"], t["j"])] = w.get((t["i"], t["j"]), 0) + F(*t["w"])
    wrong = []
    for i in range(len(t1)):
        for j in range(len(t2)):
            ref = w.get((i + 1, j + 1), F(0)) / (area(t1[i]) if v["clause"] == "AveragedRows" else area(t2[j]))
            got = F(*mat[i][j])
            if got != ref:
                shared = any(edge_overlap(t1[i][k], t1[i][(k + 1) % 3], t2[j][m], t2[j][(m + 1) % 3])
                             for k in range(3) for m in range(3))
                wrong.append((i, j, got, ref, shared))
    return wrong


def _touching_pair_counted(v):
    """match_2d reports a positive matrix entry for a pair of triangles whose exact overlap has zero area but
    which touch along a common piece of edge, while pp.intersections.triangulations on the lattice coordinates
    is right (the centring / projection inside match_2d makes the touching edges collinear only up to rounding
    and shapely/GEOS then returns one whole triangle as the intersection).  Recognised structurally: every wrong
    matrix entry belongs to such a pair."""
    if v["clause"] not in ("AveragedRows", "IntegratedCols") or v["in"]["kind"] != "tri":
        return False
    wrong = _wrong_entries(v)
    return bool(wrong) and all(ref == 0 and shared for _, _, _, ref, shared in wrong)


def _shared_edge_pair_lost(v):
    """Same root cause, other manifestation: for a pair of triangles that overlap in a region of positive area
    AND have collinear edges sharing a piece, shapely/GEOS returns only points (not a Polygon) after the
    rounding of the projection, and match_2d drops the pair (entry 0 instead of the overlap); the overlap may
    at the same time be credited to the neighbour that only touches.  Recognised structurally: every wrong
    entry belongs to a pair with a shared piece of edge and is either a lost overlap (entry 0, exact overlap
    positive) or a touching pair counted (exact overlap 0); at least one overlap is lost."""
    if v["clause"] not in ("AveragedRows", "IntegratedCols") or v["in"]["kind"] != "tri":
        return False
    wrong = _wrong_entries(v)
    return (bool(wrong) and all(shared and (ref == 0 or got == 0) for _, _, got, ref, shared in wrong)
            and any(got == 0 and ref > 0 for _, _, got, ref, _ in wrong))


MATCHERS = {"match2d_touching_pair_counted": _touching_pair_counted,
            "match2d_shared_edge_pair_lost": _shared_edge_pair_lost}
# integer directions of integer length
DIRS = [([1, 0, 0], 1), ([0, 1, 0], 1), ([0, 0, 1], 1), ([-1, 0, 0], 1), ([2, 1, 2], 3), ([1, -2, 2], 3),
        ([3, 4, 0], 5), ([0, -3, 4], 5), ([2, 3, 6], 7), ([-6, 2, 3], 7)]
ORIGINS = [[0, 0, 0], [1, -2, 3], [-4, 0, 2]]


def _rat_matrix(m):
    return codec.rmat(np.asarray(m.toarray(), dtype=float), MAXDEN)


def _tuples(lst):
    return [dict(i=int(i) + 1, j=int(j) + 1, w=codec.rat(float(w), MAXDEN)) for i, j, w in lst]


def _guard(fn, raw=None):
    empty = dict(ok=False, ov=[], avg=[], integ=[])
    try:
        ov, avg, integ = fn()
    except codec.Inexact as ex:
        return dict(empty, err="", raw=repr(ex)[:200])
    except Exception as ex:  # lattice tessellations of a common domain are inside the documented domain
        return dict(empty, err=type(ex).__name__, raw=repr(ex)[:300])
    return dict(err="", ok=True, ov=ov, avg=avg, integ=integ)


# ---- 1D -----------------------------------------------------------------------------------------------------
def line_case(X, Y, emb):
    """emb = dict(dir=index into DIRS, origin=index, perm1, perm2 (cell orders), flip1, flip2)."""
    import porepy as pp

    d, ln = DIRS[emb["dir"]]
    o = np.array(ORIGINS[emb["origin"]], dtype=float).reshape(3, 1)
    d = np.array(d, dtype=float).reshape(3, 1)

    def cells(B, perm, flip):
        return [[B[k + 1], B[k]] if f else [B[k], B[k + 1]] for k, f in zip(perm, flip)]

    c1, c2 = cells(X, emb["perm1"], emb["flip1"]), cells(Y, emb["perm2"], emb["flip2"])
    inp = dict(kind="line", X=list(X), Y=list(Y), c1=c1, c2=c2, len=ln)

    def pts(B):
        return o + d * np.array(B, dtype=float)

    def lines(B, c):
        return np.array([[B.index(a) for a, _ in c], [B.index(b) for _, b in c]], dtype=int)

    def grid(B):
        g = pp.TensorGrid(np.array(B, dtype=float))
        g.nodes = pts(B)
        g.compute_geometry()
        return g

    def run():
        ov = _tuples(pp.intersections.line_tessellation(pts(X), pts(Y), lines(X, c1), lines(Y, c2)))
        g1, g2 = grid(X), grid(Y)
        avg = pp.match_grids.match_1d(g1, g2, 1e-6, scaling="averaged")
        integ = pp.match_grids.match_1d(g1, g2, 1e-6, scaling="integrated")
        # the matrices refer to the sorted cell order of the grids: re-index rows / columns to c1 / c2 order
        r = [emb["perm1"][k] for k in range(len(c1))]
        c = [emb["perm2"][k] for k in range(len(c2))]
        return ov, _rat_matrix(avg[r][:, c]), _rat_matrix(integ[r][:, c])

    return {"in": inp, "out": _guard(run), "emb": emb}


def _emb(rng, X, Y, k):
    n1, n2 = len(X) - 1, len(Y) - 1
    p1, p2 = list(range(n1)), list(range(n2))
    rng.shuffle(p1)
    rng.shuffle(p2)
    return dict(dir=k % len(DIRS), origin=rng.randrange(len(ORIGINS)), perm1=p1, perm2=p2,
                flip1=[rng.random() < 0.5 for _ in range(n1)], flip2=[rng.random() < 0.5 for _ in range(n2)])


# ---- 2D -----------------------------------------------------------------------------------------------------
def _arrays(tris):
    pts, idx = [], []
    for t in tris:
        row = []
        for q in t:
            q = [int(q[0]), int(q[1])]
            if q not in pts:
                pts.append(q)
            row.append(pts.index(q))
        idx.append(row)
    return np.array(pts, dtype=float).T, np.array(idx, dtype=int).T


def _rots():
    """Rational rotations (integer matrix M, denominator n; R = M / n) used to embed the planar triangulations:
    the identity, signed permutations (those that move the z-axis put the grids in a vertical coordinate plane),
    and tilted rotations from integer quaternions.  Taken from harness/props/_grids.py."""
    from . import _grids

    perms = _grids.rotations24()
    ident = [m for m in perms if np.array_equal(m, np.eye(3, dtype=int))]
    moving = [m for m in perms if m[2, 2] == 0]
    flipz = [m for m in perms if m[2, 2] == -1]
    out = [(ident[0], 1)] + [(m, 1) for m in moving[::3]] + [(flipz[0], 1)]
    for q in ((1, 2, 2, 0), (2, 1, 0, 2), (3, 4, 0, 0), (2, 2, 1, 4), (2, 3, 6, 0)):
        out.append(_grids.quat_rotation(q))
    return out


ROTS = None
SHIFTS = [[0, 0, 0], [1, -2, 3], [-3, 1, 0]]


def _motion(rng, t1, t2, k=None):
    """rotation index, integer shift and a node numbering for each grid (the sign of the normal that porepy
    computes for a grid depends on where its nodes are and how they are numbered)."""
    global ROTS
    ROTS = ROTS or _rots()
    n1 = len({tuple(q) for t in t1 for q in t})
    n2 = len({tuple(q) for t in t2 for q in t})
    p1, p2 = list(range(n1)), list(range(n2))
    rng.shuffle(p1)
    rng.shuffle(p2)
    return dict(rot=(rng.randrange(len(ROTS)) if k is None else k % len(ROTS)), shift=rng.choice(SHIFTS), perm1=p1, perm2=p2)


def _embedded_grid(p, ind, motion, perm):
    """TriangleGrid with the nodes renumbered by perm (node k becomes perm[k]) and moved by the rigid motion"""
    import porepy as pp

    global ROTS
    ROTS = ROTS or _rots()
    q = np.zeros_like(p)
    q[:, perm] = p
    g = pp.TriangleGrid(q, np.asarray(perm)[ind])
    M, n = ROTS[motion["rot"]]
    g.nodes = (np.asarray(M, dtype=float) @ g.nodes) / float(n) + np.array(motion["shift"], dtype=float).reshape(3, 1)
    g.compute_geometry()
    return g


def tri_case(t1, t2, motion=None):
    import porepy as pp

    inp = dict(kind="tri", t1=[[list(map(int, q)) for q in t] for t in t1], t2=[[list(map(int, q)) for q in t] for t in t2])

    def run():
        p1, i1 = _arrays(inp["t1"])
        p2, i2 = _arrays(inp["t2"])
        ov = _tuples(pp.intersections.triangulations(p1, p2, i1, i2))
        m = motion or dict(rot=0, shift=[0, 0, 0], perm1=list(range(p1.shape[1])), perm2=list(range(p2.shape[1])))
        g1, g2 = _embedded_grid(p1, i1, m, m["perm1"]), _embedded_grid(p2, i2, m, m["perm2"])
        for g, ind, perm in ((g1, i1, m["perm1"]), (g2, i2, m["perm2"])):  # cells = the triangles in the given order
            cn = g.cell_nodes().tocsc().indices.reshape((3, -1), order="F")
            if not np.array_equal(np.sort(cn, axis=0), np.sort(np.asarray(perm)[ind], axis=0)):
                raise RuntimeError("TriangleGrid reordered the cells")
        n1 = pp.map_geometry.compute_normal(g1.nodes - g1.nodes.mean(axis=1).reshape(3, 1))
        n2 = pp.map_geometry.compute_normal(g2.nodes - g1.nodes.mean(axis=1).reshape(3, 1))
        info["opposite_normals"] = bool(np.dot(n1, n2) < 0)
        avg = pp.match_grids.match_2d(g1, g2, 1e-6, scaling="averaged")
        integ = pp.match_grids.match_2d(g1, g2, 1e-6, scaling="integrated")
        return ov, _rat_matrix(avg), _rat_matrix(integ)

    info = {}
    out = _guard(run)
    return {"in": inp, "out": out, "motion": motion, "info": info}


def _delaunay(rng, a, b):
    """Delaunay triangulation of the corners + random lattice nodes of [0,a]x[0,b] (input generation only;
    degenerate output is rejected by the InFamily precondition evaluated by TLC)."""
    from scipy.spatial import Delaunay

    lattice = [(x, y) for x in range(a + 1) for y in range(b + 1)]
    corners = [(0, 0), (a, 0), (a, b), (0, b)]
    rest = [q for q in lattice if q not in corners]
    nodes = corners + rng.sample(rest, rng.randrange(1, min(len(rest), 6) + 1))
    tri = Delaunay(np.array(nodes, dtype=float))
    out = []
    for s in tri.simplices:
        t = [nodes[k] for k in s]
        area2 = (t[1][0] - t[0][0]) * (t[2][1] - t[0][1]) - (t[1][1] - t[0][1]) * (t[2][0] - t[0][0])
        if area2 != 0:  # Qhull may emit flat simplices for cocircular lattice points; TLC re-checks the total area
            out.append(t)
    return out


# ---- judge -----------------------------------------------------------------------------------------------------
def _for_tlc(c):
    o = c["out"]
    return {"in": c["in"], "out": dict(err=o["err"], ok=o["ok"], ov=o["ov"], avg=o["avg"], integ=o["integ"])}


def _report(ctx, per, clause, record, detail):
    """ctx.violation, but at most CAP replay files per clause (known findings are always routed through so
    that their hits are counted)."""
    known = False
    for k in ctx.known:
        fn = ctx.matchers.get(k.get("matcher"))
        try:
            known = known or (k.get("status", "known") == "known" and fn is not None and bool(fn({"clause": clause, **record})))
        except Exception:
            pass
    if not known:
        per[clause] = per.get(clause, 0) + 1
        if per[clause] > CAP:
            ctx.extra["violations_not_written"] = ctx.extra.get("violations_not_written", 0) + 1
            return
    ctx.violation(clause, record, detail)


def _judge(ctx, cases, tag, n_strict=None):
    recs = ctx.judge("J_Tessellation", [_for_tlc(c) for c in cases], CLAUSES, tag=tag, workers=WORKERS, timeout=1500)
    unfit = {v["case"] for v in recs if v.get("tag") == "unfit"}
    outside = {v["case"] for v in recs if v.get("clause") == "InFamily"}
    n_strict = len(cases) if n_strict is None else n_strict  # the first n_strict cases are in the family by construction
    if outside and min(outside) <= n_strict:
        raise RuntimeError(f"harness generated a case outside the family: {cases[min(outside) - 1]['in']}")
    ctx.inconclusive += len(unfit)
    per = {}
    for v in recs:
        if "clause" not in v or v["clause"] == "InFamily" or v["case"] in outside:
            continue
        case = cases[v["case"] - 1]
        o = case["out"]
        _report(ctx, per, v["clause"], case,
                      (f"{case['in']['kind']} in={ {k: v2 for k, v2 in case['in'].items() if k != 'kind'} } "
                       f"err={o['err']!r} overlaps={[(t['i'] - 1, t['j'] - 1, t['w'][0] / t['w'][1]) for t in o['ov']]}")[:500])
    return unfit, outside


def _enumerate(ctx, ns, rects):
    m, cf = tlc.gen(ctx.work / "enum", "MC_TessEnum", "TessEnum", dict(Ns=set(ns), Rects=set(rects)),
                    invariants=["Emit", "Laws"])
    return ctx.tlc(m, cf, workers=WORKERS, allow_violation=False)


def run(ctx):
    ctx.rule = ("1D: every pair of partitions of [0,N] with integer breakpoints (N in {4,5} quick, {4,5,6} thorough), each "
                "embedded along 2 (quick) / all 10 (thorough) integer directions of integer length with shuffled, randomly "
                "oriented cells; 2D: every ordered pair of the catalogue triangulations (unit squares cut by either diagonal, "
                "coarse diagonal cut, fans) of the rectangles 2x2, 2x1, 3x1 (thorough: also 3x2) plus seeded pairs of Delaunay "
                "triangulations of random lattice node sets of rectangles 2x1 .. 4x3; for match_2d every 2D pair is embedded "
                "in space by a rational rigid motion (identity, signed permutations incl. vertical planes, tilted rotations "
                "from integer quaternions, integer shift) with shuffled node numbering (the two computed normals come out "
                "with opposite signs in a share of the cases, counted in the evidence); evaluations = cases (each = "
                "line_tessellation/triangulations + 2 match calls); classes = (kind, numbers of cells)")
    ctx.assumptions = ["both tessellations cover the same lattice segment / rectangle (checked by TLC: InFamily)",
                       "1D embeddings have integer direction vectors of integer length, so all measures are rational",
                       "surface_tessellations (polygon sets) is not covered"]
    ns = (4, 5) if ctx.quick else (4, 5, 6)
    rects = [(2, 2), (2, 1), (3, 1)] if ctx.quick else [(2, 2), (2, 1), (3, 1), (3, 2)]
    res = _enumerate(ctx, ns, rects)
    cases = []
    lines = sorted((r for r in res.records if r["kind"] == "line"), key=lambda r: (r["n"], r["X"], r["Y"]))
    tris = sorted((r for r in res.records if r["kind"] == "tri"), key=lambda r: (r["a"], r["b"], r["t1"], r["t2"]))
    if not lines or not tris:
        raise RuntimeError("enumerator emitted nothing")
    for n, r in enumerate(lines):
        ks = [n, n + 3] if ctx.quick else list(range(len(DIRS)))
        for k in ks:
            cases.append(line_case(r["X"], r["Y"], _emb(ctx.rng, r["X"], r["Y"], k)))
            ctx.case(key=("line", len(r["X"]) - 1, len(r["Y"]) - 1), nontrivial=len(r["X"]) + len(r["Y"]) > 4)
    ctx.extra["line_pairs"] = len(lines)
    global ROTS
    ROTS = ROTS or _rots()
    for n, r in enumerate(tris):
        # every catalogue pair under one motion (cycling through all of them); pairs on a rectangle that is not
        # mirror symmetric (a # b) under four (thorough: all, 3x2: three) motions; thorough: three motions for the square ones
        if r["a"] != r["b"]:
            ks = [n, n + 3, n + 6, n + 9] if ctx.quick else (list(range(len(ROTS))) if r["a"] * r["b"] <= 3 else [n, n + 4, n + 8])
        else:
            ks = [n] if ctx.quick else [n, n + 4, n + 8]
        for k in ks:
            cases.append(tri_case(r["t1"], r["t2"], _motion(ctx.rng, r["t1"], r["t2"], k)))
            ctx.case(key=("tri", len(r["t1"]), len(r["t2"]), cases[-1]["motion"]["rot"]))
    ctx.extra["tri_pairs_catalogue"] = len(tris)
    # seeded Delaunay family: precondition InFamily decided by TLC, cases outside are dropped (not judged)
    seeded = []
    for _ in range(150 if ctx.quick else 3000):
        a, b = ctx.rng.choice([(2, 1), (3, 1), (2, 2), (3, 2), (3, 3), (4, 3)])
        t1, t2 = _delaunay(ctx.rng, a, b), _delaunay(ctx.rng, a, b)
        seeded.append(tri_case(t1, t2, _motion(ctx.rng, t1, t2)))
    unfit, outside = set(), set()
    allc = cases + seeded
    for k in range(0, len(allc), 12000):  # one TLC run in quick
        u, o = _judge(ctx, allc[k:k + 12000], f"judge{k}", n_strict=max(0, len(cases) - k))
        unfit |= {x + k for x in u}
        outside |= {x + k for x in o}
    for k, c in enumerate(seeded, len(cases) + 1):
        if k not in outside:
            ctx.case(key=("tri", len(c["in"]["t1"]), len(c["in"]["t2"])))
    ctx.extra["tri_pairs_seeded"] = len(seeded) - len(outside)
    ctx.extra["seeded_outside_family"] = len(outside)
    ctx.extra["unfit"] = len(unfit)
    tri_all = [c for c in allc if c["in"]["kind"] == "tri"]
    ctx.extra["tri_cases"] = len(tri_all)
    ctx.extra["tri_cases_opposite_normals"] = sum(bool(c["info"].get("opposite_normals")) for c in tri_all)
    ctx.extra["tri_cases_nonhorizontal_plane"] = sum(int(ROTS[c["motion"]["rot"]][0][2][2]) != ROTS[c["motion"]["rot"]][1]
                                                     and int(ROTS[c["motion"]["rot"]][0][2][2]) != -ROTS[c["motion"]["rot"]][1]
                                                     for c in tri_all)
    for c in (cases[len(cases) // 3], cases[-1], seeded[0]):
        ctx.sample({"in": c["in"], "out": {k: c["out"][k] for k in ("ov", "avg")}})
    ctx.exhaustive = True  # the enumerated pairs; the Delaunay pairs are extra
    ctx.explanation = ctx.rule + ". TLC (TessEnum) lists the pairs and checks the reference's own partition laws; TLC " \
        "(J_Tessellation) evaluates the clauses with exact rational sums."


def replay(ctx, body):
    rec = body["record"]
    i = rec["in"]
    case = line_case(i["X"], i["Y"], rec["emb"]) if i["kind"] == "line" else tri_case(i["t1"], i["t2"], rec.get("motion"))
    if case["in"] != i:
        raise RuntimeError("replay could not rebuild the recorded input")
    ctx.case(key="replay")
    ctx.sample(case)
    _judge(ctx, [case], "replay")
