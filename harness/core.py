"""Check context: verdict bookkeeping, known findings, evidence, replay files, exit codes.

Verdict rules (DESIGN 4.4): only `ctx.violation(...)` (a property clause judged false on an
observed execution of the real code) leads to exit 1. `ctx.drift(...)` (the code left the
mechanism model) is informational. Machinery failures raise and exit 2."""
from __future__ import annotations

import hashlib
import json
import os
import shutil
import random
import sys
import tempfile
import time
import traceback
from pathlib import Path

from . import tlc as tlcmod

ROOT = Path(__file__).resolve().parent.parent
EVID = ROOT / "evidence"
REPLAYS = ROOT / "replays"
KNOWN = ROOT / "known_findings.json"


def _jsonable(x):
    import numpy as np  # local: numpy always available in /venv

    if isinstance(x, dict):
        return {str(k): _jsonable(v) for k, v in x.items()}
    if isinstance(x, (list, tuple, set, frozenset)):
        return [_jsonable(v) for v in x]
    if isinstance(x, np.ndarray):
        return _jsonable(x.tolist())
    if isinstance(x, (np.integer,)):
        return int(x)
    if isinstance(x, (np.floating,)):
        return float(x)
    if isinstance(x, (np.bool_,)):
        return bool(x)
    if isinstance(x, (str, int, float, bool)) or x is None:
        return x
    return repr(x)


class Ctx:
    def __init__(self, prop: str, tier: str, seed: int, level: str):
        self.prop, self.tier, self.seed, self.level = prop, tier, seed, level
        self.quick = tier == "quick"
        self.rng = random.Random(seed)
        self.t0 = time.time()
        self.states = 0
        self.transitions = 0
        self.tlc_runs = []
        self.evaluations = 0
        self.nontrivial = set()
        self.traces = 0
        self.programs = 0
        self.samples = []
        self.violations = []  # (clause, record, replay_path)
        self.known_hits = {}  # key -> count
        self.drifts = []
        self.inconclusive = 0
        self.vacuous = []
        self.assumptions = []
        self.rule = ""
        self.explanation = ""
        self.exhaustive = None
        self.extra = {}
        self.matchers = {}  # name -> fn(record) -> bool
        self.known = [k for k in _load_known() if k["property"] == prop]
        self.work = Path(tempfile.mkdtemp(prefix=f"verif_{prop}_"))
        os.environ["VERIF_WORK"] = str(self.work)

    # ---- TLC -------------------------------------------------------------------------------------
    def tlc(self, module, cfg=None, **kw) -> tlcmod.TLCResult:
        kw.setdefault("seed", self.seed if kw.get("simulate") else None)
        res = tlcmod.run(module, cfg, **kw)
        self.states += res.distinct
        self.transitions += res.generated
        self.tlc_runs.append({"module": str(module), "cfg": str(cfg) if cfg else None,
                              "distinct": res.distinct, "generated": res.generated,
                              "records": len(res.records), "violated": res.violated,
                              "wall_s": round(res.wall_s, 2)})
        if kw.get("coverage"):
            for a, (d, t) in res.coverage.items():
                if t == 0:
                    self.vacuous.append(a)
        return res

    def judge(self, client: str, cases: list, invariants, consts=None, workers=16, tag=None, timeout=3600):
        """Batch judgement by TLC (spec/lib/Judge.tla idiom): `client` is a module that EXTENDS Judge and
        defines the invariants; returns TLC's verdict records [{case (1-based), clause}] and Tell records."""
        tag = tag or f"j{len(self.tlc_runs)}"
        f = self.datafile(f"cases_{tag}.json", cases)
        m, cf = tlcmod.gen(self.work / tag, f"MC_{client}", client, consts or {}, spec="JSpec",
                           invariants=list(invariants))
        res = self.tlc(m, cf, workers=workers, env={"VERIF_CASES": f}, allow_violation=False, timeout=timeout)
        return res.records

    def datafile(self, name: str, obj) -> str:
        """Write a JSON file for TLC to read with JsonDeserialize(IOEnv.X)."""
        p = self.work / name
        with open(p, "w") as f:
            json.dump(_jsonable(obj), f)
        return str(p)

    # ---- bookkeeping -------------------------------------------------------------------------------
    def case(self, key=None, nontrivial=True, n=1):
        self.evaluations += n
        if nontrivial and key is not None:
            self.nontrivial.add(key if isinstance(key, (str, int, tuple)) else json.dumps(_jsonable(key), sort_keys=True))

    def sample(self, obj, cap=6):
        if len(self.samples) < cap:
            self.samples.append(_jsonable(obj))

    def drift(self, what, record=None):
        if len(self.drifts) < 50:
            self.drifts.append({"what": what, "record": _jsonable(record)})
        else:
            self.drifts.append(None)

    def violation(self, clause: str, record: dict, detail: str = ""):
        """A property clause judged false on an observed execution of the real code."""
        rec = _jsonable(record)
        for k in self.known:
            if k.get("status", "known") != "known":
                continue
            fn = self.matchers.get(k["matcher"])
            if fn is None:
                raise RuntimeError(f"known finding {k['key']} names unknown matcher {k['matcher']}")
            try:
                hit = bool(fn({"clause": clause, **rec}))
            except Exception:
                hit = False
            if hit:
                self.known_hits[k["key"]] = self.known_hits.get(k["key"], 0) + 1
                return
        body = {"property": self.prop, "clause": clause, "detail": detail, "record": rec}
        h = hashlib.sha1(json.dumps(body, sort_keys=True).encode()).hexdigest()[:12]
        d = REPLAYS / self.prop
        d.mkdir(parents=True, exist_ok=True)
        path = d / f"{clause}_{h}.json"
        with open(path, "w") as f:
            json.dump(body, f, indent=1)
        self.violations.append((clause, rec, str(path), detail))

    # ---- finish ---------------------------------------------------------------------------------
    def finish(self) -> int:
        import shutil

        wall = time.time() - self.t0
        cov = {
            "evaluations": int(self.evaluations),
            "distinct_nontrivial": len(self.nontrivial),
            "rule": self.rule,
            "samples": self.samples or [],
            "states": int(self.states),
            "transitions": int(self.transitions),
            "traces_validated_against_impl": int(self.traces),
            "programs": int(self.programs or self.evaluations),
            "disagreements_checked": int(len(self.violations) + sum(self.known_hits.values()) + len(self.drifts)),
            "explanation": self.explanation or self.rule,
            "tlc_runs": self.tlc_runs,
            "drift": len(self.drifts),
            "drift_samples": [d for d in self.drifts if d][:5],
            "inconclusive": self.inconclusive,
            "vacuous_actions": sorted(set(self.vacuous)),
            "known_findings_hit": self.known_hits,
        }
        if self.exhaustive is not None:
            cov["exhaustive"] = bool(self.exhaustive)
        cov.update(_jsonable(self.extra))
        ev = {
            "property_id": self.prop, "tier": self.tier, "seed": int(self.seed), "level": self.level,
            "coverage": cov, "assumptions": self.assumptions, "wall_s": round(wall, 2),
            "violations": len(self.violations),
        }
        EVID.mkdir(exist_ok=True)
        with open(EVID / f"{self.prop}.json", "w") as f:
            json.dump(ev, f, indent=1)
        shutil.rmtree(self.work, ignore_errors=True)
        for d in [d for d in self.drifts if d][:10]:
            print(f"DRIFT property={self.prop} {d['what']}")
        if len(self.drifts) > 10:
            print(f"DRIFT property={self.prop} ... {len(self.drifts)} in total")
        for k in self.known:
            if k.get("status", "known") == "known" and self.known_hits.get(k["key"]):
                print(f"KNOWN-FINDING: property={self.prop} {k['what']} (hits={self.known_hits[k['key']]})")
        seen = set()
        for clause, rec, path, detail in self.violations:
            if (clause) in seen and len(seen) > 20:
                continue
            seen.add(clause)
            print(f"VIOLATION property={self.prop} replay={path} clause={clause} {detail}"[:600])
        print(f"[{self.prop}] tier={self.tier} seed={self.seed} evaluations={self.evaluations} "
              f"nontrivial={len(self.nontrivial)} states={self.states} traces={self.traces} "
              f"drift={len(self.drifts)} known={sum(self.known_hits.values())} "
              f"violations={len(self.violations)} wall={wall:.1f}s")
        return 1 if self.violations else 0


def _load_known():
    if not KNOWN.exists():
        return []
    with open(KNOWN) as f:
        return json.load(f)["findings"]


def main(argv=None):
    import argparse
    import importlib

    ap = argparse.ArgumentParser()
    ap.add_argument("prop")
    ap.add_argument("--tier", default=os.environ.get("VERIF_TIER", "quick"), choices=["quick", "thorough"])
    ap.add_argument("--replay", default=None)
    ap.add_argument("--selfcheck", action="store_true")
    a = ap.parse_args(argv)
    seed = int(os.environ.get("VERIF_SEED", "0") or 0)
    os.environ.setdefault("PYTHONHASHSEED", "0")
    os.environ.setdefault("POREPY_VERIF", "1")
    os.environ.setdefault("NUMBA_DISABLE_JIT", os.environ.get("NUMBA_DISABLE_JIT", "0"))
    prop = a.prop.upper()
    try:
        mod = importlib.import_module(f"harness.props.{prop.lower()}")
    except ModuleNotFoundError as e:
        print(f"no check for {prop}: {e}")
        return 2
    ctx = Ctx(prop, a.tier, seed, getattr(mod, "LEVEL", "model_checking"))
    ctx.matchers = dict(getattr(mod, "MATCHERS", {}))
    # run in a scratch cwd: porepy and gmsh write files into the current directory
    cwd = ctx.work / "cwd"
    cwd.mkdir()
    os.chdir(cwd)
    try:
        if a.replay:
            with open(a.replay) as f:
                body = json.load(f)
            mod.replay(ctx, body)
        else:
            mod.run(ctx)
        rc = ctx.finish()
    except tlcmod.TLCError as e:
        print(f"MACHINERY-FAILURE property={prop}: {e}")
        return 2
    except Exception:
        traceback.print_exc()
        print(f"MACHINERY-FAILURE property={prop}: exception in harness")
        return 2
    finally:
        os.chdir("/")
        if not os.environ.get("VERIF_KEEP_WORK"):   # also after a machinery failure: nothing is left under /tmp
            shutil.rmtree(ctx.work, ignore_errors=True)
    return rc


if __name__ == "__main__":
    sys.exit(main())
